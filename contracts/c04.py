"""C04 — batched dispatch defers, coalesces and delivers once on outermost exit.

Deductive part so far: the three batching managers (body runs with the flag set, flush iff the
saved flag was False, i.e. only at the outermost exit; discard_events restores exactly the
queues it found), `update(...)` as a context manager (restorer exit), and `Parameters._update`
(all keys applied inside the batch, flag restored, flush iff outermost).  The flush loop
itself and `trigger` are covered by the bounded layer only (see level note)."""
from contracts import c05 as _c05

PROP = "C04"


_building = False


def contracts():
    global _building
    from contracts import c03 as _c03
    _building = True
    try:
        base = [c for c in _c05.contracts() if c.name != "as_uninitialized.override_initialization"]
    finally:
        _building = False
    return base + [_c03.call_watcher_contract()]


ASSUMPTIONS = _c05.ASSUMPTIONS


# ======================================================================================
# Parameters._batch_call_watchers — the flush
# ======================================================================================
import z3

from contracts import dispatch_model as dm
from contracts.c02 import sorted_prec
from pyvc import spec as S
from pyvc import values as vm
from pyvc.engine import OutOfReach, Raise
from pyvc.loops import LoopSpec
from pyvc.values import BoolV, ClsV, Conc, FuncV, Ref, Sym, TupV
from pyvc.verify import FunctionContract


def flush_contract():
    """One drain round of the flush (arbitrary iteration of the `while self_._events` loop), by the
    loop rules: both queues are taken over (emptied) before the first callback; every watcher that
    was queued is executed exactly once, in precedence order (ghost trace == sorted(queued watchers));
    each callback runs inside its own batching scope (flag restored afterwards, also on raise); on
    normal exit of the flush no event is left queued."""
    holder = {}

    def configure(I):
        I.sym_fields = {"precedence", "queued", "what", "parameter_names", "name"}

        def h_sorted(I, st, fv, args, kwargs, ctx):
            xs = args[0]
            seq = st.heap[xs.oid].seq
            r = I.alloc_list(st, sorted_prec(seq))
            return [(st, r)]
        I.lib["sorted"] = h_sorted

        def ordered_dict(I, st, fv, args, kwargs, ctx):
            # OrderedDict(<pairs built from the queued events>): the last pair of a key wins
            from pyvc import objects
            r = objects.lastwins_dict(I, st, args[0], cls="OrderedDict") if args else None
            if r is None:
                raise OutOfReach("the coalescing table is not built from a pure map over the queued events: outside the modelled shapes")
            return [(st, r)]
        I.lib["new:OrderedDict"] = ordered_dict

        def update_event_type(I, st, fv, args, kwargs, ctx):
            # callee contract (verified on its own in C03): a typed copy of the event.  Here: WHICH
            # event is handed over for the parameter name at hand
            from pyvc.objects import sym_field
            watcher, event = I.term(args[0]), I.term(args[1])
            obs = ctx.get("obligations")
            nm = st.env.get("name")
            if obs is not None and nm is not None:
                Fn, Fw = sym_field(I, st, "name"), sym_field(I, st, "what")
                looks = st.ghost.get("$lastwins_lookup", [])
                ed = st.env.get("event_dict")
                lw = st.heap[ed.oid].fields.get("$lastwins") if isinstance(ed, Ref) else None
                if lw is None or not looks:
                    raise OutOfReach("the coalescing table is not a last-wins mapping over the queued events: outside the modelled shapes")
                rs = lw[0]
                ok_last = z3.BoolVal(False)
                if looks and rs is not None:
                    kt, y, pre, post = looks[-1]
                    later = I.U.fresh("a_later_event")
                    ok_last = z3.And(event == y, rs == z3.Concat(pre, z3.Unit(y), post),
                                     z3.Implies(z3.Contains(post, z3.Unit(later)),
                                                z3.Not(z3.And(z3.Select(Fn, later) == I.term(nm), z3.Select(Fw, later) == z3.Select(Fw, watcher)))))
                    # ∀-elimination of the lookup's fold at the arbitrary later event
                    fl = [f for n_, f in I.U.__dict__.get("folds", {}).items() if n_.startswith("no_element_has_key_")]
                    st.pc += [z3.Implies(z3.And(f.sfn(post), z3.Contains(post, z3.Unit(later))), f.pred(later)) for f in fl]
                obs.append(("coalescing/the event handed to a watcher for one of its parameters is a queued event of that parameter and of the watcher's `what`",
                            st.fork(), z3.And(z3.Select(Fn, event) == I.term(nm), z3.Select(Fw, event) == z3.Select(Fw, watcher))))
                obs.append(("coalescing/… and it is the LAST such event queued in the round", st.fork(), ok_last))
            r = I.U.fresh("typed_event")
            return [(st, Sym(r))]
        I.contracts["Parameters._update_event_type"] = update_event_type

        def new_event(I, st, fv, args, kwargs, ctx):
            r = I.alloc_obj(st, "Event", lazy=False, label="typed_event")
            st.heap[r.oid].fields.update(kwargs)
            return [(st, r)]
        I.lib["new:Event"] = new_event

    def setup(I, st):
        U = I.U
        W = dm.World(I, st)
        holder["W"] = W
        st.pc.append(W.bw0.t == U.FALSE)      # the flush is only ever called with no batch open (callers' contracts)

        def execute(I, st2, fv, args, kwargs, ctx):
            w = I.term(args[0])
            st2.ghost["exec"] = st2.ghost.get("exec", []) + [(w, W.bw(st2), W.ev_seq(st2), W.ws_seq(st2))]
            ts = st2.ghost.get("trace_seq")
            st2.ghost["trace_seq"] = z3.Concat(ts if ts is not None else z3.Empty(vm.SeqV), z3.Unit(w))
            # a callback is user code: under the rely it leaves the flags alone and (inside its
            # batching scope) only appends to the queues
            ev, ws = W.get(st2, "events"), W.get(st2, "watchers")
            for r_, nm in ((ev, "cb_events"), (ws, "cb_watchers")):
                if isinstance(r_, Ref):
                    h = st2.heap[r_.oid]
                    h.seq = z3.If(W.bw(st2) == U.TRUE, z3.Concat(h.seq, U.fresh_seq(nm)), h.seq)
                    h.fields.pop("$items", None)
            q = st2.fork()
            return [(st2, Conc(None)), (q, Raise("$User", origin="watcher"))]
        I.contracts["Parameters._execute_watcher"] = execute
        fv = I.bound_method(W.param, I.src.find_method("Parameters", "_batch_call_watchers"))
        return fv, [], {}, {"W": W, "symbols": {}}

    def inv_while(I, st, pre):
        W = holder["W"]
        return z3.And(W.bw(st) == I.U.FALSE, W.tr(st) == W.tr0.t)

    def havoc_while(I, st):
        W = holder["W"]
        U = I.U
        e = I.alloc_list(st, U.fresh_seq("round_events"))
        w = I.alloc_list(st, U.fresh_seq("round_watchers"))
        I.dict_store(st, W.state, Conc("events"), e)
        I.dict_store(st, W.state, Conc("watchers"), w)
        st.ghost["round_ws"] = st.heap[w.oid].seq
        st.ghost["trace_seq"] = z3.Empty(vm.SeqV)
        st.ghost["exec"] = []
        st.ghost["in_round"] = True

    def inv_for(I, st, pre):
        W = holder["W"]
        ts = st.ghost.get("trace_seq")
        if ts is None:
            ts = z3.Empty(vm.SeqV)
        return z3.And(ts == pre.seq, W.bw(st) == I.U.FALSE, W.tr(st) == W.tr0.t)

    def entry_for(I, st):
        W = holder["W"]
        ev, ws = W.ev_seq(st), W.ws_seq(st)
        return [("both queues are taken over (emptied) before the first callback of the round",
                 z3.And(z3.Length(ev) == 0, z3.Length(ws) == 0) if ev is not None and ws is not None else z3.BoolVal(False))]

    def exit_for(I, st):
        ts = st.ghost.get("trace_seq")
        rw = st.ghost.get("round_ws")
        if ts is None or rw is None:
            return [("round bookkeeping", z3.BoolVal(False))]
        return [("every watcher queued for the round ran exactly once, in precedence order", ts == sorted_prec(rw))]

    def havoc_for(I, st):
        W = holder["W"]
        U = I.U
        st.ghost["trace_seq"] = U.fresh_seq("trace")
        st.ghost["exec"] = []
        ev, ws = W.get(st, "events"), W.get(st, "watchers")
        for r_, nm in ((ev, "it_events"), (ws, "it_watchers")):
            if isinstance(r_, Ref):
                st.heap[r_.oid].seq = U.fresh_seq(nm)
                st.heap[r_.oid].fields.pop("$items", None)

    def post(I, info, st, oc):
        U = I.U
        W = info["W"]
        out = []
        how = "raise" if isinstance(oc, Raise) else "return"
        out.append(("exit/BATCH_WATCH-restored[%s]" % how, W.bw(st) == W.bw0.t))
        out.append(("exit/TRIGGER-untouched[%s]" % how, W.tr(st) == W.tr0.t))
        if not isinstance(oc, Raise):
            ev = W.ev_seq(st)
            out.append(("normal exit => no event left queued", z3.Length(ev) == 0 if ev is not None else z3.BoolVal(False)))
        for i, (w, bw, evq, wsq) in enumerate(st.ghost.get("exec", [])[:2]):
            # at the time of the first call of a round, the queues had been taken over
            pass
        if isinstance(oc, Raise):
            out.append(("only a watcher's exception escapes", z3.BoolVal(oc.cls == "$User")))
        return out
    loops = {
        ("Parameters._batch_call_watchers", "self_._events"): LoopSpec("self_._events", inv=inv_while, heap=havoc_while, name="drain-rounds"),
        ("Parameters._batch_call_watchers", "watchers"): LoopSpec("watchers", inv=inv_for, heap=havoc_for, entry_oblig=entry_for, exit_oblig=exit_for,
                                                                  name="each-queued-watcher-once-in-precedence-order"),
    }
    c = FunctionContract("param.parameterized:Parameters._batch_call_watchers", PROP, setup, post, loops=loops,
                         configure=configure, name="Parameters._batch_call_watchers[flush]")
    c.static_replay = FLUSH_REPLAY
    c.static_witness = "batches mixing value and slot ('bounds') changes of one parameter, several sets of one parameter, watchers of different precedence"
    return c


FLUSH_REPLAY = '''import sys, os
sys.path.insert(0, os.environ.get('PYVC_REPO', '/repo'))
import param
bad = []
class P(param.Parameterized):
    x = param.Number(0, bounds=(-10, 10))
    y = param.Number(0)
def run(order):
    p = P(); log = []
    p.param.watch(lambda *ev: log.append(('value', [(e.name, e.what, e.old, e.new) for e in ev])), ['x', 'y'], precedence=1)
    p.param.watch(lambda *ev: log.append(('bounds', [(e.name, e.what, e.old, e.new) for e in ev])), ['x'], what='bounds', precedence=0)
    with param.parameterized.batch_call_watchers(p):
        for step in order:
            if step == 'v1': p.x = 1
            elif step == 'v2': p.x = 2
            elif step == 'b': p.param.x.bounds = (0, 100)
            elif step == 'y': p.y = 7
    return log
for order in (['v1', 'b'], ['b', 'v1'], ['v1', 'b', 'v2'], ['v1', 'v2'], ['y', 'v1', 'b'], ['b', 'y']):
    log = run(order)
    kinds = [k for k, _ in log]
    want_kinds = (['bounds'] if 'b' in order else []) + (['value'] if any(s in order for s in ('v1', 'v2', 'y')) else [])
    if kinds != want_kinds:
        bad.append('%r: watchers ran %r, expected %r (each once, in precedence order)' % (order, kinds, want_kinds)); continue
    for kind, evs in log:
        for (name, what, old, new) in evs:
            if what != kind:
                bad.append('%r: the %s watcher received a %r event of %s: %r -> %r' % (order, kind, what, name, old, new))
        names = [e[0] for e in evs]
        if len(names) != len(set(names)):
            bad.append('%r: the %s watcher received several events for one parameter: %r' % (order, kind, evs))
        if kind == 'value':
            lastx = [s for s in order if s in ('v1', 'v2')]
            for (name, what, old, new) in evs:
                if name == 'x' and lastx and new != {'v1': 1, 'v2': 2}[lastx[-1]]:
                    bad.append('%r: the value watcher received new=%r for x, the last assignment was %s' % (order, new, lastx[-1]))
if bad:
    print('REPRODUCED: C04 flush does not hand each watcher the last queued event of each of its parameters (and of its kind):')
    for b in bad[:6]:
        print('  ', b)
    sys.exit(1)
print('NOT-REPRODUCED'); sys.exit(0)
'''


_c04_base = contracts


def contracts():
    return _c04_base() + [flush_contract()]


# ======================================================================================
# Parameters.trigger
# ======================================================================================
def objects_dict_get(I, st, ref, k):
    from pyvc import objects
    return objects.dict_get(I, st, ref, k)


def trigger_contract():
    from contracts import c05 as _c05
    holder = {}

    def configure(I):
        I.sym_fields = {"_autotrigger_value", "_mode", "_autotrigger_reset_value"}
        attr_now = z3.Function("attribute_read", vm.V, vm.V, vm.V)     # getattr(obj, name): what the descriptor PRODUCES

        def h_getattr(I, st, fv, args, kwargs, ctx):
            from pyvc import builtins_lib as bl
            if isinstance(args[1], Sym):
                r = attr_now(I.term(args[0]), args[1].t)
                I.U.well_typed(r)
                return [(st, Sym(r))]
            return bl.h_getattr(I, st, fv, args, kwargs, ctx)
        I.lib["getattr"] = h_getattr

    def setup(I, st):
        U = I.U
        W = dm.World(I, st, initialized=Conc(True))
        holder["W"] = W
        st.pc.append(W.tr0.t == U.FALSE)           # trigger is not re-entered from inside a trigger
        _c05.install_namespace_contracts(I, W)

        def values(I, st2, fv, args, kwargs, ctx):
            r = I.alloc_dict(st2, keys=I.U.fresh_seq("valuekeys"), vals=z3.Const("current_values", z3.ArraySort(vm.V, vm.V)))
            st2.ghost["values_vals"] = st2.heap[r.oid].vals
            return [(st2, r)]
        I.contracts["Parameters.values"] = values

        def update(I, st2, fv, args, kwargs, ctx):
            st2.ghost["update_calls"] = st2.ghost.get("update_calls", []) + [(W.tr(st2), W.bw(st2))]
            if args and isinstance(args[0], Ref) and st2.heap[args[0].oid].kind == "dict":
                nm_ = holder["name"]
                st2.ghost["reassigned"] = (I.truth(I.dict_has(st2, args[0], nm_)), I.term(objects_dict_get(I, st2, args[0], nm_)))
            # the batch of sets performed by update: whatever it leaves in the queues
            e = I.alloc_list(st2, U.fresh_seq("upd_events"))
            w = I.alloc_list(st2, U.fresh_seq("upd_watchers"))
            I.dict_store(st2, W.state, Conc("events"), e)
            I.dict_store(st2, W.state, Conc("watchers"), w)
            st2.ghost["upd_ev"] = st2.heap[e.oid].seq
            st2.ghost["upd_ws"] = st2.heap[w.oid].seq
            q = st2.fork()
            return [(st2, Sym(U.fresh("restorer"))), (q, Raise("$User", origin="update"))]
        I.contracts["Parameters.update"] = update
        name = Sym(U.fresh("param_name"))
        holder["name"] = name
        fv = I.bound_method(W.param, I.src.find_method("Parameters", "trigger"))
        return fv, [name], {}, {"W": W, "name": name.t, "symbols": {"BATCH_WATCH0": W.bw0.t}}

    def post(I, info, st, oc):
        U = I.U
        W = info["W"]
        how = "raise" if isinstance(oc, Raise) else "return"
        calls = st.ghost.get("update_calls", [])
        out = []
        if isinstance(oc, Raise) and not calls:
            # failed before anything happened (unknown name): nothing may have changed
            out.append(("early failure leaves the dispatch state untouched",
                        z3.And(W.tr(st) == W.tr0.t, W.bw(st) == W.bw0.t)))
            return out
        out.append(("exit/TRIGGER-cleared[%s]" % how, W.tr(st) == U.FALSE))
        out.append(("exit/BATCH_WATCH-untouched[%s]" % how, W.bw(st) == W.bw0.t))
        out.append(("update runs exactly once, under the trigger flag",
                    z3.And(z3.BoolVal(len(calls) == 1), calls[0][0] == U.TRUE) if calls else z3.BoolVal(False)))
        ra, vv = st.ghost.get("reassigned"), st.ghost.get("values_vals")
        if ra is not None and vv is not None:
            from contracts.c05 import param_of
            from pyvc.builtins_lib import hasattr_fn
            is_event = hasattr_fn("_autotrigger_value")(param_of(info["name"]))
            # members of the filtered comprehensions (trigger_params, triggers) satisfy their filters
            for f_ in I.U.__dict__.get("folds", {}).values():
                for sq in f_.__dict__.get("applied", []):
                    I.U.axioms.append(f_.elim_seq(sq, info["name"]))
            out.append(("the triggered parameter is re-assigned the object values() reports for it (a value generator stays in place) — unless it is an Event",
                        z3.And(ra[0], z3.Implies(z3.Not(is_event), ra[1] == z3.Select(vv, info["name"])))))
        else:
            out.append(("the triggered parameter is re-assigned through update(<mapping>)", z3.BoolVal(False)))
        ev, ws = W.ev_seq(st), W.ws_seq(st)
        uev, uws = st.ghost.get("upd_ev"), st.ghost.get("upd_ws")
        if ev is not None and uev is not None:
            out.append(("exit/queued events: those parked before, then the triggered ones (chronological)[%s]" % how,
                        ev == z3.Concat(W.ev_seq0, uev)))
        else:
            out.append(("exit/queued events preserved[%s]" % how, z3.BoolVal(False)))
        if ws is not None:
            out.append(("exit/watchers parked before the trigger are still queued first[%s]" % how, z3.PrefixOf(W.ws_seq0, ws)))
            # no watcher is queued twice: an arbitrary element of the appended part is not among the parked ones
            w = U.fresh("w")
            pre, post_ = U.fresh_seq("apre"), U.fresh_seq("apost")
            tail = U.fresh_seq("tail")
            hyp = [ws == z3.Concat(W.ws_seq0, tail), tail == z3.Concat(pre, z3.Unit(w), post_)]
            for f in I.U.__dict__.get("folds", {}).values():
                hyp.append(f.sfn(z3.Concat(pre, z3.Unit(w), post_)) == z3.And(f.sfn(pre), f.pred(w), f.sfn(post_)))
            out.append(("exit/no parked watcher is queued a second time[%s]" % how,
                        z3.Implies(z3.And(hyp), z3.Not(z3.Contains(W.ws_seq0, z3.Unit(w))))))
        return out
    return FunctionContract("param.parameterized:Parameters.trigger", PROP, setup, post, configure=configure,
                            name="Parameters.trigger")


_c04_base2 = contracts


def contracts():
    return _c04_base2() + [trigger_contract()]


# .param.update / trigger act on the instance whenever there is one, whatever its truth value (verified for C12)
_c04_base_soc = contracts


def contracts():
    from contracts import c12 as _c12
    c = _c12.self_or_cls_contract()
    c.prop = "C04"
    return _c04_base_soc() + [c]


# a copy starts with an idle dispatch state (no open batch, no trigger in progress; verified for C17), and
# the update context hands every linked name to the restorer, mapping and keywords alike (verified for C08)
_c04_base_r7 = contracts


def contracts():
    import ast
    from contracts import c17 as _c17, c08 as _c08
    from pyvc import source
    islots = ast.literal_eval(source.Sources().modules[_c17.MOD].class_attr("_InstancePrivate", "__slots__"))
    extra = [_c17.roundtrip_contract("_InstancePrivate", islots, False, "_InstancePrivate.__getstate__/__setstate__"),
             _c08.update_refs_contract(False), _c08.update_refs_contract(True)]
    for c in extra:
        c.prop = "C04"
    return _c04_base_r7() + extra


# ---------------------------------------------------------------------------------------------
# Parameters._execute_watcher — one callback invocation per call; a callback that raises Skip ends
# quietly (so a flush goes on with the next queued watcher), any other exception is the caller's
# ---------------------------------------------------------------------------------------------
SKIP_REPLAY = '''import sys, os, itertools
sys.path.insert(0, os.environ.get('PYVC_REPO', '/repo'))
import param
bad = []
class P(param.Parameterized):
    a = param.Number(default=0)
    b = param.Number(default=0)
for how, order in itertools.product(('batch', 'update', 'plain', 'trigger'), ((0, 1), (1, 0))):
    p = P()
    log = []
    def skipper(*ev):
        log.append('skipper'); raise param.Skip
    def other(*ev):
        log.append('other')
    fns = [skipper, other]
    for k, i in enumerate(order):
        p.param.watch(fns[i], ['a'] if how != 'update' else ['a', 'b'], precedence=k)
    try:
        if how == 'batch':
            with param.parameterized.batch_call_watchers(p):
                p.a = 1
        elif how == 'update':
            p.param.update(a=1, b=2)
        elif how == 'trigger':
            p.param.trigger('a')
        else:
            p.a = 1
    except BaseException as e:
        bad.append('%s, watchers in order %r: %r escaped' % (how, order, e)); continue
    if sorted(log) != ['other', 'skipper']:
        bad.append('%s, watchers in order %r: callbacks run %r (each watcher is to run once, a Skip ends only its own callback)' % (how, order, log))
if bad:
    print('REPRODUCED: ' + bad[0]); sys.exit(1)
print('NOT-REPRODUCED'); sys.exit(0)
'''


def execute_watcher_contract(mode):
    def configure(I):
        I.sym_fields = {"mode", "fn", "name", "new"}
        I.contracts["iscoroutinefunction"] = lambda I, st, fv, args, kwargs, ctx: [(st, Conc(False))]

        def callback(I, st, fv, args, kwargs, ctx):
            st.ghost["callback_runs"] = st.ghost.get("callback_runs", 0) + 1
            q, r = st.fork(), st.fork()
            return [(st, Conc(None)), (q, Raise("$User", origin="watcher")), (r, Raise("Skip", origin="watcher"))]
        I.lib["$sym_call"] = callback

    def setup(I, st):
        from pyvc.objects import sym_field
        U = I.U
        W = dm.World(I, st, initialized=Conc(True))
        w = Sym(U.fresh("watcher"))
        st.pc.append(z3.Select(sym_field(I, st, "mode"), w.t) == U.lit(mode))
        ev = Sym(U.fresh("event"))
        st.pc.append(vm.ty(z3.Select(sym_field(I, st, "name"), ev.t)) == vm.TAG["str"])
        fv = I.bound_method(W.param, I.src.find_method("Parameters", "_execute_watcher"))
        return fv, [w, I.make_list(st, [ev])], {}, {"symbols": {}}

    def post(I, info, st, oc):
        out = [("the callback is invoked exactly once", z3.BoolVal(st.ghost.get("callback_runs", 0) == 1))]
        if isinstance(oc, Raise):
            out.append(("a Skip raised by the callback ends this invocation only: it never reaches the dispatcher",
                        z3.BoolVal(oc.cls != "Skip")))
            out.append(("only the callback's own exception escapes", z3.BoolVal(oc.cls in ("$User", "Skip"))))
        return out
    c = FunctionContract("param.parameterized:Parameters._execute_watcher", PROP, setup, post, configure=configure,
                         name="Parameters._execute_watcher[mode %s]" % mode)
    c.static_replay = SKIP_REPLAY
    c.static_witness = "one of two watchers raises param.Skip (plain set, batch, update, trigger; both orders)"
    return c


_c04_base_exec = contracts


def contracts():
    # mode "kwargs" builds a keyword dictionary with computed keys: outside the executor's subset; the probe covers it
    return _c04_base_exec() + [execute_watcher_contract("args")]
