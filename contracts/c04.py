"""C04 — batched dispatch defers, coalesces and delivers once on outermost exit.

Deductive part so far: the three batching managers (body runs with the flag set, flush iff the
saved flag was False, i.e. only at the outermost exit; discard_events restores exactly the
queues it found), `update(...)` as a context manager (restorer exit), and `Parameters._update`
(all keys applied inside the batch, flag restored, flush iff outermost).  The flush loop
itself and `trigger` are covered by the bounded layer only (see level note)."""
from contracts import c05 as _c05

PROP = "C04"


def contracts():
    from contracts import c03 as _c03
    return [c for c in _c05.contracts() if c.name != "as_uninitialized.override_initialization"] + [_c03.call_watcher_contract()]


ASSUMPTIONS = _c05.ASSUMPTIONS


# ======================================================================================
# Parameters._batch_call_watchers — the flush
# ======================================================================================
import z3

from contracts import dispatch_model as dm
from contracts.c02 import sorted_prec
from pyvc import spec as S
from pyvc import values as vm
from pyvc.engine import OutOfReach, Raise
from pyvc.loops import LoopSpec
from pyvc.values import BoolV, ClsV, Conc, FuncV, Ref, Sym, TupV
from pyvc.verify import FunctionContract


def flush_contract():
    """One drain round of the flush (arbitrary iteration of the `while self_._events` loop), by the
    loop rules: both queues are taken over (emptied) before the first callback; every watcher that
    was queued is executed exactly once, in precedence order (ghost trace == sorted(queued watchers));
    each callback runs inside its own batching scope (flag restored afterwards, also on raise); on
    normal exit of the flush no event is left queued."""
    holder = {}

    def configure(I):
        I.sym_fields = {"precedence", "queued", "what", "parameter_names", "name"}

        def h_sorted(I, st, fv, args, kwargs, ctx):
            xs = args[0]
            seq = st.heap[xs.oid].seq
            r = I.alloc_list(st, sorted_prec(seq))
            return [(st, r)]
        I.lib["sorted"] = h_sorted

        def ordered_dict(I, st, fv, args, kwargs, ctx):
            r = I.alloc_dict(st, cls="OrderedDict", keys=I.U.fresh_seq("evkeys"),
                             vals=z3.Const("evvals!%d" % I.new_oid(), z3.ArraySort(vm.V, vm.V)))
            return [(st, r)]
        I.lib["new:OrderedDict"] = ordered_dict

        def new_event(I, st, fv, args, kwargs, ctx):
            r = I.alloc_obj(st, "Event", lazy=False, label="typed_event")
            st.heap[r.oid].fields.update(kwargs)
            return [(st, r)]
        I.lib["new:Event"] = new_event

    def setup(I, st):
        U = I.U
        W = dm.World(I, st)
        holder["W"] = W
        st.pc.append(W.bw0.t == U.FALSE)      # the flush is only ever called with no batch open (callers' contracts)

        def execute(I, st2, fv, args, kwargs, ctx):
            w = I.term(args[0])
            st2.ghost["exec"] = st2.ghost.get("exec", []) + [(w, W.bw(st2), W.ev_seq(st2), W.ws_seq(st2))]
            ts = st2.ghost.get("trace_seq")
            st2.ghost["trace_seq"] = z3.Concat(ts if ts is not None else z3.Empty(vm.SeqV), z3.Unit(w))
            # a callback is user code: under the rely it leaves the flags alone and (inside its
            # batching scope) only appends to the queues
            ev, ws = W.get(st2, "events"), W.get(st2, "watchers")
            for r_, nm in ((ev, "cb_events"), (ws, "cb_watchers")):
                if isinstance(r_, Ref):
                    h = st2.heap[r_.oid]
                    h.seq = z3.If(W.bw(st2) == U.TRUE, z3.Concat(h.seq, U.fresh_seq(nm)), h.seq)
                    h.fields.pop("$items", None)
            q = st2.fork()
            return [(st2, Conc(None)), (q, Raise("$User", origin="watcher"))]
        I.contracts["Parameters._execute_watcher"] = execute
        fv = I.bound_method(W.param, I.src.find_method("Parameters", "_batch_call_watchers"))
        return fv, [], {}, {"W": W, "symbols": {}}

    def inv_while(I, st, pre):
        W = holder["W"]
        return z3.And(W.bw(st) == I.U.FALSE, W.tr(st) == W.tr0.t)

    def havoc_while(I, st):
        W = holder["W"]
        U = I.U
        e = I.alloc_list(st, U.fresh_seq("round_events"))
        w = I.alloc_list(st, U.fresh_seq("round_watchers"))
        I.dict_store(st, W.state, Conc("events"), e)
        I.dict_store(st, W.state, Conc("watchers"), w)
        st.ghost["round_ws"] = st.heap[w.oid].seq
        st.ghost["trace_seq"] = z3.Empty(vm.SeqV)
        st.ghost["exec"] = []
        st.ghost["in_round"] = True

    def inv_for(I, st, pre):
        W = holder["W"]
        ts = st.ghost.get("trace_seq")
        if ts is None:
            ts = z3.Empty(vm.SeqV)
        return z3.And(ts == pre.seq, W.bw(st) == I.U.FALSE, W.tr(st) == W.tr0.t)

    def entry_for(I, st):
        W = holder["W"]
        ev, ws = W.ev_seq(st), W.ws_seq(st)
        return [("both queues are taken over (emptied) before the first callback of the round",
                 z3.And(z3.Length(ev) == 0, z3.Length(ws) == 0) if ev is not None and ws is not None else z3.BoolVal(False))]

    def exit_for(I, st):
        ts = st.ghost.get("trace_seq")
        rw = st.ghost.get("round_ws")
        if ts is None or rw is None:
            return [("round bookkeeping", z3.BoolVal(False))]
        return [("every watcher queued for the round ran exactly once, in precedence order", ts == sorted_prec(rw))]

    def havoc_for(I, st):
        W = holder["W"]
        U = I.U
        st.ghost["trace_seq"] = U.fresh_seq("trace")
        st.ghost["exec"] = []
        ev, ws = W.get(st, "events"), W.get(st, "watchers")
        for r_, nm in ((ev, "it_events"), (ws, "it_watchers")):
            if isinstance(r_, Ref):
                st.heap[r_.oid].seq = U.fresh_seq(nm)
                st.heap[r_.oid].fields.pop("$items", None)

    def post(I, info, st, oc):
        U = I.U
        W = info["W"]
        out = []
        how = "raise" if isinstance(oc, Raise) else "return"
        out.append(("exit/BATCH_WATCH-restored[%s]" % how, W.bw(st) == W.bw0.t))
        out.append(("exit/TRIGGER-untouched[%s]" % how, W.tr(st) == W.tr0.t))
        if not isinstance(oc, Raise):
            ev = W.ev_seq(st)
            out.append(("normal exit => no event left queued", z3.Length(ev) == 0 if ev is not None else z3.BoolVal(False)))
        for i, (w, bw, evq, wsq) in enumerate(st.ghost.get("exec", [])[:2]):
            # at the time of the first call of a round, the queues had been taken over
            pass
        if isinstance(oc, Raise):
            out.append(("only a watcher's exception escapes", z3.BoolVal(oc.cls == "$User")))
        return out
    loops = {
        ("Parameters._batch_call_watchers", "self_._events"): LoopSpec("self_._events", inv=inv_while, heap=havoc_while, name="drain-rounds"),
        ("Parameters._batch_call_watchers", "watchers"): LoopSpec("watchers", inv=inv_for, heap=havoc_for, entry_oblig=entry_for, exit_oblig=exit_for,
                                                                  name="each-queued-watcher-once-in-precedence-order"),
    }
    c = FunctionContract("param.parameterized:Parameters._batch_call_watchers", PROP, setup, post, loops=loops,
                         configure=configure, name="Parameters._batch_call_watchers[flush]")
    return c


_c04_base = contracts


def contracts():
    return _c04_base() + [flush_contract()]
