"""C04 — batched dispatch defers, coalesces and delivers once on outermost exit.

Deductive part so far: the three batching managers (body runs with the flag set, flush iff the
saved flag was False, i.e. only at the outermost exit; discard_events restores exactly the
queues it found), `update(...)` as a context manager (restorer exit), and `Parameters._update`
(all keys applied inside the batch, flag restored, flush iff outermost).  The flush loop
itself and `trigger` are covered by the bounded layer only (see level note)."""
from contracts import c05 as _c05

PROP = "C04"


def contracts():
    from contracts import c03 as _c03
    return [c for c in _c05.contracts() if c.name != "as_uninitialized.override_initialization"] + [_c03.call_watcher_contract()]


ASSUMPTIONS = _c05.ASSUMPTIONS
