"""C05 — failures never corrupt the dispatch state (and the manager halves of C04).

Contract shape: exceptional postconditions = the representation invariant restored on every
raising path.  The real generator bodies of the context managers are executed by protocol
(enter segment — arbitrary body that may raise — exit segment, DESIGN.md §3.5) around a body
that is a havoc under the rely; obligations on BOTH the normal and the exceptional exit:

    batch_call_watchers(o)            body runs with BATCH_WATCH True; on exit BATCH_WATCH is the
                                      entry value; the flush runs iff the entry value was False
                                      (nested contexts flush only at the outermost exit)
    _batch_call_watchers(o, en, run)  body runs with BATCH_WATCH = en or entry; exit restores;
                                      flush iff run and entry value False
    discard_events(o)                 body runs with BATCH_WATCH True; exit restores the flag and
                                      sets both queues to the copies taken at entry
    as_uninitialized wrapper          `initialized` is restored on both exits
    _ParametersRestorer.__exit__      calls _update(restore ∪ refs) once; forgets `restore` on both exits
"""
import ast

import z3

from contracts import dispatch_model as dm
from pyvc import spec as S
from pyvc import values as vm
from pyvc.engine import OutOfReach, Raise
from pyvc.values import BoolV, ClsV, Conc, FuncV, Ref, Sym, TupV
from pyvc.verify import FunctionContract

PROP = "C05"
MOD = "param.parameterized"


def outcomes(results):
    out = []
    for (q, oc) in results:
        if oc is None:
            out.append((q, Conc(None)))
        elif oc[0] == "raise":
            out.append((q, oc[1]))
        elif oc[0] == "return":
            out.append((q, oc[1]))
        else:
            raise OutOfReach("break/continue escaped harness")
    return out


def manager_contract(fname, call_src, extra_args=(), post_extra=None, name=None):
    def setup(I, st):
        W = dm.World(I, st)
        dm.install_flush_contract(I, W)
        body = dm.install_body(I, W)
        info = {"W": W, "symbols": {"BATCH_WATCH0": W.bw0.t}}
        env = {"o": W.obj, "__BODY__": body}
        for a in extra_args:
            v = Sym(I.U.fresh(a))
            st.pc.append(S.is_bool(I, v.t))
            env[a] = v
            info[a] = v
        info["env"] = env
        return info

    def runner(I, st, info, ctx):
        stmt = dm.with_stmt(call_src)
        module = I.src.modules[MOD]
        st.env = dict(info["env"])
        c = dict(ctx)
        c["module"] = module
        c["qual"] = "<harness>"
        return outcomes(I.exec_stmt(stmt, st, c))

    def post(I, info, st, oc):
        U = I.U
        W = info["W"]
        out = []
        bw0 = W.bw0.t
        out.append(("body-runs-exactly-once", z3.BoolVal(st.ghost.get("body_runs", 0) == 1)))
        out.append(("exit/BATCH_WATCH-restored", W.bw(st) == bw0))
        out.append(("exit/TRIGGER-untouched", W.tr(st) == W.tr0.t))
        if post_extra:
            out += post_extra(I, info, st, oc)
        # an exception of the body is never swallowed
        raised_in_body = st.ghost.get("$body_raised")
        return out
    c = FunctionContract("%s:%s" % (MOD, fname), PROP, setup, post, name=name or fname)
    c.runner = runner
    return c


def post_batch(I, info, st, oc):
    U = I.U
    W = info["W"]
    bw0 = W.bw0.t
    inbody = st.ghost.get("bw_in_body", [])
    fl = st.ghost.get("flushes", [])
    out = [("body-sees-BATCH_WATCH-True", inbody[0] == U.TRUE if inbody else z3.BoolVal(False)),
           ("flush-iff-outermost", z3.And(z3.Implies(bw0 == U.FALSE, z3.BoolVal(len(fl) == 1)),
                                          z3.Implies(bw0 == U.TRUE, z3.BoolVal(len(fl) == 0))))]
    if fl:
        out.append(("flush-runs-with-restored-flag", fl[0][0] == bw0))
    if len(fl) == 0:
        # still deferred inside a surrounding batch: nothing queued before or inside is lost
        ev = W.ev_seq(st)
        out.append(("nested/queued-events-kept", z3.PrefixOf(W.ev_seq0, ev) if ev is not None else z3.BoolVal(False)))
    if isinstance(oc, Raise):
        out.append(("exception-propagates", z3.BoolVal(oc.cls == "$User")))
    return out


def post_batch2(I, info, st, oc):
    U = I.U
    W = info["W"]
    bw0 = W.bw0.t
    en, run = info["enable"].t, info["run"].t
    inbody = st.ghost.get("bw_in_body", [])
    fl = st.ghost.get("flushes", [])
    want_in = z3.If(z3.Or(en == U.TRUE, bw0 == U.TRUE), U.TRUE, U.FALSE)
    flush_wanted = z3.And(run == U.TRUE, bw0 == U.FALSE)
    out = [("body-sees-BATCH_WATCH=enable-or-entry", inbody[0] == want_in if inbody else z3.BoolVal(False)),
           ("flush-iff-run-and-outermost", z3.And(z3.Implies(flush_wanted, z3.BoolVal(len(fl) == 1)),
                                                  z3.Implies(z3.Not(flush_wanted), z3.BoolVal(len(fl) == 0))))]
    if fl:
        out.append(("flush-runs-with-restored-flag", fl[0][0] == bw0))
    if isinstance(oc, Raise):
        out.append(("exception-propagates", z3.BoolVal(oc.cls == "$User")))
    return out


def post_discard(I, info, st, oc):
    U = I.U
    W = info["W"]
    inbody = st.ghost.get("bw_in_body", [])
    fl = st.ghost.get("flushes", [])
    ev, ws = W.ev_seq(st), W.ws_seq(st)
    out = [("body-sees-BATCH_WATCH-True", inbody[0] == U.TRUE if inbody else z3.BoolVal(False)),
           ("no-flush", z3.BoolVal(len(fl) == 0)),
           ("exit/events-are-exactly-those-queued-before", ev == W.ev_seq0 if ev is not None else z3.BoolVal(False)),
           ("exit/watchers-are-exactly-those-queued-before", ws == W.ws_seq0 if ws is not None else z3.BoolVal(False))]
    if isinstance(oc, Raise):
        out.append(("exception-propagates", z3.BoolVal(oc.cls == "$User")))
    return out


def as_uninitialized_contract():
    def setup(I, st):
        W = dm.World(I, st)
        body = dm.install_body(I, W, grows=False)
        return {"W": W, "body": body, "symbols": {"initialized0": W.init0.t}}

    def runner(I, st, info, ctx):
        W = info["W"]
        loc = I.src.locate("%s:as_uninitialized.override_initialization" % MOD)
        if loc is None:
            raise OutOfReach("as_uninitialized.override_initialization not found")
        module, _, fd = loc

        def fn(I, st2, fv, args, kwargs, c):
            st2.ghost["init_in_body"] = st2.ghost.get("init_in_body", []) + [W.initialized(st2)]
            return I.lib["__BODY__"](I, st2, fv, args, kwargs, c)
        I.lib["__FN__"] = fn
        f = FuncV("lambda", node=fd, env={"fn": FuncV("builtin", name="__FN__", self=None)},
                  ctx=I.child_ctx(ctx, module, None, None, "as_uninitialized.override_initialization", fd),
                  name="override_initialization")
        return I.call(f, [W.param], {}, st, ctx)

    def post(I, info, st, oc):
        U = I.U
        W = info["W"]
        seen = st.ghost.get("init_in_body", [])
        out = [("wrapped-function-called-once", z3.BoolVal(len(seen) == 1)),
               ("wrapped-function-sees-initialized-False", seen[0] == U.FALSE if seen else z3.BoolVal(False)),
               ("exit/initialized-restored[%s]" % ("raise" if isinstance(oc, Raise) else "return"),
                W.initialized(st) == W.init0.t)]
        return out
    c = FunctionContract("%s:as_uninitialized.override_initialization" % MOD, "C14", setup, post,
                         name="as_uninitialized.override_initialization")
    c.runner = runner
    from contracts.c14 import AS_UNINIT_REPLAY
    c.static_replay = AS_UNINIT_REPLAY
    c.static_witness = "wrapped constructor step raises; error swallowed by subclass __init__"
    return c


def restorer_exit_contract():
    def configure(I):
        def upd(I, st, fv, args, kwargs, ctx):
            st.ghost["update_calls"] = st.ghost.get("update_calls", []) + [args[0] if args else None]
            q = st.fork()
            return [(st, Conc(None)), (q, Raise("$User", origin="_update"))]
        I.contracts["Parameters._update"] = upd

    def setup(I, st):
        self = I.alloc_obj(st, "_ParametersRestorer", lazy=False, label="restorer")
        params = I.alloc_obj(st, "Parameters", lazy=True, label="parameters")
        restore = I.alloc_dict(st)
        refs = I.alloc_dict(st)
        a, b = Sym(I.U.fresh("old_a")), Sym(I.U.fresh("ref_b"))
        I.dict_store(st, restore, Conc("a"), a)
        I.dict_store(st, refs, Conc("b"), b)
        h = st.heap[self.oid]
        h.fields.update({"_parameters": params, "_restore": restore, "_refs": refs})
        fv = I.bound_method(self, I.src.find_method("_ParametersRestorer", "__exit__"))
        return fv, [Conc(None), Conc(None), Conc(None)], {}, {"self": self, "a": a, "b": b, "symbols": {}}

    def post(I, info, st, oc):
        calls = st.ghost.get("update_calls", [])
        out = [("_update-called-once", z3.BoolVal(len(calls) == 1))]
        if len(calls) == 1 and isinstance(calls[0], Ref):
            d = I.known_dict(st, calls[0])
            ok = d is not None and list(d) == ["a", "b"] and d["a"] is info["a"] and d["b"] is info["b"]
            out.append(("_update-gets-restore-values-and-saved-refs", z3.BoolVal(bool(ok))))
        r = st.heap[info["self"].oid].fields.get("_restore")
        d2 = I.known_dict(st, r) if isinstance(r, Ref) else None
        out.append(("exit/_restore-forgotten[%s]" % ("raise" if isinstance(oc, Raise) else "return"),
                    z3.BoolVal(d2 is not None and len(d2) == 0)))
        if isinstance(oc, Raise):
            out.append(("exception-propagates", z3.BoolVal(oc.cls == "$User")))
        return out
    return FunctionContract("%s:_ParametersRestorer.__exit__" % MOD, "C04", setup, post, configure=configure,
                            name="_ParametersRestorer.__exit__")


def _dispatch_extras():
    """exceptional halves of trigger / flush / _call_watcher (defined with C03/C04)"""
    import sys
    if getattr(sys.modules.get("contracts.c04"), "_building", False):
        return []
    from contracts import c03 as _c03
    from contracts import c04 as _c04
    return [_c04.trigger_contract(), _c04.flush_contract(), _c03.call_watcher_contract()]


def contracts():
    return [
        manager_contract("batch_call_watchers", "batch_call_watchers(o)", post_extra=post_batch),
        manager_contract("_batch_call_watchers", "_batch_call_watchers(o, enable, run)", extra_args=("enable", "run"),
                         post_extra=post_batch2),
        manager_contract("discard_events", "discard_events(o)", post_extra=post_discard),
        as_uninitialized_contract(),
        restorer_exit_contract(),
        update_contract(),
    ] + _dispatch_extras()


ASSUMPTIONS = [
    "A-API (rely): user code run inside a with-body / callback leaves BATCH_WATCH and TRIGGER as it found them and only appends to the queues while a batch is open; it may raise",
    "A-CTX: contextlib.contextmanager protocol",
]


# ======================================================================================
# Parameters._update / Parameters.trigger — exceptional and normal postconditions
# ======================================================================================
is_param = z3.Function("is_param", vm.V, z3.BoolSort())
param_of = z3.Function("param_of", vm.V, vm.V)


def install_namespace_contracts(I, W):
    """Callee contracts of the `.param` namespace as used by _update/trigger (each of these
    functions belongs to C13's contracts; here only their pure lookup behaviour is needed)."""
    def contains(I, st, fv, args, kwargs, ctx):
        return [(st, BoolV(is_param(I.term(args[0]))))]
    I.contracts["Parameters.__contains__"] = contains

    def getitem(I, st, fv, args, kwargs, ctx):
        k = I.term(args[0])
        out = []
        for (q, b) in I.branch(st, is_param(k)):
            if b:
                p = param_of(k)
                I.U.well_typed(p)
                I.U.axioms.append(vm.ty(p) == vm.TAG["Parameter"])
                out.append((q, Sym(p)))
            else:
                out.append((q, Raise("KeyError")))
        return out
    I.contracts["Parameters.__getitem__"] = getitem

    def values(I, st, fv, args, kwargs, ctx):
        r = I.alloc_dict(st, keys=I.U.fresh_seq("valuekeys"), vals=z3.Const("valuevals!%d" % I.new_oid(), z3.ArraySort(vm.V, vm.V)))
        return [(st, r)]
    I.contracts["Parameters.values"] = values

    def iter_(I, st, fv, args, kwargs, ctx):
        r = I.alloc_list(st, I.U.fresh_seq("paramnames"))
        return [(st, r)]
    I.contracts["Parameters.__iter__"] = iter_


def install_descriptor_set(I, W):
    """`setattr(self_or_cls, name, value)` with a symbolic name = the descriptor protocol
    (Parameter.__set__ and its wrappers, contract of C01–C03): no value other than the named
    parameter changes; BATCH_WATCH / TRIGGER are left as found; while a batch is open no watcher
    runs and the queues only grow; it may reject the value (ValueError/TypeError) or — when no
    batch is open — a watcher may raise."""
    def setattr_sym(I, st, x, n, v, ctx):
        U = I.U
        st.ghost["sets"] = st.ghost.get("sets", []) + [(I.term(n), I.term(v), W.bw(st))]
        q1 = st.fork()   # rejected
        q2 = st.fork()   # another rejection class
        ev, ws = W.get(st, "events"), W.get(st, "watchers")
        if isinstance(ev, Ref) and isinstance(ws, Ref):
            he, hw = st.heap[ev.oid], st.heap[ws.oid]
            bw = W.bw(st) == U.TRUE
            he.seq = z3.If(bw, z3.Concat(he.seq, U.fresh_seq("set_events")), he.seq)
            hw.seq = z3.If(bw, z3.Concat(hw.seq, U.fresh_seq("set_watchers")), hw.seq)
            he.fields.pop("$items", None)
            hw.fields.pop("$items", None)
        q3 = st.fork()   # a watcher raised after the store (only possible when no batch is open)
        q3.pc.append(W.bw(q3) == U.FALSE)
        return [(st, Conc(None)), (q1, Raise("ValueError", origin="setattr")), (q2, Raise("TypeError", origin="setattr")),
                (q3, Raise("$User", origin="setattr"))]
    I.lib["$setattr_symbolic"] = setattr_sym


def havoc_queues(W):
    def h(I, st):
        ev, ws = W.get(st, "events"), W.get(st, "watchers")
        if isinstance(ev, Ref):
            st.heap[ev.oid].seq = I.U.fresh_seq("loop_events")
            st.heap[ev.oid].fields.pop("$items", None)
        if isinstance(ws, Ref):
            st.heap[ws.oid].seq = I.U.fresh_seq("loop_watchers")
            st.heap[ws.oid].fields.pop("$items", None)
        for k in list(st.ghost):
            if k.startswith("F_"):
                st.ghost[k] = z3.Const("%s!%d" % (k, I.new_oid()), z3.ArraySort(vm.V, vm.V))
    return h


UPDATE_REPLAY = '''import sys, os
sys.path.insert(0, os.environ.get('PYVC_REPO', '/repo'))
import param
class P(param.Parameterized):
    a = param.Number(0)
    b = param.Number(0, bounds=(0, 1))
    c = param.Number(0)
bad = []
# (1) inside a surrounding batch: the flag must stay True after the failing update
p = P(); log = []
p.param.watch(lambda *es: log.extend((e.name, e.new) for e in es), ['a', 'c'])
with param.parameterized.batch_call_watchers(p):
    try:
        p.param.update(a=1, b=5)
    except ValueError:
        pass
    inside = p.param._BATCH_WATCH
    p.c = 3
    ran_inside = list(log)
print('inside surrounding batch: BATCH_WATCH after failing update =', inside, '; watcher calls before batch exit =', ran_inside)
if inside is not True or ran_inside:
    bad.append('BATCH_WATCH not restored inside the surrounding batch')
# (2) outside a batch: the change applied before the rejected key is announced by the time the call raises
p = P(); log = []
p.param.watch(lambda *es: log.extend((e.name, e.new) for e in es), ['a', 'c'])
try:
    p.param.update(a=1, b=5)
except ValueError:
    pass
print('outside a batch: p.a =', p.a, '; announced when update() has raised:', log)
if p.a == 1 and ('a', 1) not in log:
    bad.append('applied change not announced when update() raised')
if bad:
    print('REPRODUCED: C05 ' + '; '.join(bad)); sys.exit(1)
print('NOT-REPRODUCED'); sys.exit(0)
'''


def update_contract():
    from pyvc.loops import LoopSpec
    holder = {}

    def configure(I):
        I.sym_fields = {"_mode", "_autotrigger_reset_value", "_autotrigger_value"}

    def setup(I, st):
        U = I.U
        W = dm.World(I, st)
        holder["W"] = W
        dm.install_flush_contract(I, W)
        install_namespace_contracts(I, W)
        install_descriptor_set(I, W)
        arg = I.alloc_dict(st, keys=U.fresh_seq("argkeys"), vals=z3.Const("argvals", z3.ArraySort(vm.V, vm.V)))
        fv = I.bound_method(W.param, I.src.find_method("Parameters", "_update"))
        return fv, [arg], {}, {"W": W, "symbols": {"BATCH_WATCH0": W.bw0.t}}

    def inv_main(I, st, pre):
        W = holder["W"]
        ev = W.ev_seq(st)
        return z3.And(W.bw(st) == I.U.TRUE, W.tr(st) == W.tr0.t,
                      z3.PrefixOf(W.ev_seq0, ev) if ev is not None else z3.BoolVal(False))

    def inv_modes(I, st, pre):
        W = holder["W"]
        return z3.And(W.bw(st) == I.U.TRUE, W.tr(st) == W.tr0.t, W.ev_seq(st) == W.ev_seq0)

    def inv_reset(I, st, pre):
        W = holder["W"]
        return z3.And(W.bw(st) == W.bw0.t, W.tr(st) == W.tr0.t)

    def havoc_modes(I, st):
        for k in list(st.ghost):
            if k.startswith("F_"):
                st.ghost[k] = z3.Const("%s!%d" % (k, I.new_oid()), z3.ArraySort(vm.V, vm.V))

    def post(I, info, st, oc):
        U = I.U
        W = info["W"]
        bw0 = W.bw0.t
        fl = st.ghost.get("flushes", [])
        out = []
        how = "raise" if isinstance(oc, Raise) else "return"
        out.append(("exit/BATCH_WATCH-restored[%s]" % how, W.bw(st) == bw0))
        out.append(("exit/TRIGGER-untouched[%s]" % how, W.tr(st) == W.tr0.t))
        flushed = len(fl) >= 1
        if isinstance(oc, Raise) and oc.origin == "flush":
            return out
        # changes applied before the failure are announced by the time the call raises, unless a
        # surrounding batch is still open (then they stay deferred)
        out.append(("exit/outermost=>flushed[%s]" % how, z3.Implies(bw0 == U.FALSE, z3.BoolVal(flushed))))
        out.append(("exit/nested=>not-flushed[%s]" % how, z3.Implies(bw0 == U.TRUE, z3.BoolVal(not flushed))))
        if not flushed:
            ev = W.ev_seq(st)
            out.append(("exit/nested=>queued-events-kept[%s]" % how,
                        z3.Implies(bw0 == U.TRUE, z3.PrefixOf(W.ev_seq0, ev) if ev is not None else z3.BoolVal(False))))
        return out
    loops = {
        ("Parameters._update", "kwargs.items()"): LoopSpec("kwargs.items()", inv=inv_main, heap=havoc_queues(holder), name="apply-keys"),
    }

    class _Lazy(dict):
        pass
    c = FunctionContract("%s:Parameters._update" % MOD, PROP, setup, post, configure=configure, name="Parameters._update")
    c.static_witness = "update(a=<valid>, b=<rejected>) inside / outside an open batch"
    c.static_replay = UPDATE_REPLAY
    # loop specs need the world: built lazily through `holder`
    c.loops = {
        ("Parameters._update", "kwargs.items()"): LoopSpec("kwargs.items()", inv=inv_main,
                                                            heap=lambda I, st: havoc_queues(holder["W"])(I, st), name="apply-keys"),
        ("Parameters._update", "trigger_params"): LoopSpec("trigger_params", inv=None, heap=havoc_modes, name="event-modes"),
    }
    return c


# ======================================================================================
# Event.__set__ — the event is reset on EVERY exit (a watcher or a validator raising whatever exception)
# ======================================================================================
EVENT_REPLAY = '''import sys, os, itertools
sys.path.insert(0, os.environ.get('PYVC_REPO', '/repo'))
import param
bad = []
class Custom(Exception):
    pass
for exc, where in itertools.product((ValueError, TypeError, RuntimeError, KeyError, Custom, ZeroDivisionError), ('instance', 'class')):
    class P(param.Parameterized):
        e = param.Event()
        n = param.Number(0)
    seen = []
    def boom(ev, exc=exc):
        seen.append(ev.new)
        raise exc('watcher failure')
    target = P() if where == 'instance' else P
    target.param.watch(boom, 'e')
    try:
        target.e = True
    except exc:
        pass
    except Exception as ex:
        bad.append('%s watcher on %s: the assignment raised %r' % (exc.__name__, where, ex)); continue
    else:
        bad.append('%s watcher on %s: the failure was swallowed' % (exc.__name__, where)); continue
    if target.e is not False:
        bad.append('a watcher raising %s while the Event of the %s was True: the Event stays %r' % (exc.__name__, where, target.e))
    del seen[:]
    try:
        target.e = True
    except exc:
        pass
    if seen != [True]:
        bad.append('after a watcher raised %s (%s): the next e = True reached the watcher %r times' % (exc.__name__, where, len(seen)))
# a refused value leaves the Event False as well
class Q(param.Parameterized):
    e = param.Event()
q = Q()
try:
    q.e = 'not a bool'
except ValueError:
    pass
if q.e is not False:
    bad.append('a refused value left the Event %r' % (q.e,))
if bad:
    print('REPRODUCED: ' + bad[0]); sys.exit(1)
print('NOT-REPRODUCED'); sys.exit(0)
'''


def event_set_contract(mode):
    """`Event.__set__(obj, val)` in mode 'set-reset' | 'set' | 'reset': the inherited setter runs in the
    setting modes; the reset runs exactly once in the resetting modes — on the normal exit AND whatever
    exception the inherited setter (validation, a watcher) raises, which then propagates."""
    EXC = ("ValueError", "TypeError", "RuntimeError", "KeyError")

    def configure(I):
        def base_set(I, st, fv, args, kwargs, ctx):
            st.ghost["order"] = st.ghost.get("order", []) + ["set"]
            out = [(st, Conc(None))]
            for e in EXC:
                out.append((st.fork(), Raise(e, origin="Parameter.__set__")))
            return out
        I.contracts["Parameter.__set__"] = base_set
        I.contracts["Boolean.__set__"] = base_set

        def reset(I, st, fv, args, kwargs, ctx):
            st.ghost["order"] = st.ghost.get("order", []) + ["reset"]
            return [(st, Conc(None))]
        I.contracts["Event._reset_event"] = reset
        I.lib["deco:instance_descriptor"] = lambda I, st, fv, args, kwargs, ctx: None

    def setup(I, st):
        self, T = S.param_obj(I, st, "Event", {}, label="self")
        st.heap[self.oid].fields["_mode"] = Conc(mode)
        obj, val = Sym(I.U.fresh("obj")), Sym(I.U.fresh("val"))
        fv = I.bound_method(self, I.src.find_method("Event", "__set__"))
        return fv, [obj, val], {}, {"symbols": {}}

    def post(I, info, st, oc):
        order = st.ghost.get("order", [])
        want_set = mode in ("set-reset", "set")
        want_reset = mode in ("set-reset", "reset")
        out = [("the inherited setter runs %s in mode %r" % ("once" if want_set else "never", mode), z3.BoolVal(order.count("set") == (1 if want_set else 0))),
               ("the event is reset %s on this exit (mode %r)" % ("exactly once, after the setter" if want_reset else "never", mode),
                z3.BoolVal(order.count("reset") == (1 if want_reset else 0) and (not want_reset or order[-1] == "reset")))]
        if isinstance(oc, Raise):
            out.append(("an exception comes from the inherited setter and propagates unchanged", z3.BoolVal(oc.origin == "Parameter.__set__" and oc.cls in EXC)))
        return out
    c = FunctionContract("param.parameters:Event.__set__", PROP, setup, post, configure=configure, name="Event.__set__[%s]" % mode)
    c.static_replay = EVENT_REPLAY
    c.static_witness = "a watcher of the Event raising ValueError / TypeError / other exceptions while the Event is True"
    return c


_c05_base_event = contracts


def contracts():
    return _c05_base_event() + [event_set_contract(m) for m in ("set-reset", "set", "reset")]


# ---------------------------------------------------------------------------------------------
# concrete probe: operations that are refused up front (unknown names, bad arguments) inside a batch cost
# nothing that is queued
# ---------------------------------------------------------------------------------------------
REFUSED_IN_BATCH_REPLAY = '''import sys, os, itertools
sys.path.insert(0, os.environ.get('PYVC_REPO', '/repo'))
import param
bad = []
def make():
    # a fresh class per case: class-level watchers live in the Parameter objects of the class
    class P(param.Parameterized):
        a = param.Number(0)
        b = param.Number(0, bounds=(0, 10))
        e = param.Event()
    return P
REFUSED = {
    "trigger('unknown')": lambda o: o.param.trigger('unknown'),
    "trigger('a', 'unknown')": lambda o: o.param.trigger('a', 'unknown'),
    "update(unknown=1)": lambda o: o.param.update(unknown=1),
    "update(b=99)": lambda o: o.param.update(b=99),
    "update(5)": lambda o: o.param.update(5),
    "o.b = 99": lambda o: setattr(o, 'b', 99),
    "watch(cb, 'unknown')": lambda o: o.param.watch(lambda ev: None, 'unknown'),
}
for (label, op), ctx, level in itertools.product(REFUSED.items(), ('batch', 'update-context', 'nested'), ('instance', 'class')):
    PP = type('PP', (make(),), {})
    o = PP() if level == 'instance' else PP
    calls = []
    o.param.watch(lambda ev, calls=calls: calls.append((ev.name, ev.new)), ['a', 'e'])
    def body():
        o.a = 1
        try:
            op(o)
        except Exception:
            pass
        else:
            bad.append('%s (%s, %s level) was not refused' % (label, ctx, level))
        if calls:
            bad.append('%s inside an open %s (%s level): the queued change was announced before the batch ended: %r' % (label, ctx, level, calls))
        o.a = 1.5; o.a = 1                 # the batch is still open: later changes wait for its end as well
        if calls:
            bad.append('after %s was refused inside an open %s (%s level) the batch no longer holds changes back: %r' % (label, ctx, level, calls))
    if ctx == 'batch':
        with param.parameterized.batch_call_watchers(o):
            body()
    elif ctx == 'update-context':
        with o.param.update(e=False):
            with param.parameterized.batch_call_watchers(o):
                body()
    else:
        with param.parameterized.batch_call_watchers(o):
            with param.parameterized.batch_call_watchers(o):
                body()
    got = [c for c in calls if c[0] == 'a']
    if got != [('a', 1)]:
        bad.append('%s refused inside an open %s (%s level): the change a = 1 made before it reached its watcher %d times (%r)'
                   % (label, ctx, level, len(got), calls))
    del calls[:]
    o.a = 2
    if calls != [('a', 2)]:
        bad.append('%s refused inside an open %s (%s level): afterwards a = 2 gave the watcher %r' % (label, ctx, level, calls))
if bad:
    print('REPRODUCED: ' + bad[0]); sys.exit(1)
print('NOT-REPRODUCED'); sys.exit(0)
'''

PROBES = [("an operation refused up front inside a batch costs nothing that is queued", REFUSED_IN_BATCH_REPLAY)]


# a value that arrives through a reference is delivered inside edit_constant and _syncing, both of which
# undo themselves on every exit (own contracts): a delivery that is refused, or whose watcher raises, leaves
# constants locked and nothing marked as being synced (`_sync_refs` is verified for C08)
_c05_base_sync = contracts


def contracts():
    from contracts import c08 as _c08
    c = _c08.sync_refs_contract(2)
    c.prop = PROP
    return _c05_base_sync() + [c]


# ---------------------------------------------------------------------------------------------
# concrete probe: an update that fails — at any position among its keys — leaves every Event of the
# call switched off and self-resetting
# ---------------------------------------------------------------------------------------------
EVENT_AFTER_FAILED_UPDATE_REPLAY = '''import sys, os, itertools
sys.path.insert(0, os.environ.get('PYVC_REPO', '/repo'))
import param
bad = []
class P(param.Parameterized):
    x = param.Number(default=0, bounds=(0, 1))
    ev = param.Event()
    ev2 = param.Event()
BADS = {'refused value': ('x', 5), 'unknown name': ('nosuch', 1), 'refused event value': ('ev2', 'no')}
for (why, (bk, bv)), pos, ctx in itertools.product(BADS.items(), (0, 1, 2), ('plain', 'batch', 'watcher raises')):
    items = [('ev', True), ('ev2', True)] if bk != 'ev2' else [('ev', True), ('x', 1)]
    items.insert(pos, (bk, bv))
    p = P()
    calls = []
    if ctx == 'watcher raises':
        items = [kv for kv in items if kv[0] != bk]
        def boom(*e): raise RuntimeError('watcher')
        p.param.watch(boom, ['ev'], precedence=5)
    p.param.watch(lambda *e: calls.append([x.name for x in e]), ['ev', 'ev2'], precedence=1)
    try:
        if ctx == 'batch':
            with param.parameterized.batch_call_watchers(p):
                p.param.update(dict(items))
        else:
            p.param.update(dict(items))
        failed = False
    except Exception:
        failed = True
    label = 'update(%s) [%s%s]' % (', '.join('%s=%r' % kv for kv in items), why if ctx != 'watcher raises' else 'a watcher raises', ', inside a batch' if ctx == 'batch' else '')
    if not failed:
        bad.append(label + ': did not fail'); continue
    for name in ('ev', 'ev2'):
        if getattr(p, name) is not False:
            bad.append('%s: afterwards %s is %r' % (label, name, getattr(p, name)))
        if p.param[name]._mode != 'set-reset':
            bad.append('%s: afterwards %s is no longer self-resetting (_mode == %r)' % (label, name, p.param[name]._mode))
    del calls[:]
    if ctx == 'watcher raises':
        continue
    p.ev2 = True; p.ev2 = True
    if len(calls) != 2 or p.ev2 is not False:
        bad.append('%s: afterwards two triggers of ev2 run its watcher %d time(s), ev2 == %r' % (label, len(calls), p.ev2))
if bad:
    print('REPRODUCED: ' + bad[0]); sys.exit(1)
print('NOT-REPRODUCED'); sys.exit(0)
'''

PROBES = PROBES + [("after an update that fails at any of its keys every Event of the call is off and self-resetting", EVENT_AFTER_FAILED_UPDATE_REPLAY)]
