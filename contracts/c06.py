"""C06 — `depends(watch=True)` methods run exactly once per change of a dependency.

Deductive part: the class-level dependency table built by the metaclass — the block

    _inherited = []
    for cls in classlist(mcs)[:-1][::-1]:
        …
        for dep in cls.param._depends['watch']:
            …
    mcs.param._depends = {'watch': _inherited+_watch}

of `ParameterizedMetaclass.__init__`, executed over an ARBITRARY class list, ARBITRARY inherited
tables and an ARBITRARY own table `_watch` (all of unbounded length), for an arbitrary method name N:

  * never duplicates: the table handed to instances holds at most one entry named N (an own entry
    replaces every inherited one);
  * an undecorated override is not registered: every inherited entry names a method that, as the
    class actually inherits it, is decorated with a truthy `watch`;
  * never lost: if some class of the list registers N, the method the class inherits is decorated
    with `watch`, and the class does not declare N itself, the table holds an entry named N;
  * the dependencies recorded for an inherited entry are resolved from the method the class actually
    inherits (`getattr(mcs, name)`), not from the ancestor's entry;
  * the table stored is `_inherited + _watch`.

Instance-time installation (`_update_deps`, `_watch_group`), dependency resolution, the function form
and the exactly-once dispatch: bounded layer only.
"""
import ast as _ast

import z3

from pyvc import spec as S
from pyvc import values as vm
from pyvc.engine import OutOfReach, Raise
from pyvc.loops import LoopSpec
from pyvc.objects import sym_field
from pyvc.values import BoolV, ClsV, Conc, FuncV, Ref, Sym, TupV
from pyvc.verify import FunctionContract

PROP = "C06"
MOD = "param.parameterized"
QUAL = "ParameterizedMetaclass.__init__"

TABLE_REPLAY = '''import sys, os, itertools
sys.path.insert(0, os.environ.get('PYVC_REPO', '/repo'))
import param
bad = []
def make(shape, decos):
    """decos[i] in ('a', 'b', 'plain', None): how class i defines m (depends on a / on b / undecorated / not at all)"""
    calls = []
    def body(kind):
        if kind is None:
            return {}
        def m(self):
            calls.append(kind)
        if kind == 'plain':
            return {'m': m}
        return {'m': param.depends(kind, watch=True)(m)}
    A = type('A', (param.Parameterized,), dict(a=param.Number(0), b=param.Number(0), **body(decos[0])))
    if shape == 'chain':
        B = type('B', (A,), body(decos[1])); C = type('C', (B,), body(decos[2]))
    else:
        B = type('B', (A,), body(decos[1])); B2 = type('B2', (A,), {}); C = type('C', (B2, B), body(decos[2]))
    return C, calls
for shape in ('chain', 'diamond'):
    for decos in itertools.product(['a', 'b', 'plain', None], repeat=3):
        if decos[0] is None and decos[1] is None and decos[2] is None:
            continue
        C, calls = make(shape, decos)
        table = [d[0] for d in C.param._depends['watch']]
        eff = None
        for k in C.__mro__:
            if 'm' in k.__dict__:
                eff = getattr(k.__dict__['m'], '_dinfo', {}).get('dependencies', ('plain',))[0] if hasattr(k.__dict__['m'], '_dinfo') else 'plain'
                break
        if table.count('m') > 1:
            bad.append('%s %r: method registered %d times' % (shape, decos, table.count('m')))
        want = 1 if eff in ('a', 'b') else 0
        if table.count('m') != want and table.count('m') <= 1:
            bad.append('%s %r: method registered %d times, the class inherits a %s method' % (shape, decos, table.count('m'), eff))
        o = C()
        for pname in ('a', 'b'):
            del calls[:]
            setattr(o, pname, getattr(o, pname) + 1)
            want_calls = 1 if eff == pname else 0
            if len(calls) != want_calls:
                bad.append('%s %r: assigning %s invoked the method %d times, expected %d' % (shape, decos, pname, len(calls), want_calls))
if bad:
    print('REPRODUCED: C06 class-level dependency table (duplicates / lost or stale registrations):')
    for b in bad[:8]:
        print('  ', b)
    sys.exit(1)
print('NOT-REPRODUCED'); sys.exit(0)
'''


def inherited_table_contract():
    holder = {}
    attr2 = z3.Function("class_attribute", vm.V, vm.V, vm.V)        # getattr(mcs, name, None)
    dinfo_of = z3.Function("dinfo_of", vm.V, vm.V)                  # getattr(method, '_dinfo', {'watch': False})
    dget = z3.Function("dinfo_item", vm.V, vm.V, vm.V)              # dinfo[key] / dinfo.get(key[, default])
    table_of = z3.Function("watch_table", vm.V, vm.V)               # <…>._depends['watch']
    depsF = z3.Function("resolved_deps", vm.V, vm.V, vm.V)          # _params_depended_on(MInfo(mcs, name, method))[0]
    dynF = z3.Function("resolved_dynamic_deps", vm.V, vm.V, vm.V)

    def configure(I):
        from pyvc import builtins_lib as bl
        I.sym_fields = {"param", "_depends"}
        prev_getitem = I.lib.get("$getitem_value")

        def getitem_value(I, st, ov, kv, ctx):
            if isinstance(ov, Sym) and isinstance(kv, Conc) and isinstance(kv.py, str):
                t = I.term(ov)
                if z3.is_app(t) and t.decl().name() == "dinfo_of":
                    r = dget(t, I.U.lit(kv.py))
                else:
                    r = table_of(t)
                    I.U.axioms += [vm.ty(r) == vm.TAG["list"], vm.tlen(r) >= 0]
                I.U.well_typed(r)
                return [(st, Sym(r))]
            return prev_getitem(I, st, ov, kv, ctx) if prev_getitem else None
        I.lib["$getitem_value"] = getitem_value
        prev_vm = I.lib.get("$value_method")

        def vmethod(I, st, name, selfv, args, kwargs, ctx):
            if name == "get" and isinstance(selfv, Sym) and args and isinstance(args[0], Conc):
                r = dget(I.term(selfv), I.U.lit(args[0].py))
                I.U.well_typed(r)
                return [(st, Sym(r))]
            return prev_vm(I, st, name, selfv, args, kwargs, ctx) if prev_vm else None
        I.lib["$value_method"] = vmethod

        def h_getattr(I, st, fv, args, kwargs, ctx):
            if isinstance(args[1], Sym):                      # getattr(mcs, name, None)
                r = attr2(I.term(args[0]), args[1].t)
                I.U.well_typed(r)
                return [(st, Sym(r))]
            if isinstance(args[1], Conc) and args[1].py == "_dinfo" and isinstance(args[0], Sym):
                r = dinfo_of(args[0].t)
                I.U.well_typed(r)
                return [(st, Sym(r))]
            return bl.h_getattr(I, st, fv, args, kwargs, ctx)
        I.lib["getattr"] = h_getattr

        def getslice(I, st, ov, sl, ctx):
            if isinstance(ov, Sym):
                # a slice of a class list is some class list
                r = I.U.fresh("class_list")
                st.pc += [vm.ty(r) == vm.ty(I.term(ov)), vm.tlen(r) >= 0]
                I.U.well_typed(r)
                return [(st, Sym(r))]
            return None
        I.lib["$getslice"] = getslice

        def classlist(I, st, fv, args, kwargs, ctx):
            r = I.U.fresh("mro")
            st.pc += [vm.ty(r) == vm.TAG["tuple"], vm.tlen(r) >= 1]
            I.U.well_typed(r)
            return [(st, Sym(r))]
        I.contracts["classlist"] = classlist

        def minfo(I, st, fv, args, kwargs, ctx):
            return [(st, TupV([kwargs["inst"], kwargs["cls"], kwargs["name"], kwargs["method"]]))]
        I.lib["MInfo_record"] = minfo
        I.lib["global:MInfo"] = lambda I: FuncV("builtin", name="MInfo_record", self=None)

        def params_depended_on(I, st, fv, args, kwargs, ctx):
            mi = args[0]
            if not isinstance(mi, TupV):
                raise OutOfReach("_params_depended_on on a non-literal MInfo")
            nm, me = I.term(mi.items[2]), I.term(mi.items[3])
            st.ghost["resolved_for"] = st.ghost.get("resolved_for", []) + [(I.term(mi.items[1]), nm, me)]
            a, b = depsF(nm, me), dynF(nm, me)
            I.U.well_typed(a)
            I.U.well_typed(b)
            return [(st, TupV([Sym(a), Sym(b)]))]
        I.contracts["_params_depended_on"] = params_depended_on

    def eq(I, st, a, b):
        r = I.py_eq(st, Sym(a), Sym(b))
        return z3.BoolVal(r) if isinstance(r, bool) else r

    def wf(I, name_t):
        """the method of that name, as the class inherits it, is decorated with a truthy `watch`"""
        return vm.truthy(dget(dinfo_of(attr2(holder["mcs_t"], name_t)), I.U.lit("watch")))

    def nodup(I, st, seq):
        """at most one entry of seq is named N (recursive spec function, expanded along `++` / `[e]`)"""
        N = holder["N"]
        if z3.is_app(seq):
            kind = seq.decl().kind()
            if kind == z3.Z3_OP_SEQ_EMPTY:
                return z3.BoolVal(True)
            if kind == z3.Z3_OP_SEQ_UNIT:
                return z3.BoolVal(True)
            if kind == z3.Z3_OP_SEQ_CONCAT:
                parts = seq.children()
                conj = [nodup(I, st, c) for c in parts]
                hs = [I.has_item_eq(st, c, 0, Sym(N)) for c in parts]
                for a in range(len(parts)):
                    for b in range(a + 1, len(parts)):
                        conj.append(z3.Not(z3.And(hs[a], hs[b])))
                return z3.And(conj)
        return holder["nodupN"](seq)

    def setup(I, st):
        U = I.U
        mcs = I.alloc_obj(st, "ParameterizedMetaclass", lazy=True, label="mcs")
        mparam = I.alloc_obj(st, "Parameters", lazy=True, label="mcs.param")
        st.heap[mcs.oid].fields["param"] = mparam
        mcs_t = I.term(mcs)
        N = U.fresh("some_method_name")
        st.pc.append(vm.ty(N) == vm.TAG["str"])
        wseq = U.fresh_seq("_watch")
        watch = I.alloc_list(st, wseq)
        holder.update({"mcs_t": mcs_t, "N": N, "wseq": wseq, "nodupN": z3.Function("at_most_one_entry_named_N", vm.SeqV, z3.BoolSort())})
        # folds over the entries of a table
        holder["entries_ok"] = S.fold(I, "entries_are_5_tuples", lambda e: z3.And(vm.ty(e) == vm.TAG["tuple"], vm.tlen(e) == 5))
        holder["allwatch"] = S.fold(I, "inherited_entries_name_watch_methods", lambda e: wf(I, vm.titem(e, 0)))
        holder["depsok"] = S.fold(I, "deps_resolved_from_the_inherited_method", lambda e: z3.And(
            vm.titem(e, 3) == depsF(vm.titem(e, 0), attr2(mcs_t, vm.titem(e, 0))),
            vm.titem(e, 4) == dynF(vm.titem(e, 0), attr2(mcs_t, vm.titem(e, 0)))))
        holder["noN"] = S.fold(I, "no_entry_named_N", lambda d: z3.Not(eq(I, st, vm.titem(d, 0), N)))
        Fp, Fd = sym_field(I, st, "param"), sym_field(I, st, "_depends")
        holder["table_of_cls"] = lambda c: table_of(z3.Select(Fd, z3.Select(Fp, c)))
        from pyvc import builtins_lib as bl

        def cls_has_no_N(c):
            t = holder["table_of_cls"](c)
            f = bl.hasattr_fn("_param__parameters")
            return z3.Or(z3.Not(f(c)), holder["noN"].tfn(t, vm.tlen(t)))
        holder["nocls"] = S.fold(I, "no_class_registers_N", cls_has_no_N)
        # block precondition: the own table was built from the class dict (distinct keys)
        st.pc += [holder["entries_ok"].sfn(wseq), holder["nodupN"](wseq)]
        env = {"mcs": mcs, "_watch": watch}
        return {"env": env, "mcs": mcs, "mparam": mparam, "watch": watch, "symbols": {}}

    def runner(I, st, info, ctx):
        from contracts.c05 import outcomes
        module, cname, fd = I.src.locate("%s:%s" % (MOD, QUAL))
        a = [i for i, x in enumerate(fd.body) if _ast.unparse(x) == "_inherited = []"]
        b = [i for i, x in enumerate(fd.body) if isinstance(x, _ast.Assign) and _ast.unparse(x.targets[0]) == "mcs.param._depends"]
        if len(a) != 1 or len(b) != 1 or b[0] <= a[0]:
            raise OutOfReach("the inherited-table block was not found in ParameterizedMetaclass.__init__")
        holder["info"] = info
        st.env = dict(info["env"])
        c = dict(ctx)
        c.update({"module": module, "owner": cname, "qual": QUAL, "fnode": fd})
        return outcomes(I.exec_block(fd.body[a[0]: b[0] + 1], st, c))

    def inh_seq(st):
        r = st.env.get("_inherited")
        return st.heap[r.oid].seq if isinstance(r, Ref) else z3.Empty(vm.SeqV)

    def unfold_append(I, f, seq):
        if z3.is_app(seq) and seq.decl().kind() == z3.Z3_OP_SEQ_CONCAT and seq.num_args() >= 2:
            last = seq.arg(seq.num_args() - 1)
            if z3.is_app(last) and last.decl().kind() == z3.Z3_OP_SEQ_UNIT:
                rest = [seq.arg(i) for i in range(seq.num_args() - 1)]
                r = rest[0] if len(rest) == 1 else z3.Concat(*rest)
                I.U.axioms.append(f.sfn(seq) == z3.And(f.sfn(r), f.pred(last.arg(0))))

    def phi(I, st):
        inh = inh_seq(st)
        for f in (holder["allwatch"], holder["depsok"], holder["entries_ok"]):
            unfold_append(I, f, inh)
        return z3.And(nodup(I, st, z3.Concat(holder["wseq"], inh)), holder["allwatch"].sfn(inh), holder["depsok"].sfn(inh),
                      holder["entries_ok"].sfn(inh))

    def kept(I, st, found):
        N = holder["N"]
        return z3.Implies(z3.And(found, wf(I, N), z3.Not(I.has_item_eq(st, holder["wseq"], 0, Sym(N)))),
                          I.has_item_eq(st, inh_seq(st), 0, Sym(N)))

    def inv_outer(I, st, pre):
        holder["outer"] = (pre.t, pre.n)
        return z3.And(phi(I, st), kept(I, st, z3.Not(holder["nocls"].tfn(pre.t, pre.n))))

    def inv_inner(I, st, pre):
        ot, on = holder["outer"]
        found = z3.Or(z3.Not(holder["nocls"].tfn(ot, on)), z3.Not(holder["noN"].tfn(pre.t, pre.n)))
        return z3.And(phi(I, st), kept(I, st, found))

    def havoc(I, st):
        r = st.env.get("_inherited")
        if isinstance(r, Ref):
            h = st.heap[r.oid]
            h.seq = I.U.fresh_seq("_inherited")
            h.fields.pop("$items", None)

    def inner_facts(I, st, x):
        # a string is determined by its text: a name equal (==) to N is N
        n = vm.titem(x, 0)
        N = holder["N"]
        # rely: the table of an ancestor was stored by this very block (guarantee below): 5-tuples
        return [z3.Implies(eq(I, st, n, N), n == N), vm.ty(x) == vm.TAG["tuple"], vm.tlen(x) == 5]

    def post(I, info, st, oc):
        if isinstance(oc, Raise):
            return [("does-not-raise", z3.BoolVal(False))]
        N = holder["N"]
        inh = inh_seq(st)
        out = [("never duplicates/the table holds at most one entry per method name (an own entry replaces the inherited one)",
                nodup(I, st, z3.Concat(inh, holder["wseq"]))),
               ("an undecorated override is not registered: every inherited entry names a method the class inherits with watch",
                holder["allwatch"].sfn(inh)),
               ("dependencies of an inherited entry are resolved from the method the class actually inherits",
                holder["depsok"].sfn(inh))]
        out.append(("guarantee/every entry of the stored table is a 5-tuple (what subclasses rely on)",
                    z3.And(holder["entries_ok"].sfn(inh), holder["entries_ok"].sfn(holder["wseq"]))))
        cl = holder["outer"][0]
        out.append(("never lost/a registration some class of the hierarchy holds for a method the class inherits with watch is kept",
                    kept(I, st, z3.Not(holder["nocls"].tfn(cl, vm.tlen(cl))))))
        dep = st.heap[info["mparam"].oid].fields.get("_depends")
        ok = z3.BoolVal(False)
        if isinstance(dep, Ref) and st.heap[dep.oid].kind == "dict":
            d = I.known_dict(st, dep)
            if d is not None and list(d) == ["watch"] and isinstance(d["watch"], Ref) and st.heap[d["watch"].oid].kind == "list":
                ok = st.heap[d["watch"].oid].seq == z3.Concat(inh, holder["wseq"])
        out.append(("the table stored for instances is _inherited + _watch", ok))
        return out
    loops = {(QUAL, "classlist"): LoopSpec("classlist", inv=inv_outer, heap=havoc, name="classes-of-the-hierarchy"),
             (QUAL, "_depends"): LoopSpec("_depends", inv=inv_inner, heap=havoc, name="entries-of-one-class", elem_facts=inner_facts)}
    c = FunctionContract("%s:%s" % (MOD, QUAL), PROP, setup, post, configure=configure, loops=loops,
                         name="ParameterizedMetaclass.__init__[inherited dependency table, arbitrary hierarchy]")
    c.runner = runner
    c.static_replay = TABLE_REPLAY
    c.static_witness = "chains and diamonds in which each class defines the method decorated on a / on b / undecorated / not at all"
    return c


def contracts():
    return [inherited_table_contract()]


ASSUMPTIONS = [
    "block contract: only the statements `_inherited = []` … `mcs.param._depends = …` of ParameterizedMetaclass.__init__ are executed, from an arbitrary state in which `_watch` holds 5-tuples with at most one entry per method name (it is built from the class dict, whose keys are distinct)",
    "callee contracts: classlist (some tuple of classes), _params_depended_on (a function of the method name and the method object), MInfo (record), slices of a class list are class lists",
    "a string value is determined by its text (a name equal to N is N)",
    "rely: the table of every ancestor consists of 5-tuples (guaranteed by this block for the table it stores: rely/guarantee over class creation)",
    "instance-time installation, dependency resolution, dispatch and the function form are covered by the bounded layer only",
]


# C06 rests on the dispatcher: a dependent method runs exactly once per change only if the watcher
# installed for it is queued once, flushed once and the dispatch state survives every exit.  The
# dispatcher contracts (verified for C03/C04/C05) are therefore part of this check as well.
_c06_base = contracts


def contracts():
    from contracts import c03 as _c03, c04 as _c04, c05 as _c05
    extra = [_c03.call_watcher_contract(), _c04.flush_contract()] + \
        [c for c in _c05.contracts() if c.name in ("batch_call_watchers", "_batch_call_watchers", "discard_events")]
    for c in extra:
        c.prop = PROP
    return _c06_base() + extra


_c06_base2 = contracts


def contracts():
    from contracts import c05 as _c05
    u = _c05.update_contract()
    u.prop = PROP
    return _c06_base2() + [u]


# dependent methods are (re)installed by _update_deps and invoked through _sync_caller (verified for C07)
_c06_base3 = contracts


def contracts():
    from contracts import c07 as _c07
    extra = [_c07.update_deps_iteration_contract(), _c07.sync_caller_contract(True), _c07.sync_caller_contract(False)]
    for c in extra:
        c.prop = PROP
    return _c06_base3() + extra


# ---------------------------------------------------------------------------------------------
# concrete probe: what a depends declaration watches is a SET of dependencies — order, interleaving of
# owners and emptiness of the list do not matter
# ---------------------------------------------------------------------------------------------
DECLARATION_REPLAY = '''import sys, os, itertools
sys.path.insert(0, os.environ.get('PYVC_REPO', '/repo'))
import param
bad = []
class P(param.Parameterized):
    a = param.Number(0); b = param.Number(0); c = param.Number(0)
class Q(param.Parameterized):
    x = param.Number(0); y = param.Number(0)
# function form: every ordering of dependencies of two objects; one batch changing two of p's parameters
names = [('p', 'a'), ('q', 'x'), ('p', 'b'), ('q', 'y')]
for perm in itertools.permutations(names):
    p, q = P(), Q()
    objs = {'p': p, 'q': q}
    calls = []
    f = param.depends(*[objs[o].param[n] for o, n in perm], watch=True)(lambda *a: calls.append(a))
    for label, act, want in (('p.param.update(a=1, b=1)', lambda: p.param.update(a=1, b=1), 1),
                             ('batch: p.a = 2; p.b = 2', None, 1),
                             ('q.param.update(x=1, y=1)', lambda: q.param.update(x=1, y=1), 1),
                             ('p.a = 3', lambda: setattr(p, 'a', 3), 1)):
        del calls[:]
        if act is None:
            with param.parameterized.batch_call_watchers(p):
                p.a = 2; p.b = 2
        else:
            act()
        if len(calls) != want:
            bad.append('depends(%s, watch=True): %s ran the function %d times, expected %d'
                       % (', '.join('%s.%s' % t for t in perm), label, len(calls), want))
            break
# method form: a method that declares NO dependency never runs because of a parameter change
for decl, kw in (('depends(watch=True)', {}), ('depends(on_init=True, watch=True)', {'on_init': True})):
    log = []
    ns = {'a': param.Number(0), 'b': param.Number(0),
          'run_once': param.depends(watch=True, **kw)(lambda self: log.append('run_once')),
          'after': param.depends('run_once', watch=True)(lambda self: log.append('after')),
          'on_a': param.depends('a', watch=True)(lambda self: log.append('on_a'))}
    K = type('K', (param.Parameterized,), ns)
    S = type('S', (K,), {})
    for cls in (K, S):
        o = cls()
        start = list(log); del log[:]
        if kw and start.count('run_once') != 1:
            bad.append('%s on %s: ran %d times at construction, expected once' % (decl, cls.__name__, start.count('run_once')))
        o.b = 1; o.param.update(b=2)
        with param.parameterized.batch_call_watchers(o):
            o.b = 3
        if log:
            bad.append('%s on %s: a change of the unrelated parameter b ran %r' % (decl, cls.__name__, log))
        del log[:]
        o.a = 1
        if log != ['on_a']:
            bad.append('%s on %s: a change of a ran %r, expected only on_a' % (decl, cls.__name__, log))
        del log[:]
if bad:
    print('REPRODUCED: ' + bad[0]); sys.exit(1)
print('NOT-REPRODUCED'); sys.exit(0)
'''

PROBES = [("a depends declaration is a set of dependencies (order, interleaved owners, empty lists)", DECLARATION_REPLAY)]
