"""C07 — sub-object dependencies follow the object currently attached.

Deductive part: the sub-path change filter `_skip_event(*events, what=, changed=)`: for one event
and an arbitrary list `changed` of sub-paths it returns True exactly when every value reached
through a listed sub-path is equal (Comparator.is_equal) on the old and the new sub-object, and
False when `changed` is None — so replacing a sub-object fires the dependent method iff some
listed leaf differs.  That `changed` covers every dependency of the group (`_watch_group`) and the
re-binding of dynamic watchers (`_update_deps`) are covered by the bounded layer only."""
import z3

from pyvc import spec as S
from pyvc import values as vm
from pyvc.engine import OutOfReach, Raise
from pyvc.loops import LoopSpec
from pyvc.values import BoolV, ClsV, Conc, FuncV, Ref, Sym, TupV
from pyvc.verify import FunctionContract

PROP = "C07"
MOD = "param.parameterized"

reach = z3.Function("reach", vm.V, vm.V, vm.V)          # _getattrr(obj, path, None)
is_eq = z3.Function("is_equal", vm.V, vm.V, z3.BoolSort())


def skip_event_contract(changed_none=False, name_listed=True):
    holder = {}

    def configure(I):
        def getattrr(I, st, fv, args, kwargs, ctx):
            r = reach(I.term(args[0]), I.term(args[1]))
            I.U.well_typed(r)
            return [(st, Sym(r))]
        I.contracts["_getattrr"] = getattrr

        def is_equal(I, st, fv, args, kwargs, ctx):
            return [(st, BoolV(is_eq(I.term(args[0]), I.term(args[1]))))]
        I.contracts["Comparator.is_equal"] = is_equal

        def new_event(I, st, fv, args, kwargs, ctx):
            raise OutOfReach("unexpected Event construction")
        I.lib["new:Event"] = new_event

    def leaf(I, obj, p):
        U = I.U
        return z3.If(obj == U.NONE, U.UNDEF, reach(obj, p))

    def setup(I, st):
        U = I.U
        ev = I.alloc_obj(st, "Event", lazy=False, label="event")
        old, new = Sym(U.fresh("old_sub")), Sym(U.fresh("new_sub"))
        st.heap[ev.oid].fields.update({"old": old, "new": new, "name": Conc("a")})
        m = I.src.modules[MOD]
        fd = m.functions["_skip_event"]
        fv = FuncV("repo", module=m, cls=None, node=fd, self=None, qual="_skip_event")
        info = {"old": old.t, "new": new.t, "symbols": {}}
        if changed_none:
            kw = {"what": Conc("value")}
        else:
            changed = Sym(U.fresh("subpaths"))
            st.pc.append(U.has_type(changed.t, ["list", "tuple"]))
            info["changed"] = changed.t
            # `changed` maps a watched parameter name to the sub-paths of every dependency through it
            cd = I.alloc_dict(st)
            I.dict_store(st, cd, Conc("a" if name_listed else "other"), changed)
            f = S.fold(I, "all_leaves_equal", lambda p: is_eq(leaf(I, old.t, p), leaf(I, new.t, p)))
            info["fold"] = f
            holder["fold"] = f
            f.of_value(changed.t, unfold=0)
            kw = {"what": Conc("value"), "changed": cd}
        return fv, [ev], kw, info

    def post(I, info, st, oc):
        if isinstance(oc, Raise):
            return [("does-not-raise", z3.BoolVal(False))]
        t = I.truth_in(st, oc)
        tb = z3.BoolVal(t) if isinstance(t, bool) else t
        if changed_none:
            return [("no sub-path information => never skipped", z3.Not(tb))]
        if not name_listed:
            return [("an event of a parameter depended on directly is never skipped", z3.Not(tb))]
        return [("skipped  <=>  every listed leaf is equal on the old and the new sub-object",
                 tb == info["fold"].of_value(info["changed"], unfold=0))]
    loops = {("_skip_event", "changed"): LoopSpec("changed", inv=lambda I, st, pre: pre.all(holder["fold"]), name="all-leaves-equal")}
    nm = "changed=None" if changed_none else ("one event, arbitrary sub-paths" if name_listed else "event of a directly watched parameter")
    return FunctionContract("%s:_skip_event" % MOD, PROP, setup, post, configure=configure, loops=loops,
                            name="_skip_event[%s]" % nm)


def contracts():
    return [skip_event_contract(False), skip_event_contract(True), skip_event_contract(False, name_listed=False)]


ASSUMPTIONS = [
    "callee contracts: _getattrr(obj, path, None) is a pure lookup reach(obj, path); Comparator.is_equal is a pure predicate (its soundness/completeness: C03 bounded layer)",
    "_skip_event is verified for one event (the callers pass one event per sub-object change) and what='value'",
]
