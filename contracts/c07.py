"""C07 — sub-object dependencies follow the object currently attached.

Deductive part: the sub-path change filter `_skip_event(*events, what=, changed=)`: for one event
and an arbitrary list `changed` of sub-paths it returns True exactly when every value reached
through a listed sub-path is equal (Comparator.is_equal) on the old and the new sub-object, and
False when `changed` is None — so replacing a sub-object fires the dependent method iff some
listed leaf differs.  That `changed` covers every dependency of the group (`_watch_group`) and the
re-binding of dynamic watchers are covered by the bounded layer; the RELEASE of the old dynamic
watchers in `_update_deps` is under a block contract (end of this file)."""
import z3

from pyvc import spec as S
from pyvc import values as vm
from pyvc.engine import OutOfReach, Raise
from pyvc.loops import LoopSpec
from pyvc.values import BoolV, ClsV, Conc, FuncV, Ref, Sym, TupV
from pyvc.verify import FunctionContract

PROP = "C07"
MOD = "param.parameterized"

reach = z3.Function("reach", vm.V, vm.V, vm.V)          # _getattrr(obj, path, None)
is_eq = z3.Function("is_equal", vm.V, vm.V, z3.BoolSort())


def skip_event_contract(changed_none=False, name_listed=True):
    holder = {}

    def configure(I):
        def getattrr(I, st, fv, args, kwargs, ctx):
            r = reach(I.term(args[0]), I.term(args[1]))
            I.U.well_typed(r)
            return [(st, Sym(r))]
        I.contracts["_getattrr"] = getattrr

        def is_equal(I, st, fv, args, kwargs, ctx):
            return [(st, BoolV(is_eq(I.term(args[0]), I.term(args[1]))))]
        I.contracts["Comparator.is_equal"] = is_equal

        def new_event(I, st, fv, args, kwargs, ctx):
            raise OutOfReach("unexpected Event construction")
        I.lib["new:Event"] = new_event

    def leaf(I, obj, p):
        U = I.U
        return z3.If(obj == U.NONE, U.UNDEF, reach(obj, p))

    def setup(I, st):
        U = I.U
        ev = I.alloc_obj(st, "Event", lazy=False, label="event")
        old, new = Sym(U.fresh("old_sub")), Sym(U.fresh("new_sub"))
        st.heap[ev.oid].fields.update({"old": old, "new": new, "name": Conc("a")})
        m = I.src.modules[MOD]
        fd = m.functions["_skip_event"]
        fv = FuncV("repo", module=m, cls=None, node=fd, self=None, qual="_skip_event")
        info = {"old": old.t, "new": new.t, "symbols": {}}
        if changed_none:
            kw = {"what": Conc("value")}
        else:
            changed = Sym(U.fresh("subpaths"))
            st.pc.append(U.has_type(changed.t, ["list", "tuple"]))
            info["changed"] = changed.t
            # `changed` maps a watched parameter name to the sub-paths of every dependency through it
            cd = I.alloc_dict(st)
            I.dict_store(st, cd, Conc("a" if name_listed else "other"), changed)
            f = S.fold(I, "all_leaves_equal", lambda p: is_eq(leaf(I, old.t, p), leaf(I, new.t, p)))
            info["fold"] = f
            holder["fold"] = f
            f.of_value(changed.t, unfold=0)
            kw = {"what": Conc("value"), "changed": cd}
        return fv, [ev], kw, info

    def post(I, info, st, oc):
        if isinstance(oc, Raise):
            return [("does-not-raise", z3.BoolVal(False))]
        t = I.truth_in(st, oc)
        tb = z3.BoolVal(t) if isinstance(t, bool) else t
        if changed_none:
            return [("no sub-path information => never skipped", z3.Not(tb))]
        if not name_listed:
            return [("an event of a parameter depended on directly is never skipped", z3.Not(tb))]
        return [("skipped  <=>  every listed leaf is equal on the old and the new sub-object",
                 tb == info["fold"].of_value(info["changed"], unfold=0))]
    loops = {("_skip_event", "changed"): LoopSpec("changed", inv=lambda I, st, pre: pre.all(holder["fold"]), name="all-leaves-equal")}
    nm = "changed=None" if changed_none else ("one event, arbitrary sub-paths" if name_listed else "event of a directly watched parameter")
    return FunctionContract("%s:_skip_event" % MOD, PROP, setup, post, configure=configure, loops=loops,
                            name="_skip_event[%s]" % nm)


def contracts():
    return [skip_event_contract(False), skip_event_contract(True), skip_event_contract(False, name_listed=False)]


ASSUMPTIONS = [
    "callee contracts: _getattrr(obj, path, None) is a pure lookup reach(obj, path); Comparator.is_equal is a pure predicate (its soundness/completeness: C03 bounded layer)",
    "_skip_event is verified for one event (the callers pass one event per sub-object change) and what='value'",
]


# ---------------------------------------------------------------------------------------------
# Block contract: one iteration of the loop of Parameters._update_deps (re-binding of the dynamic
# watchers of ONE dependent method when the attribute `attribute` of the object was assigned)
# ---------------------------------------------------------------------------------------------
UPDATE_DEPS_REPLAY = '''import sys, os
sys.path.insert(0, os.environ.get('PYVC_REPO', '/repo'))
import param
bad = []
class L(param.Parameterized):
    x = param.Number(0)
    y = param.Number(0)
class N(param.Parameterized):
    z = param.Number(0)          # lacks x and y
def watchers_on(o):
    return sum(len(ws) for attrs in o._param__private.watchers.values() for ws in attrs.values())
for deps in (('a.x',), ('a.x', 'a.y')):
    calls = []
    class T(param.Parameterized):
        a = param.ClassSelector(class_=param.Parameterized, allow_None=True)
        @param.depends(*deps, watch=True)
        def m(self):
            calls.append(1)
    old = L(); t = T(a=old)
    t.a = L(x=1)                                   # replace: the old object must be released
    if watchers_on(old):
        bad.append('deps=%r: after t.a = <new>, the replaced object still holds %d watcher(s)' % (deps, watchers_on(old)))
    del calls[:]; old.x = 7
    if calls:
        bad.append('deps=%r: assigning to the replaced object invoked the method' % (deps,))
    cur = t.a
    try:
        t.a = N()                                  # cannot be resolved: raises
    except AttributeError:
        pass
    if watchers_on(cur):
        bad.append('deps=%r: after a failed attach the detached object still holds %d watcher(s)' % (deps, watchers_on(cur)))
    del calls[:]; cur.x = 9
    if calls:
        bad.append('deps=%r: assigning to the object detached by a failed attach invoked the method' % (deps,))
if bad:
    print('REPRODUCED: C07 a detached object keeps a watcher installed on the parent\\'s behalf:'.replace("\\\\'", "'"))
    for b in bad:
        print('  ', b)
    sys.exit(1)
print('NOT-REPRODUCED'); sys.exit(0)
'''


def update_deps_iteration_contract():
    """Body of `for method, queued, on_init, constant, dynamic in …_depends['watch']:` in
    `Parameters._update_deps(attribute)` (init=False), for an ARBITRARY table entry and an ARBITRARY
    list of watchers recorded for that method: either the entry is not concerned (nothing is unwatched,
    resolved or installed), or EVERY previously recorded dynamic watcher of the method is unwatched on
    the very object it was installed on, and forgotten, BEFORE anything is resolved — so also when the
    resolution of the new dependencies raises — and each new group gets exactly one watcher, recorded
    for the method."""
    import ast as _ast
    holder = {}
    QUAL = "Parameters._update_deps"
    idF = z3.Function("id_of", vm.V, vm.V)
    splitF = z3.Function("str_split", vm.V, vm.V, vm.V)
    resolvedF = z3.Function("resolved_deps_of", vm.V, vm.V)

    def configure(I):
        I.sym_fields = {"inst", "cls", "param", "spec", "what", "name"}

        def vmethod(I, st, name, selfv, args, kwargs, ctx):
            if name == "unwatch":
                w = I.term(args[0])
                st.ghost["unwatched"] = z3.Store(st.ghost["unwatched"], w, True)
                st.ghost["unwatch_on"] = st.ghost.get("unwatch_on", []) + [(I.term(selfv), w)]
                st.ghost["events"] = st.ghost.get("events", []) + ["unwatch"]
                obs = ctx.get("obligations")
                if obs is not None:
                    from pyvc.objects import sym_field
                    Fi, Fc, Fp = sym_field(I, st, "inst"), sym_field(I, st, "cls"), sym_field(I, st, "param")
                    owner = z3.If(z3.Select(Fi, w) == I.U.NONE, z3.Select(Fc, w), z3.Select(Fi, w))
                    obs.append(("a watcher is unwatched on the object it was installed on (its instance, else its class)",
                                st.fork(), I.term(selfv) == z3.Select(Fp, owner)))
                return [(st, Conc(None))]
            if name == "split" and isinstance(selfv, Sym):
                r = splitF(I.term(selfv), I.term(args[0]))
                I.U.axioms += [vm.ty(r) == vm.TAG["list"], vm.tlen(r) >= 1]
                I.U.well_typed(r)
                return [(st, Sym(r))]
            if name == "append" and isinstance(selfv, Sym):
                st.ghost["appended_to_value"] = st.ghost.get("appended_to_value", []) + [(I.term(selfv), args[0])]
                return [(st, Conc(None))]
            return None
        I.lib["$value_method"] = vmethod

        def h_any(I, st, fv, args, kwargs, ctx):
            # whether some dynamic dependency of the entry starts at `attribute`: left open
            return [(st, BoolV(I.U.fresh_bool("entry_is_concerned")))]
        I.lib["any"] = h_any

        def h_id(I, st, fv, args, kwargs, ctx):
            r = idF(I.term(args[0]))
            I.U.axioms.append(vm.ty(r) == vm.TAG["int"])
            I.U.well_typed(r)
            return [(st, Sym(r))]
        I.lib["id"] = h_id

        def new_defaultdict(I, st, fv, args, kwargs, ctx):
            r = I.alloc_dict(st)
            st.heap[r.oid].fields["$default_list"] = True
            return [(st, r)]
        I.lib["new:defaultdict"] = new_defaultdict

        def resolve(I, st, fv, args, kwargs, ctx):
            st.ghost["events"] = st.ghost.get("events", []) + ["resolve"]
            r = I.U.fresh("resolved_deps")
            I.U.axioms += [vm.ty(r) == vm.TAG["list"], vm.tlen(r) >= 0]
            I.U.well_typed(r)
            q = st.fork()
            return [(st, Sym(r)), (q, Raise("AttributeError", origin="_resolve_mcs_deps"))]
        I.contracts["_resolve_mcs_deps"] = resolve

        def watch_group(I, st, fv, args, kwargs, ctx):
            w = Sym(I.U.fresh("new_watcher"))
            st.ghost["events"] = st.ghost.get("events", []) + ["install"]
            st.ghost["installed"] = st.ghost.get("installed", []) + [(w, list(args))]
            return [(st, w)]
        I.contracts["Parameters._watch_group"] = watch_group

    def setup(I, st):
        U = I.U
        obj = I.alloc_obj(st, "Parameterized", lazy=True, label="obj")
        priv = I.alloc_obj(st, "_InstancePrivate", lazy=True, label="obj._param__private")
        DW = I.alloc_dict(st, keys=U.fresh_seq("methods_with_dynamic_watchers"), vals=z3.Const("dynamic_watchers", z3.ArraySort(vm.V, vm.V)))
        st.heap[DW.oid].fields["$default_list"] = True
        st.heap[priv.oid].fields["dynamic_watchers"] = DW
        st.heap[obj.oid].fields["_param__private"] = priv
        self_ = I.alloc_obj(st, "Parameters", lazy=False, label="self_")
        st.heap[self_.oid].fields.update({"self": obj, "cls": ClsV("Parameterized")})
        method = U.fresh("method")
        st.pc.append(vm.ty(method) == vm.TAG["str"])
        dynamic = U.fresh("dynamic")
        st.pc += [vm.ty(dynamic) == vm.TAG["list"], vm.tlen(dynamic) >= 0]
        U.well_typed(dynamic)
        hd = st.heap[DW.oid]
        old_list = z3.Select(hd.vals, method)
        st.pc += [z3.Implies(z3.Contains(hd.keys, z3.Unit(method)), z3.And(vm.ty(old_list) == vm.TAG["list"], vm.tlen(old_list) >= 0))]
        U.well_typed(old_list)
        w0 = U.fresh("some_recorded_watcher")
        holder.update({"w0": w0, "old_list": old_list, "method": method, "DW": DW, "had": z3.Contains(hd.keys, z3.Unit(method))})
        holder["notw0"] = S.fold(I, "not_the_recorded_watcher", lambda x: x != w0)
        st.ghost["unwatched"] = z3.K(vm.V, False)
        env = {"self_": self_, "obj": obj, "method": Sym(method), "queued": Sym(U.fresh("queued")), "on_init": Sym(U.fresh("on_init")),
               "constant": Sym(U.fresh("constant")), "dynamic": Sym(dynamic), "attribute": Sym(U.fresh("attribute")),
               "init": Conc(False), "init_methods": I.make_list(st, [])}
        st.pc.append(I.term(env["attribute"]) != U.NONE)
        return {"env": env, "DW": DW, "symbols": {}}

    def runner(I, st, info, ctx):
        module, cname, fd = I.src.locate("%s:%s" % (MOD, QUAL))
        loop = [x for x in fd.body if isinstance(x, _ast.For) and "_depends['watch']" in _ast.unparse(x.iter)]
        if len(loop) != 1:
            raise OutOfReach("the loop over the class dependency table was not found in _update_deps")
        holder["info"] = info
        st.env = dict(info["env"])
        c = dict(ctx)
        c.update({"module": module, "owner": cname, "qual": QUAL, "fnode": fd, "selfname": "self_"})
        out = []
        for (q, oc) in I.exec_block(loop[0].body, st, c):
            if oc is None or oc[0] == "continue":
                out.append((q, Conc(None if oc is None else "continue")))
            elif oc[0] == "raise":
                out.append((q, oc[1]))
            else:
                raise OutOfReach("unexpected exit of the loop body: %r" % (oc[0],))
        return out

    def recorded(I, n):
        """w0 is among the first n watchers recorded for the method before the call"""
        return z3.And(holder["had"], z3.Not(holder["notw0"].tfn(holder["old_list"], n)))

    def inv_unwatch(I, st, pre):
        return z3.Implies(z3.And(holder["had"], z3.Not(holder["notw0"].tfn(pre.t, pre.n))), z3.Select(st.ghost["unwatched"], holder["w0"]))

    def havoc_unwatch(I, st):
        st.ghost["unwatched"] = z3.Const("unwatched!%d" % I.new_oid(), z3.ArraySort(vm.V, z3.BoolSort()))
        st.ghost["unwatch_on"] = []

    def inv_true(I, st, pre):
        return z3.BoolVal(True)

    def havoc_grouped(I, st):
        g = st.env.get("grouped")
        if isinstance(g, Ref):
            h = st.heap[g.oid]
            h.keys = I.U.fresh_seq("group_keys")
            h.vals = z3.Const("groups!%d" % I.new_oid(), z3.ArraySort(vm.V, vm.V))
            h.ckeys = None
            h.fields.pop("$entries", None)
            for f in [f for f in h.fields if isinstance(f, tuple)]:
                h.fields.pop(f)

    def havoc_install(I, st):
        h = st.heap[holder["DW"].oid]
        h.keys = I.U.fresh_seq("methods_with_dynamic_watchers")
        h.vals = z3.Const("dynamic_watchers!%d" % I.new_oid(), z3.ArraySort(vm.V, vm.V))
        st.ghost["installed"] = []

    def post(I, info, st, oc):
        U = I.U
        w0 = holder["w0"]
        ev = st.ghost.get("events", [])
        was_recorded = recorded(I, vm.tlen(holder["old_list"]))
        untouched = ("unwatch" not in ev and "resolve" not in ev and "install" not in ev)
        out = []
        if isinstance(oc, Raise):
            out.append(("only the resolution of the new dependencies may raise", z3.BoolVal(oc.origin == "_resolve_mcs_deps")))
        concerned = not (isinstance(oc, Conc) and oc.py == "continue")
        if not concerned:
            out.append(("an entry that is not concerned is left alone (nothing unwatched, resolved or installed)", z3.BoolVal(untouched)))
            return out
        out.append(("every dynamic watcher recorded for the method is unwatched, also when the resolution of the new dependencies raises",
                    z3.Implies(was_recorded, z3.Select(st.ghost["unwatched"], w0))))
        if isinstance(oc, Raise):
            out.append(("when the resolution fails nothing stays recorded for the method",
                        z3.Not(z3.Contains(st.heap[holder["DW"].oid].keys, z3.Unit(holder["method"])))))
        first_other = [i for i, e in enumerate(ev) if e in ("resolve", "install")]
        last_unwatch = [i for i, e in enumerate(ev) if e == "unwatch"]
        out.append(("the old watchers are released before anything is resolved or installed",
                    z3.BoolVal(not first_other or not last_unwatch or max(last_unwatch) < min(first_other))))
        return out
    loops = {(QUAL, "dynamic"): LoopSpec("dynamic", inv=inv_true, heap=havoc_grouped, name="each-dynamic-dependency"),
             (QUAL, "_resolve_mcs_deps"): LoopSpec("_resolve_mcs_deps", inv=inv_true, heap=havoc_grouped, name="each-resolved-dependency"),
             (QUAL, "grouped.values()"): LoopSpec("grouped.values()", inv=inv_true, heap=havoc_install, name="one-watcher-per-group"),
             (QUAL, "dynamic_watchers.pop"): LoopSpec("dynamic_watchers.pop", inv=inv_unwatch, heap=havoc_unwatch, name="release-every-old-dynamic-watcher")}
    c = FunctionContract("%s:%s" % (MOD, QUAL), PROP, setup, post, configure=configure, loops=loops,
                         name="Parameters._update_deps[one table entry, arbitrary recorded watchers]")
    c.runner = runner
    c.static_replay = UPDATE_DEPS_REPLAY
    c.static_witness = "replace / failed attach of a sub-object a method depends on through 'a.x' (and 'a.y')"
    return c


_c07_base = contracts


def contracts():
    return _c07_base() + [update_deps_iteration_contract()]


# ---------------------------------------------------------------------------------------------
# _sync_caller — the wrapper installed as watcher callback for a dependent method
# ---------------------------------------------------------------------------------------------
def sync_caller_contract(with_callback):
    """`_sync_caller(*events, what, changed, callback, function)`: the re-binding callback (when there
    is one) runs first — so the watchers follow the newly attached object even when the method raises or
    the event is skipped —, then the method runs exactly once iff the event is not skipped."""
    def configure(I):
        def skip(I, st, fv, args, kwargs, ctx):
            st.ghost["order"] = st.ghost.get("order", []) + ["skip?"]
            b = I.U.fresh_bool("skipped")
            st.ghost["skipped"] = b
            return [(st, BoolV(b))]
        I.contracts["_skip_event"] = skip

        def cb(I, st, fv, args, kwargs, ctx):
            st.ghost["order"] = st.ghost.get("order", []) + ["callback"]
            st.ghost["cb_args"] = list(args)
            return [(st, Conc(None))]
        I.lib["__CALLBACK__"] = cb

        def fn(I, st, fv, args, kwargs, ctx):
            st.ghost["order"] = st.ghost.get("order", []) + ["method"]
            q = st.fork()
            return [(st, Sym(I.U.fresh("method_result"))), (q, Raise("$User", origin="method"))]
        I.lib["__METHOD__"] = fn

    def setup(I, st):
        m = I.src.modules[MOD]
        fd = m.functions["_sync_caller"]
        fv = FuncV("repo", module=m, cls=None, node=fd, self=None, qual="_sync_caller")
        ev = Sym(I.U.fresh("event"))
        kw = {"what": Conc("value"), "changed": Sym(I.U.fresh("changed")),
              "callback": FuncV("builtin", name="__CALLBACK__", self=None) if with_callback else Conc(None),
              "function": FuncV("builtin", name="__METHOD__", self=None)}
        return fv, [ev], kw, {"event": ev, "symbols": {}}

    def post(I, info, st, oc):
        order = st.ghost.get("order", [])
        out = []
        if with_callback:
            out.append(("the re-binding callback runs exactly once, before the skip test and before the method — also when the method raises",
                        z3.BoolVal(order.count("callback") == 1 and order[0] == "callback")))
            a = st.ghost.get("cb_args", [])
            out.append(("the callback receives the events", z3.BoolVal(len(a) == 1 and a[0] is info["event"])))
        else:
            out.append(("no callback: none is invoked", z3.BoolVal("callback" not in order)))
        sk = st.ghost.get("skipped")
        ran = order.count("method")
        out.append(("the method runs exactly once iff the event is not skipped",
                    z3.BoolVal(False) if sk is None else z3.And(z3.Implies(sk, z3.BoolVal(ran == 0)), z3.Implies(z3.Not(sk), z3.BoolVal(ran == 1)))))
        if isinstance(oc, Raise):
            out.append(("only the method's own exception escapes", z3.BoolVal(oc.cls == "$User")))
        return out
    return FunctionContract("%s:_sync_caller" % MOD, PROP, setup, post, configure=configure,
                            name="_sync_caller[%s]" % ("with re-binding callback" if with_callback else "no callback"))


_c07_base2 = contracts


def contracts():
    return _c07_base2() + [sync_caller_contract(True), sync_caller_contract(False)]


# firing exactly once per change (also inside batches) rests on the dispatcher
_c07_base3 = contracts


def contracts():
    from contracts import c03 as _c03, c04 as _c04, c05 as _c05
    extra = [_c03.call_watcher_contract(), _c04.flush_contract()] + \
        [c for c in _c05.contracts() if c.name in ("batch_call_watchers", "_batch_call_watchers", "discard_events")]
    for c in extra:
        c.prop = PROP
    return _c07_base3() + extra


# a dynamic watcher runs because the setter's dispatch loop calls EVERY watcher of its snapshot
# (sorted by precedence), also those re-created by an earlier callback of the same loop (verified for C03)
_c07_base4 = contracts


def contracts():
    from contracts import c02 as _c02
    extra = _c02.all_set_contracts(["C03/"])
    for c in extra:
        c.prop = PROP
    return _c07_base4() + extra


# ---------------------------------------------------------------------------------------------
# concrete probe: sub-objects whose truth value is False are sub-objects like any other
# ---------------------------------------------------------------------------------------------
FALSY_SUB_REPLAY = '''import sys, os, itertools
sys.path.insert(0, os.environ.get('PYVC_REPO', '/repo'))
import param
bad = []
class Leaf(param.Parameterized):
    x = param.Number(0)
    items = param.List([])
    def __len__(self):
        return len(self.items)
class Mid(param.Parameterized):
    leaf = param.Parameter()
    x = param.Number(0)
    def __bool__(self):
        return False
for depth, when in itertools.product((1, 2), ('constructor', 'later', 'replaced')):
    calls = []
    if depth == 1:
        class Top(param.Parameterized):
            sub = param.Parameter()
            @param.depends('sub.x', watch=True)
            def m(self):
                calls.append(self.sub.x)
        mk = lambda: Leaf()
        leaf_of = lambda t: t.sub
    else:
        class Top(param.Parameterized):
            sub = param.Parameter()
            @param.depends('sub.leaf.x', watch=True)
            def m(self):
                calls.append(self.sub.leaf.x)
        mk = lambda: Mid(leaf=Leaf())
        leaf_of = lambda t: t.sub.leaf
    if when == 'constructor':
        t = Top(sub=mk())
    elif when == 'later':
        t = Top(); t.sub = mk()
    else:
        t = Top(sub=mk()); t.sub = mk()
    del calls[:]
    leaf_of(t).x = 5
    if calls != [5]:
        bad.append('a falsy sub-object (depth %d, attached by %s): a change of its x ran the depending method %d times, expected once'
                   % (depth, when, len(calls)))
    old = leaf_of(t)
    t.sub = mk()
    del calls[:]
    old.x = 9
    if calls:
        bad.append('a detached falsy sub-object (depth %d, %s) still runs the method' % (depth, when))
if bad:
    print('REPRODUCED: ' + bad[0]); sys.exit(1)
print('NOT-REPRODUCED'); sys.exit(0)
'''

PROBES = [("falsy sub-objects are followed like any other", FALSY_SUB_REPLAY)]
