"""C08 — a linked parameter mirrors its reference until it is overridden.

Contract shape: representation invariant of the link tables.

Deductive part: `Parameters._update_ref(name, ref)` — the one function that rebuilds the link
tables when a parameter is (re)linked or a link is removed:

  * every watcher recorded in `ref_watchers` is unwatched on the object it was installed on
    (for an arbitrary recorded entry — loop rule), and the table is emptied: no watcher stays on
    an old source on the target's behalf;
  * a pending asynchronous task of `name` is cancelled;
  * `refs' = refs[name ↦ ref]` (the entry removed when `ref is None`), other links untouched;
  * the dependencies of EVERY remaining link are recomputed with that parameter's own
    `nested_refs` flag (the same way as at construction), and the watchers are re-installed from
    exactly these dependencies by one call of `_setup_refs`.

and `Parameter._update_ref(obj, ref)` (link / unlink step of the setter).  Propagation
(`_sync_refs`), `resolve_ref`/`resolve_value` recursion and rx/bind references: bounded layer.
"""
import z3

from contracts import dispatch_model as dm
from contracts.c05 import is_param, param_of
from pyvc import spec as S
from pyvc import values as vm
from pyvc.engine import OutOfReach, Raise
from pyvc.loops import LoopSpec
from pyvc.objects import sym_field
from pyvc.values import BoolV, ClsV, Conc, FuncV, Ref, Sym, TupV
from pyvc.verify import FunctionContract

PROP = "C08"
MOD = "param.parameterized"


UNWATCH_REPLAY = '''import sys, os, itertools, logging
sys.path.insert(0, os.environ.get('PYVC_REPO', '/repo'))
logging.disable(logging.WARNING)
import param
bad = []
class Src(param.Parameterized):
    x = param.Number(default=1)
class Bag(param.Parameterized):
    # a source whose truth value follows its contents
    x = param.Number(default=1)
    items = param.List(default=[])
    def __len__(self):
        return len(self.items)
class Off(param.Parameterized):
    x = param.Number(default=1)
    def __bool__(self):
        return False
class T(param.Parameterized):
    a = param.Number(default=0, allow_refs=True)
    b = param.Number(default=0, allow_refs=True)
def sync_watchers(src):
    return len(src._param__private.watchers.get('x', {}).get('value', []))
for kind, mk in (('truthy source', Src), ('empty container source (falsy)', Bag), ('source with __bool__ False', Off)):
    for how in ('plain', 'relink', 'update-context'):
        s1, s2 = mk(x=3), mk(x=4)
        base1, base2 = sync_watchers(s1), sync_watchers(s2)
        t = T(a=s1.param.x)
        if t.a != 3:
            bad.append('%s: a linked at construction holds %r' % (kind, t.a)); continue
        for rnd in range(3):
            if how == 'plain':
                t.a = 7; t.a = s1.param.x
            elif how == 'relink':
                t.a = s2.param.x; t.a = s1.param.x
            else:
                with t.param.update(a=9):
                    pass
        n1, n2 = sync_watchers(s1) - base1, sync_watchers(s2) - base2
        if n1 > 1 or n2 > 0:
            bad.append('%s, %s three times: %d watchers are left on the linked source (one is needed), %d on the source no longer linked'
                       % (kind, how, n1, n2))
        t.a = 5
        if sync_watchers(s1) - base1 != 0:
            bad.append('%s, %s then a plain value: %d watcher(s) left on the old source' % (kind, how, sync_watchers(s1) - base1))
        s1.x = 11
        if t.a != 5:
            bad.append('%s, %s then a plain value: the old source still drives the parameter (a == %r)' % (kind, how, t.a))
if bad:
    print('REPRODUCED: ' + bad[0]); sys.exit(1)
print('NOT-REPRODUCED'); sys.exit(0)
'''


def update_ref_contract(ref_is_none):
    holder = {}

    def configure(I):
        I.sym_fields = {"inst", "cls", "param", "nested_refs"}

        def vmethod(I, st, name, selfv, args, kwargs, ctx):
            if name == "unwatch":
                un = st.ghost["unwatched"]
                st.ghost["unwatched"] = z3.Store(un, I.term(args[0]), True)
                st.ghost["unwatch_ns"] = z3.Store(st.ghost["unwatch_ns"], I.term(args[0]), I.term(selfv))
                st.ghost["unwatch_on"] = st.ghost.get("unwatch_on", []) + [(I.term(selfv), I.term(args[0]))]
                return [(st, Conc(None))]
            if name == "cancel":
                st.ghost["cancelled"] = st.ghost.get("cancelled", []) + [I.term(selfv)]
                return [(st, Conc(None))]
            return None
        I.lib["$value_method"] = vmethod

        def getitem(I, st, fv, args, kwargs, ctx):
            p = param_of(I.term(args[0]))
            I.U.well_typed(p)
            return [(st, Sym(p))]
        I.contracts["Parameters.__getitem__"] = getitem

        def resolve_ref(I, st, fv, args, kwargs, ctx):
            pref, flag = args[0], (args[1] if len(args) > 1 else kwargs.get("recursive", Conc(False)))
            obs = ctx.get("obligations")
            if obs is not None:
                ft = I.term(flag)
                ok = z3.BoolVal(False)
                pt = I.term(pref)
                # expected shape: pref == refs'[k]  and  flag == nested_refs(param_of(k)) for the same k
                if z3.is_app(pt) and pt.decl().kind() == z3.Z3_OP_SELECT:
                    k = pt.arg(1)
                    ok = ft == z3.Select(sym_field(I, st, "nested_refs"), param_of(k))
                obs.append(("dependencies of a link are resolved with that parameter's nested_refs flag", st.fork(), ok))
            r = I.U.fresh("deps")
            return [(st, Sym(r))]
        I.contracts["resolve_ref"] = resolve_ref

        def setup_refs(I, st, fv, args, kwargs, ctx):
            st.ghost["setup_refs"] = st.ghost.get("setup_refs", []) + [args[0]]
            return [(st, Conc(None))]
        I.contracts["Parameters._setup_refs"] = setup_refs

    def setup(I, st):
        U = I.U
        W = dm.World(I, st, initialized=Conc(True))
        holder["W"] = W
        ph = st.heap[W.private.oid]
        refs = I.alloc_dict(st, keys=U.fresh_seq("refs_keys"), vals=z3.Const("refs_vals", z3.ArraySort(vm.V, vm.V)))
        arefs = I.alloc_dict(st, keys=U.fresh_seq("arefs_keys"), vals=z3.Const("arefs_vals", z3.ArraySort(vm.V, vm.V)))
        rw_seq = U.fresh_seq("ref_watchers")
        rw = I.alloc_list(st, rw_seq)
        for k, v in (("refs", refs), ("async_refs", arefs), ("ref_watchers", rw)):
            ph.fields[k] = v
            ph.init[k] = v
        holder["rw_seq"] = rw_seq
        holder["entry"] = U.fresh("some_recorded_entry")
        st.ghost["unwatched"] = z3.K(vm.V, False)
        st.ghost["unwatch_ns"] = z3.Const("unwatch_ns0", z3.ArraySort(vm.V, vm.V))
        # every recorded entry is a (names, watcher) pair
        f = S.fold(I, "all_pairs", lambda e: z3.And(vm.ty(e) == vm.TAG["tuple"], vm.tlen(e) == 2))
        st.pc.append(f.sfn(rw_seq))
        name = Sym(U.fresh("name"))
        ref = Conc(None) if ref_is_none else Sym(U.fresh("ref"))
        if not ref_is_none:
            st.pc.append(ref.t != U.NONE)
        else:
            st.pc.append(z3.Contains(st.heap[refs.oid].keys, z3.Unit(name.t)))   # unlinking an existing link
        fv = I.bound_method(W.param, I.src.find_method("Parameters", "_update_ref"))
        return fv, [name, ref], {}, {"W": W, "refs": refs, "arefs": arefs, "rw": rw, "name": name.t,
                                     "arefs0": (st.heap[arefs.oid].keys, st.heap[arefs.oid].vals),
                                     "ref": I.term(ref), "refs0": (st.heap[refs.oid].keys, st.heap[refs.oid].vals),
                                     "symbols": {}}

    def own_namespace(I, st, w):
        # the `.param` namespace of the object the watcher was registered on: its instance, or its
        # class when it has no instance (`inst is None` — NOT "when the instance is falsy")
        from pyvc.objects import sym_field
        inst, cls_ = z3.Select(sym_field(I, st, "inst"), w), z3.Select(sym_field(I, st, "cls"), w)
        return z3.Select(sym_field(I, st, "param"), z3.If(inst == I.U.NONE, cls_, inst))

    def inv(I, st, pre):
        e = holder["entry"]
        w = vm.titem(e, 1)
        return z3.Implies(z3.Contains(pre.seq, z3.Unit(e)),
                          z3.And(z3.Select(st.ghost["unwatched"], w), z3.Select(st.ghost["unwatch_ns"], w) == own_namespace(I, st, w)))

    def havoc(I, st):
        st.ghost["unwatched"] = z3.Const("unwatched!%d" % I.new_oid(), z3.ArraySort(vm.V, z3.BoolSort()))
        st.ghost["unwatch_ns"] = z3.Const("unwatch_ns!%d" % I.new_oid(), z3.ArraySort(vm.V, vm.V))
        st.ghost["unwatch_on"] = []

    def post(I, info, st, oc):
        U = I.U
        if isinstance(oc, Raise):
            return [("does-not-raise", z3.BoolVal(False))]
        W = info["W"]
        ph = st.heap[W.private.oid].fields
        out = []
        e = holder["entry"]
        out.append(("every recorded ref watcher is unwatched (no watcher left on an old source)",
                    z3.Implies(z3.Contains(holder["rw_seq"], z3.Unit(e)), z3.Select(st.ghost["unwatched"], vm.titem(e, 1)))))
        out.append(("… through the namespace of the object it was registered on (its instance unless it has none — whatever the instance's truth value)",
                    z3.Implies(z3.Contains(holder["rw_seq"], z3.Unit(e)),
                               z3.Select(st.ghost["unwatch_ns"], vm.titem(e, 1)) == own_namespace(I, st, vm.titem(e, 1)))))
        rw = ph.get("ref_watchers")
        out.append(("the watcher table is emptied before it is rebuilt",
                    z3.BoolVal(isinstance(rw, Ref) and st.heap[rw.oid].kind == "list" and rw.oid != info["rw"].oid
                               and st.heap[rw.oid].fields.get("$items") == [])))
        # O4 (C10): a pending asynchronous task of this name is cancelled and forgotten
        ah = st.heap[info["arefs"].oid]
        nm_ = info["name"]
        had_task = z3.Contains(info["arefs0"][0], z3.Unit(nm_))
        cancelled = st.ghost.get("cancelled", [])
        out.append(("a pending asynchronous task of the name is cancelled",
                    z3.Implies(had_task, z3.Or([c == z3.Select(info["arefs0"][1], nm_) for c in cancelled]) if cancelled else z3.BoolVal(False))))
        out.append(("… and no longer recorded as running", z3.Not(z3.Contains(ah.keys, z3.Unit(nm_)))))
        out.append(("no task is cancelled when none is pending", z3.Implies(z3.Not(had_task), z3.BoolVal(len(cancelled) == 0))))
        sr = st.ghost.get("setup_refs", [])
        out.append(("watchers are re-installed by exactly one _setup_refs", z3.BoolVal(len(sr) == 1)))
        newrefs = ph.get("refs")
        if not (isinstance(newrefs, Ref) and st.heap[newrefs.oid].kind == "dict"):
            return out + [("refs is a mapping", z3.BoolVal(False))]
        h = st.heap[newrefs.oid]
        k0, v0 = info["refs0"]
        nm = info["name"]
        other = U.fresh("other_name")
        if ref_is_none:
            out.append(("the removed link is gone", z3.Not(z3.Contains(h.keys, z3.Unit(nm)))))
        else:
            out.append(("the new link is recorded", z3.And(z3.Contains(h.keys, z3.Unit(nm)), z3.Select(h.vals, nm) == info["ref"])))
        goal = z3.Implies(other != nm, z3.Contains(h.keys, z3.Unit(other)) == z3.Contains(k0, z3.Unit(other)))
        out.append(("other links keep their reference",
                    z3.Implies(other != nm, z3.Select(h.vals, other) == z3.Select(v0, other))))
        rem = st.ghost.get("$dict_removed:%d" % newrefs.oid)
        if rem is not None:
            # membership in a concatenation, stated explicitly for the split made by `del refs[name]`
            # (two instances of a sequence-theory theorem, each discharged as its own obligation)
            pre_, k_, post_ = rem
            u = z3.Unit(other)
            l1 = z3.Contains(z3.Concat(pre_, post_), u) == z3.Or(z3.Contains(pre_, u), z3.Contains(post_, u))
            l2 = z3.Contains(z3.Concat(pre_, z3.Unit(k_), post_), u) == z3.Or(z3.Contains(pre_, u), k_ == other, z3.Contains(post_, u))
            out.append(("seq-lemma: membership in pre ++ post", l1))
            out.append(("seq-lemma: membership in pre ++ [k] ++ post", l2))
            goal = z3.Implies(z3.And(l1, l2), goal)
        out.append(("other links stay recorded (and no new one appears)", goal))
        return out
    loops = {("Parameters._update_ref", "ref_watchers"): LoopSpec("ref_watchers", inv=inv, heap=havoc, name="unwatch-every-old-ref-watcher")}
    c = FunctionContract("%s:Parameters._update_ref" % MOD, PROP, setup, post, configure=configure, loops=loops,
                         name="Parameters._update_ref[%s]" % ("unlink" if ref_is_none else "link"))
    c.static_replay = UNWATCH_REPLAY
    c.static_witness = "sources whose truth value is False (empty containers, __bool__), relinked / overridden several times"
    return c


def contracts():
    from contracts import c12 as _c12
    from contracts import c02 as _c02
    # the setter's link / unlink step: after the store, never for a refused assignment
    sets = _c02.all_set_contracts(["C08/", "C02/exc-frame/no-link-bookkeeping", "C02/exc-frame/refs-and-async-refs-unchanged"])
    for c in sets:
        c.prop = PROP
    return [update_ref_contract(False), update_ref_contract(True), _c12.setup_params_contract(["C08/"])] + sets


ASSUMPTIONS = [
    "callee contracts: resolve_ref (pure; returns the dependencies of a reference for the given recursion flag), Parameters._setup_refs (installs one watcher per source owner for the given dependencies), unwatch/cancel recorded as ghost events",
    "propagation: `_sync_refs` is proved for objects with two and three links and one event (one dependency per link, arbitrary owners, names, values; a reference may raise or return Skip); asynchronous references, several events at once and reference kinds (bind, depends, rx, nested containers: `resolve_ref`/`resolve_value` are callee contracts here) are covered by the bounded layer only",
]


# ---------------------------------------------------------------------------------------------
# _syncing — marks the names being written by a sync; must be undone on every exit
# ---------------------------------------------------------------------------------------------
def syncing_contract():
    """`with _syncing(obj, names): body` — inside the block the syncing set is the old one plus the
    names; on BOTH exits (the sync may reject a value and raise) the object's syncing set is the very
    set it had before — otherwise a later plain assignment is mistaken for a sync write and does not
    unlink / cancel."""
    import ast as _ast
    setF = z3.Function("set_of", vm.V, vm.V)
    unionF = z3.Function("set_union", vm.V, vm.V, vm.V)

    def configure(I):
        I.lib["new:set"] = lambda I, st, fv, args, kwargs, ctx: [(st, Sym(setF(I.term(args[0]))))]

        def binop_first(I, st, op, a, b, ctx, node):
            if isinstance(op, _ast.BitOr) and isinstance(a, Sym) and isinstance(b, Sym):
                return [(st, Sym(unionF(a.t, b.t)))]
            return None
        I.lib["$binop_first"] = binop_first

    def setup(I, st):
        U = I.U
        obj = I.alloc_obj(st, "Parameterized", lazy=True, label="obj")
        priv = I.alloc_obj(st, "_InstancePrivate", lazy=True, label="obj._param__private")
        old = Sym(U.fresh("syncing_before"))
        st.heap[priv.oid].fields["syncing"] = old
        st.heap[priv.oid].init["syncing"] = old
        st.heap[obj.oid].fields["_param__private"] = priv
        names = Sym(U.fresh("names"))

        def body(I, st2, fv, args, kwargs, ctx):
            st2.ghost["inside"] = I.term(st2.heap[priv.oid].fields["syncing"])
            q = st2.fork()
            return [(st2, Conc(None)), (q, Raise("$User", origin="body"))]
        I.lib["__BODY__"] = body
        return {"env": {"o": obj, "names": names, "__BODY__": FuncV("builtin", name="__BODY__", self=None)},
                "priv": priv, "old": old.t, "names": names.t, "symbols": {}}

    def runner(I, st, info, ctx):
        from contracts.c05 import outcomes
        stmt = dm.with_stmt("_syncing(o, names)")
        st.env = dict(info["env"])
        c = dict(ctx)
        c["module"] = I.src.modules[MOD]
        c["qual"] = "<harness>"
        return outcomes(I.exec_stmt(stmt, st, c))

    def post(I, info, st, oc):
        how = "raise" if isinstance(oc, Raise) else "return"
        now = I.term(st.heap[info["priv"].oid].fields["syncing"])
        inside = st.ghost.get("inside")
        out = [("exit/the syncing set is the very set the object had before[%s]" % how, now == info["old"]),
               ("inside the block: the old names plus the names being synced[%s]" % how,
                z3.BoolVal(False) if inside is None else inside == unionF(setF(info["old"]), setF(info["names"])))]
        if isinstance(oc, Raise):
            out.append(("exception propagates", z3.BoolVal(oc.cls == "$User")))
        return out
    c = FunctionContract("%s:_syncing" % MOD, PROP, setup, post, configure=configure, name="_syncing")
    c.runner = runner
    c.static_replay = SYNCING_REPLAY
    c.static_witness = "a sync that rejects the delivered value, then a plain override of the linked parameter"
    return c


SYNCING_REPLAY = '''import sys, os
sys.path.insert(0, os.environ.get('PYVC_REPO', '/repo'))
import param
bad = []
class S(param.Parameterized):
    a = param.Number(1)
class T(param.Parameterized):
    x = param.Number(0, bounds=(0, 10), allow_refs=True)
    y = param.Number(0, allow_refs=True)
for how in ('ctor', 'assign'):
    s = S()
    t = T(x=s.param.a, y=s.param.a) if how == 'ctor' else T()
    if how == 'assign':
        t.x = s.param.a; t.y = s.param.a
    try:
        s.a = 50                      # the sync delivers a value x rejects
    except ValueError:
        pass
    if t._param__private.syncing:
        bad.append('%s: after a rejected sync the object still marks %r as being synced' % (how, sorted(t._param__private.syncing)))
    s.a = 2
    if t.x != 2:
        bad.append('%s: after a rejected sync the link no longer drives x (x == %r, source == 2)' % (how, t.x))
    t.x = 5                            # plain override: unlinks for good
    s.a = 7
    if t.x != 5:
        bad.append('%s: a plain override after a rejected sync was overwritten by the old source (x == %r)' % (how, t.x))
    if t.y != 7:
        bad.append('%s: the other link stopped following (y == %r)' % (how, t.y))
if bad:
    print('REPRODUCED: C08 syncing marks / links after a rejected sync:')
    for b in bad:
        print('  ', b)
    sys.exit(1)
print('NOT-REPRODUCED'); sys.exit(0)
'''


_c08_base = contracts


def contracts():
    return _c08_base() + [syncing_contract()]


# ---------------------------------------------------------------------------------------------
# Parameters.update — which links the `with obj.param.update(...)` context re-establishes on exit
# ---------------------------------------------------------------------------------------------
UPDATE_CTX_REPLAY = '''import sys, os
sys.path.insert(0, os.environ.get('PYVC_REPO', '/repo'))
import param
bad = []
class S(param.Parameterized):
    a = param.Number(1)
class T(param.Parameterized):
    x = param.Number(0, allow_refs=True)
    z = param.Number(0)
calls = {'kw': lambda t: t.param.update(x=50), 'dict': lambda t: t.param.update({'x': 50}),
         'dict+kw (link in kw)': lambda t: t.param.update({'z': 1}, x=50), 'dict+kw (link in dict)': lambda t: t.param.update({'x': 50}, z=1),
         'pairs+kw': lambda t: t.param.update([('z', 1)], x=50)}
for label, call in calls.items():
    s = S(); t = T(x=s.param.a)
    with call(t):
        inside = t.x
    s.a = 7
    if inside != 50:
        bad.append('%s: inside the block x == %r' % (label, inside))
    if t.x != 7:
        bad.append('%s: after the block x no longer follows its source (x == %r, source == 7)' % (label, t.x))
if bad:
    print('REPRODUCED: C08 an update context does not re-establish the link it overrode:')
    for b in bad:
        print('  ', b)
    sys.exit(1)
print('NOT-REPRODUCED'); sys.exit(0)
'''


def update_refs_contract(with_arg):
    """`Parameters.update(arg?, **kwargs)` on an instance with ARBITRARY link tables: the restorer it
    returns is handed, for every name updated (positional mapping and keywords alike) that is linked, the
    reference it was linked to — which `_ParametersRestorer.__exit__` assigns again."""
    from pyvc.loops import LoopSpec
    holder = {}

    def configure(I):
        def update_(I, st, fv, args, kwargs, ctx):
            return [(st, Sym(I.U.fresh("restore_pairs")))]
        I.contracts["Parameters._update"] = update_

        def new_dict(I, st, fv, args, kwargs, ctx):
            sk = kwargs.get("$symbolic_kwargs")
            if len(args) == 1 and isinstance(args[0], Ref) and isinstance(sk, Ref):
                a, b = st.heap[args[0].oid], st.heap[sk.oid]
                uk = I.U.fresh_seq("updated_names")
                uv = z3.Const("updated_values", z3.ArraySort(vm.V, vm.V))
                u = z3.Unit(holder["k"])
                st.pc.append(z3.Contains(uk, u) == z3.Or(z3.Contains(a.keys, u), z3.Contains(b.keys, u)))
                return [(st, I.alloc_dict(st, keys=uk, vals=uv))]
            if len(args) == 1 and isinstance(args[0], Sym) and not kwargs:
                return [(st, I.alloc_dict(st, keys=I.U.fresh_seq("restore_names"), vals=z3.Const("restore_values", z3.ArraySort(vm.V, vm.V))))]
            from pyvc import builtins_lib as bl
            return bl.h_dict(I, st, fv, args, kwargs, ctx)
        I.lib["new:dict"] = new_dict

        def restorer(I, st, fv, args, kwargs, ctx):
            st.ghost["restorer_refs"] = kwargs.get("refs")
            return [(st, Sym(I.U.fresh("restorer")))]
        I.lib["new:_ParametersRestorer"] = restorer

    def setup(I, st):
        U = I.U
        W = dm.World(I, st, initialized=Conc(True))
        ph = st.heap[W.private.oid]
        R = I.alloc_dict(st, keys=U.fresh_seq("linked_names"), vals=z3.Const("links", z3.ArraySort(vm.V, vm.V)))
        A = I.alloc_dict(st, keys=U.fresh_seq("async_linked_names"), vals=z3.Const("async_links", z3.ArraySort(vm.V, vm.V)))
        ph.fields["refs"], ph.fields["async_refs"] = R, A
        k = U.fresh("some_name")
        st.pc.append(vm.ty(k) == vm.TAG["str"])
        kw = I.alloc_dict(st, keys=U.fresh_seq("keyword_names"), vals=z3.Const("keyword_values", z3.ArraySort(vm.V, vm.V)))
        holder.update({"k": k, "R": R, "A": A})
        fv = I.bound_method(W.param, I.src.find_method("Parameters", "update"))
        args = []
        given = z3.Contains(st.heap[kw.oid].keys, z3.Unit(k))
        if with_arg:
            arg = I.alloc_dict(st, keys=U.fresh_seq("mapping_names"), vals=z3.Const("mapping_values", z3.ArraySort(vm.V, vm.V)))
            args = [arg]
            given = z3.Or(given, z3.Contains(st.heap[arg.oid].keys, z3.Unit(k)))
        return fv, args, {"$symbolic_kwargs": kw}, {"given": given, "symbols": {}}

    def refs_of(st):
        r = st.env.get("refs")
        if not (isinstance(r, Ref) and st.heap[r.oid].kind == "dict"):
            raise OutOfReach("`refs` is no longer one dict filled in place")
        return st.heap[r.oid]

    def expected(I, st, h, on):
        k = holder["k"]
        R, A = st.heap[holder["R"].oid], st.heap[holder["A"].oid]
        inR, inA = z3.Contains(R.keys, z3.Unit(k)), z3.Contains(A.keys, z3.Unit(k))
        has = z3.Contains(h.keys, z3.Unit(k))
        return z3.And(has == z3.And(on, z3.Or(inR, inA)),
                      z3.Implies(has, z3.Select(h.vals, k) == z3.If(inR, z3.Select(R.vals, k), z3.Select(A.vals, k))))

    def inv(I, st, pre):
        return expected(I, st, refs_of(st), z3.Contains(pre.seq, z3.Unit(holder["k"])))

    def havoc(I, st):
        h = refs_of(st)
        h.keys = I.U.fresh_seq("restored_link_names")
        h.vals = z3.Const("restored_links!%d" % I.new_oid(), z3.ArraySort(vm.V, vm.V))
        h.ckeys = None
        h.fields.pop("$entries", None)
        for f in [f for f in h.fields if isinstance(f, tuple)]:
            h.fields.pop(f)

    def post(I, info, st, oc):
        if isinstance(oc, Raise):
            return [("does-not-raise", z3.BoolVal(False))]
        r = st.ghost.get("restorer_refs")
        if not (isinstance(r, Ref) and st.heap[r.oid].kind == "dict"):
            return [("the restorer is handed the links to re-establish", z3.BoolVal(False))]
        return [("the restorer is handed the reference of every updated name that is linked — positional mapping and keywords alike",
                 expected(I, st, st.heap[r.oid], info["given"]))]
    loops = {("Parameters.update", "params"): LoopSpec("params", inv=inv, heap=havoc, name="links-of-the-updated-names")}
    c = FunctionContract("%s:Parameters.update" % MOD, PROP, setup, post, configure=configure, loops=loops,
                         name="Parameters.update[%s]" % ("mapping + keywords" if with_arg else "keywords"))
    c.static_replay = UPDATE_CTX_REPLAY
    c.static_witness = "update contexts called with keywords, a mapping, pairs, and both mixed, overriding a linked parameter"
    return c


_c08_base2 = contracts


def contracts():
    return _c08_base2() + [update_refs_contract(False), update_refs_contract(True)]


# resolve_value on a container of any length resolves every item (nested_refs containers; verified for C09)
_c08_base3 = contracts


def contracts():
    from contracts import c09 as _c09
    c = _c09.resolve_value_container_contract("list")
    c.prop = "C08"
    return _c08_base3() + [c]


# ---------------------------------------------------------------------------------------------
# param.bind: every dependency of a function given as argument stays a dependency of the result
# (the generated keyword names must not collide) — concrete probe, not a proof
# ---------------------------------------------------------------------------------------------
BIND_KEYS_REPLAY = '''import sys, os, itertools
sys.path.insert(0, os.environ.get('PYVC_REPO', '/repo'))
import param
from param.parameterized import resolve_ref
class S(param.Parameterized):
    x = param.Number(default=0)
    y = param.Number(default=0)
class T(param.Parameterized):
    t = param.Number(default=0, allow_refs=True)
bad = []
def inner_fns(a, b):
    add = lambda u=0, v=0, arg0=0, arg1=0, x=0: u + v + arg0 + arg1 + x
    yield 'bind(add, a.x, b.x)', param.bind(add, a.param.x, b.param.x)
    yield 'bind(add, u=a.x, v=b.x)', param.bind(add, u=a.param.x, v=b.param.x)
    yield 'depends(a.x, arg0=b.x)', param.depends(a.param.x, arg0=b.param.x)(lambda u, arg0=0: u + arg0)
    yield 'depends(a.x, b.x, arg1=a.y)', param.depends(a.param.x, b.param.x, arg1=a.param.y)(lambda u, v, arg1=0: u + v + arg1)
    yield 'depends(a.x, x=b.x)', param.depends(a.param.x, x=b.param.x)(lambda u, x=0: u + x)
for how in ('positional', 'keyword', 'two keywords'):
    for i in range(5):
        a, b = S(x=1, y=100), S(x=2, y=200)
        label, inner = list(inner_fns(a, b))[i]
        if how == 'positional':
            outer = param.bind(lambda s: s * 10, inner)
        elif how == 'keyword':
            outer = param.bind(lambda s=0: s * 10, s=inner)
        else:
            label2, inner2 = list(inner_fns(b, a))[i]
            outer = param.bind(lambda s=0, s_arg=0: (s + s_arg) * 10, s=inner, s_arg=inner2)
        want_deps = set(map(id, resolve_ref(inner)))
        got_deps = set(map(id, resolve_ref(outer)))
        if not want_deps <= got_deps:
            bad.append('bind(f, <%s> by %s): %d of the %d parameters the argument depends on are not dependencies of the result'
                       % (label, how, len(want_deps - got_deps), len(want_deps)))
            continue
        t = T(t=outer)
        for src, nm, val in ((a, 'x', 5), (b, 'x', 7), (a, 'y', 11), (b, 'x', 1), (a, 'x', 2)):
            setattr(src, nm, val)
            want = outer()
            if t.t != want:
                bad.append('after %s=%r the parameter linked to bind(f, <%s> by %s) holds %r, the function gives %r'
                           % (nm, val, label, how, t.t, want))
                break
if bad:
    print('REPRODUCED: ' + bad[0]); sys.exit(1)
print('not reproduced')
'''

PROBES = [("bind keeps every dependency of a function argument", BIND_KEYS_REPLAY)]


NESTED_AND_TEMP_REPLAY = '''import sys, os, itertools
sys.path.insert(0, os.environ.get('PYVC_REPO', '/repo'))
import param
bad = []
class S(param.Parameterized):
    x = param.Number(1)
class T(param.Parameterized):
    c = param.List([], allow_refs=True)                      # nested_refs off on the class
    d = param.Dict({}, allow_refs=True, nested_refs=True)    # on at class level
    p = param.Number(0, allow_refs=True)
# nested_refs switched on for ONE instance
s1, s2 = S(x=1), S(x=2)
t = T()
t.param.c.nested_refs = True
t.c = [s1.param.x, 10, s2.param.x]
t.d = {'k': s1.param.x}
if t.c != [1, 10, 2]:
    bad.append('instance-level nested_refs=True: the container holds %r right after the assignment' % (t.c,))
s1.x = 5
if t.c != [5, 10, 2] or t.d != {'k': 5}:
    bad.append('instance-level nested_refs=True on c (class-level on d): after the source changed c == %r, d == %r' % (t.c, t.d))
s2.x = 7
if t.c != [5, 10, 7]:
    bad.append('instance-level nested_refs=True: after the second source changed c == %r' % (t.c,))
# an update context whose TEMPORARY value is itself a reference, or whose body re-links: the original link is back afterwards
for how in ('temporary reference', 'relink in body', 'temporary plain', 'temporary reference by mapping'):
    a, b = S(x=1), S(x=100)
    t = T(p=a.param.x)
    if how == 'temporary reference':
        ctx = t.param.update(p=b.param.x)
    elif how == 'temporary reference by mapping':
        ctx = t.param.update({'p': b.param.x})
    else:
        ctx = t.param.update(p=50)
    with ctx:
        if how == 'relink in body':
            t.p = b.param.x
        inside = t.p
    if t.p != 1:
        bad.append('update context (%s): after the block p == %r, the original source holds 1' % (how, t.p))
    a.x = 3
    if t.p != 3:
        bad.append('update context (%s): after the block p no longer follows its original source (p == %r, source == 3)' % (how, t.p))
    b.x = 200
    if t.p != 3:
        bad.append('update context (%s): after the block the temporary source still drives p (p == %r)' % (how, t.p))
if bad:
    print('REPRODUCED: ' + bad[0]); sys.exit(1)
print('NOT-REPRODUCED'); sys.exit(0)
'''

PROBES = PROBES + [("instance-level nested_refs and temporary references in update contexts", NESTED_AND_TEMP_REPLAY)]


# ---------------------------------------------------------------------------------------------
# Parameters._sync_refs — one source change is delivered to EVERY link that depends on it
# (two links on one object; dependencies, values and events arbitrary)
# ---------------------------------------------------------------------------------------------
def sync_refs_contract(n_links=2):
    """`_sync_refs(event)` on an object with n links: `update` is called exactly once, with exactly the
    links whose dependencies contain the changed (owner, name) and whose reference yields a value —
    a reference that yields nothing (Skip raised or returned, Undefined) only leaves ITS link alone."""
    holder = {}
    hit_f = z3.Function("depends_on_event", vm.V, vm.V, z3.BoolSort())   # (deps, event)
    val_f = z3.Function("resolve_value_of", vm.V, vm.V)
    skips_f = z3.Function("reference_raises_Skip", vm.V, z3.BoolSort())

    def configure(I):
        I.sym_fields = {"nested_refs", "owner", "name", "obj"}

        def getitem(I, st, fv, args, kwargs, ctx):
            p = param_of(I.term(args[0]))
            I.U.well_typed(p)
            return [(st, Sym(p))]
        I.contracts["Parameters.__getitem__"] = getitem

        def resolve_ref(I, st, fv, args, kwargs, ctx):
            # some dependencies: one symbolic dependency per link (owner / name arbitrary)
            d = Sym(I.U.fresh("dep"))
            st.ghost["deps"] = st.ghost.get("deps", []) + [(I.term(args[0]), d.t)]
            flag = args[1] if len(args) > 1 else kwargs.get("recursive", Conc(False))
            st.ghost["flags"] = st.ghost.get("flags", []) + [(I.term(args[0]), I.term(flag))]
            return [(st, I.make_list(st, [d]))]
        I.contracts["resolve_ref"] = resolve_ref

        def resolve_value(I, st, fv, args, kwargs, ctx):
            r = I.term(args[0])
            v = val_f(r)
            I.U.well_typed(v)
            flag = args[1] if len(args) > 1 else kwargs.get("recursive", Conc(False))
            st.ghost["flags"] = st.ghost.get("flags", []) + [(r, I.term(flag))]
            out = []
            for (q, b) in I.branch(st, skips_f(r)):
                out.append((q, Raise("Skip", origin="reference")) if b else (q, Sym(v)))
            return out
        I.contracts["resolve_value"] = resolve_value
        I.lib["inspect.isgeneratorfunction"] = lambda I, st, fv, args, kwargs, ctx: [(st, Conc(False))]
        I.contracts["iscoroutinefunction"] = lambda I, st, fv, args, kwargs, ctx: [(st, Conc(False))]

        def update(I, st, fv, args, kwargs, ctx):
            st.ghost["updates"] = st.ghost.get("updates", []) + [args[0]]
            q = st.fork()
            return [(st, Conc(None)), (q, Raise("$User", origin="update"))]
        I.contracts["Parameters.update"] = update

        def mgr(name):
            # the two managers around the update are verified by their own contracts (C14, C08/_syncing):
            # here they are scopes that run their body
            def h(I, s, item, fv, ce, st, ctx):
                st.ghost["managers"] = st.ghost.get("managers", []) + [name]
                return I.exec_block(s.body, st, ctx)
            return h
        I.contracts["with:edit_constant"] = mgr("edit_constant")
        I.contracts["with:_syncing"] = mgr("_syncing")

    def setup(I, st):
        U = I.U
        W = dm.World(I, st, initialized=Conc(True))
        holder["W"] = W
        ph = st.heap[W.private.oid]
        refs = I.alloc_dict(st)
        rs = []
        for k in range(n_links):
            r = Sym(U.fresh("ref%d" % k))
            rs.append(r)
            I.dict_store(st, refs, Conc("p%d" % k), r)
        ph.fields["refs"] = refs
        ph.init["refs"] = refs
        ev = Sym(U.fresh("event"))
        st.pc.append(vm.ty(z3.Select(sym_field(I, st, "name"), ev.t)) == vm.TAG["str"])
        fv = I.bound_method(W.param, I.src.find_method("Parameters", "_sync_refs"))
        return fv, [ev], {}, {"refs": rs, "event": ev, "symbols": {}}

    def post(I, info, st, oc):
        U = I.U
        ups = st.ghost.get("updates", [])
        out = []
        if isinstance(oc, Raise):
            out.append(("only an exception of the update itself escapes (a reference that yields nothing does not abort the sync)",
                        z3.BoolVal(oc.cls == "$User")))
            return out
        out.append(("update called exactly once", z3.BoolVal(len(ups) == 1)))
        if len(ups) != 1:
            return out
        d = I.known_dict(st, ups[0])
        if d is None:
            return out + [("update receives a mapping of link names", z3.BoolVal(False))]
        owner, name, obj = sym_field(I, st, "owner"), sym_field(I, st, "name"), sym_field(I, st, "obj")
        nested = sym_field(I, st, "nested_refs")
        ev = info["event"].t
        deps = dict((str(r), (r, d_)) for (r, d_) in st.ghost.get("deps", []))
        for k, r in enumerate(info["refs"]):
            key = "p%d" % k
            if str(r.t) not in deps:
                out.append(("the dependencies of link %d are looked up" % k, z3.BoolVal(False)))
                continue
            dep = deps[str(r.t)][1]
            hit = z3.And(z3.Select(owner, dep) == z3.Select(obj, ev),
                         U.py_eq(z3.Select(name, dep), z3.Select(name, ev)))
            yields = z3.And(z3.Not(skips_f(r.t)), val_f(r.t) != U.cls_const("Skip"), val_f(r.t) != U.UNDEF)
            out.append(("link %d is delivered <=> it depends on the changed parameter and its reference yields a value "
                        "(whatever the other link's reference does)" % k, z3.BoolVal(key in d) == z3.And(hit, yields)))
            if key in d:
                out.append(("link %d receives what its reference resolves to" % k, I.term(d[key]) == val_f(r.t)))
        for (r, fl) in st.ghost.get("flags", []):
            for k, rr in enumerate(info["refs"]):
                if str(rr.t) == str(r):
                    out.append(("link %d is resolved with that parameter's own nested_refs flag" % k,
                                fl == z3.Select(nested, param_of(U.lit("p%d" % k)))))
        out.append(("nothing but the links is updated", z3.BoolVal(set(d) <= {"p%d" % k for k in range(n_links)})))
        out.append(("the update runs inside edit_constant and _syncing", z3.BoolVal(st.ghost.get("managers") == ["edit_constant", "_syncing"])))
        return out
    return FunctionContract("%s:Parameters._sync_refs" % MOD, PROP, setup, post, configure=configure,
                            name="Parameters._sync_refs[%d links, one event]" % n_links)


_c08_base4 = contracts


def contracts():
    return _c08_base4() + [sync_refs_contract(2), sync_refs_contract(3)]
