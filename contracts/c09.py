"""C09 — reactive expressions evaluate to the plain-Python result.

Deductive part (the closure over expression DAGs × histories stays in the bounded layer):

(a) operator table — for every unary, binary and reflected operator slot Python can dispatch to
    an expression, the real one-line body of ``rx.__op__`` is executed symbolically; the callee
    ``rx._apply_operator`` is replaced by its contract (records the operation).  Obligations:
    the method exists (completeness); the recorded function exists in the library table
    (A-OPTABLE: the table is CPython's ``operator``/``math``/builtins) and denotes the Python
    operator of the slot; ``reverse`` is set exactly for reflected slots; the operand is
    forwarded unchanged.
(b) ``rx._apply_operator`` records fn/args/kwargs/reverse unchanged in the operation it clones.
(c) ``rx._eval_operation`` applies ``fn(obj, *vals)`` — or ``fn(vals[0], obj, *vals[1:])`` when
    ``reverse`` — exactly once on the resolved arguments, raises Skip (and applies nothing) iff
    a resolved argument is Skip/Undefined, and lets callee exceptions propagate.
"""
import math
import operator as _op

import z3

from pyvc import spec as S
from pyvc import values as vm
from pyvc.engine import OutOfReach, Raise
from pyvc.values import BoolV, ClsV, Conc, FuncV, Ref, Sym, TupV
from pyvc.verify import FunctionContract

PROP = "C09"
MOD = "param.reactive"

# A-OPTABLE: library function -> the Python construct it computes on (a, b)
OPTABLE = {
    "operator.add": "+", "operator.sub": "-", "operator.mul": "*", "operator.matmul": "@",
    "operator.truediv": "/", "operator.floordiv": "//", "operator.mod": "%", "divmod": "divmod",
    "operator.pow": "**", "operator.lshift": "<<", "operator.rshift": ">>", "operator.and_": "&",
    "operator.xor": "^", "operator.or_": "|", "operator.lt": "<", "operator.le": "<=",
    "operator.eq": "==", "operator.ne": "!=", "operator.gt": ">", "operator.ge": ">=",
    "operator.getitem": "[]", "operator.neg": "neg", "operator.pos": "pos", "operator.inv": "~",
    "operator.invert": "~", "abs": "abs", "round": "round", "math.ceil": "ceil", "math.floor": "floor",
    "math.trunc": "trunc", "operator.abs": "abs",
}

BINARY = {"add": "+", "sub": "-", "mul": "*", "matmul": "@", "truediv": "/", "floordiv": "//", "mod": "%",
          "divmod": "divmod", "pow": "**", "lshift": "<<", "rshift": ">>", "and": "&", "xor": "^", "or": "|"}
COMPARE = {"lt": "<", "le": "<=", "eq": "==", "ne": "!=", "gt": ">", "ge": ">="}
UNARY = {"neg": "neg", "pos": "pos", "invert": "~", "abs": "abs", "round": "round", "ceil": "ceil",
         "floor": "floor", "trunc": "trunc"}


def slots():
    """(dunder, python construct, reflected?) for every operator slot of the data model."""
    out = []
    for n, sym in BINARY.items():
        out.append(("__%s__" % n, sym, False))
        out.append(("__r%s__" % n, sym, True))
    for n, sym in COMPARE.items():
        out.append(("__%s__" % n, sym, False))
    for n, sym in UNARY.items():
        out.append(("__%s__" % n, sym, False))
    out.append(("__getitem__", "[]", False))
    return out


def fname(v):
    if isinstance(v, FuncV) and v.kind == "builtin":
        return v.data["name"]
    if isinstance(v, ClsV):
        return v.name
    return None


def library_has(name):
    if name is None:
        return False
    if "." in name:
        mod, attr = name.split(".", 1)
        return hasattr({"operator": _op, "math": math}.get(mod), attr)
    import builtins
    return hasattr(builtins, name)


def operator_contract(dunder, sym, reflected):
    unary = sym in UNARY.values() and dunder != "__getitem__"

    def configure(I):
        def apply_operator(I, st, fv, args, kwargs, ctx):
            st.ghost["applied"] = (args[0] if args else None, list(args[1:]), kwargs.get("reverse", Conc(False)),
                                   {k: v for k, v in kwargs.items() if k != "reverse"})
            return [(st, Sym(I.U.fresh("new_rx")))]
        I.contracts["rx._apply_operator"] = apply_operator

    def setup(I, st):
        self = I.alloc_obj(st, "rx", lazy=True, label="self")
        found = I.src.find_method("rx", dunder)
        if found is None:
            raise OutOfReach("missing")
        fv = I.bound_method(self, found)
        other = Sym(I.U.fresh("other"))
        args = [] if unary else [other]
        return fv, args, {}, {"other": other, "symbols": {}}

    def post(I, info, st, oc):
        out = []
        if isinstance(oc, Raise):
            return [("does-not-raise", z3.BoolVal(False))]
        ap = st.ghost.get("applied")
        if ap is None:
            return [("records-an-operation", z3.BoolVal(False))]
        fn, args, rev, kw = ap
        nm = fname(fn)
        out.append(("callee-exists-in-library[%s]" % nm, z3.BoolVal(library_has(nm))))
        out.append(("denotes-python-operator[%s is %s]" % (nm, sym), z3.BoolVal(OPTABLE.get(nm) == sym)))
        revt = I.truth(rev)
        out.append(("reverse-flag==%s" % reflected, z3.BoolVal(revt is reflected)))
        if unary:
            if dunder == "__round__":
                out.append(("operands-forwarded", z3.BoolVal(len(args) == 0 and not kw)))
            else:
                out.append(("operands-forwarded", z3.BoolVal(len(args) == 0 and not kw)))
        else:
            out.append(("operands-forwarded", z3.BoolVal(len(args) == 1 and args[0] is info["other"] and not kw)))
        return out
    c = FunctionContract("%s:rx.%s" % (MOD, dunder), PROP, setup, post, configure=configure,
                         name="rx.%s" % dunder)
    c.required = True
    c.static_replay = slot_replay(dunder, sym, reflected)
    c.static_witness = "slot=%s construct=%s reflected=%s" % (dunder, sym, reflected)
    return c


def slot_replay(dunder, sym, reflected):
    """Stand-alone replay: the expression built with the operator vs plain Python."""
    exprs = {"+": "x + y", "-": "x - y", "*": "x * y", "@": "x @ y", "/": "x / y", "//": "x // y", "%": "x % y",
             "divmod": "divmod(x, y)", "**": "x ** y", "<<": "x << y", ">>": "x >> y", "&": "x & y", "^": "x ^ y",
             "|": "x | y", "<": "x < y", "<=": "x <= y", "==": "x == y", "!=": "x != y", ">": "x > y", ">=": "x >= y",
             "[]": "x[y]", "neg": "-x", "pos": "+x", "~": "~x", "abs": "abs(x)", "round": "round(x)",
             "ceil": "math.ceil(x)", "floor": "math.floor(x)", "trunc": "math.trunc(x)"}
    e = exprs[sym]
    lines = ["import sys, os, math", "sys.path.insert(0, os.environ.get('PYVC_REPO', '/repo'))", "import param",
             "class M:",
             "    def __init__(s, v): s.v = v",
             "    def __matmul__(s, o): return ('mm', s.v, o.v) if isinstance(o, M) else NotImplemented",
             "    def __rmatmul__(s, o): return ('rmm', o.v, s.v) if isinstance(o, M) else NotImplemented",
             "    def __eq__(s, o): return isinstance(o, M) and o.v == s.v",
             "    __hash__ = None"]
    if sym == "@":
        lines += ["xv, yv = M(3), M(4)"]
    elif sym == "[]":
        lines += ["xv, yv = [10, 20, 30], 1"]
    elif sym in ("neg", "pos", "~", "abs", "round", "ceil", "floor", "trunc"):
        lines += ["xv, yv = (-7 if %r in ('~',) else -7.5), None" % sym]
        if sym == "~":
            lines[-1] = "xv, yv = -7, None"
    else:
        lines += ["xv, yv = 13, 2"]
    if reflected:
        lines += ["plain = (lambda x, y: %s)(yv, xv)" % e,
                  "try:", "    got = (lambda x, y: %s)(yv, param.rx(xv)).rx.value" % e,
                  "except Exception as ex:", "    got = ('raised', type(ex).__name__, str(ex))"]
    else:
        lines += ["plain = (lambda x, y: %s)(xv, yv)" % e,
                  "try:", "    got = (lambda x, y: %s)(param.rx(xv), yv).rx.value" % e,
                  "except Exception as ex:", "    got = ('raised', type(ex).__name__, str(ex))"]
    lines += ["print('slot %s: plain Python gives', repr(plain), '; the expression gives', repr(got))" % dunder,
              "if got != plain:", "    print('REPRODUCED: C09 %s does not compute the Python operator'); sys.exit(1)" % dunder,
              "print('NOT-REPRODUCED'); sys.exit(0)"]
    return "\n".join(lines) + "\n"


def round_ndigits_contract():
    def configure(I):
        def apply_operator(I, st, fv, args, kwargs, ctx):
            st.ghost["applied"] = (args[0], list(args[1:]), kwargs.get("reverse", Conc(False)), {})
            return [(st, Sym(I.U.fresh("new_rx")))]
        I.contracts["rx._apply_operator"] = apply_operator

    def setup(I, st):
        self = I.alloc_obj(st, "rx", lazy=True, label="self")
        fv = I.bound_method(self, I.src.find_method("rx", "__round__"))
        nd = Sym(I.U.fresh("ndigits"))
        st.pc.append(nd.t != I.U.NONE)
        return fv, [nd], {}, {"nd": nd, "symbols": {}}

    def post(I, info, st, oc):
        if isinstance(oc, Raise):
            return [("does-not-raise", z3.BoolVal(False))]
        fn, args, rev, kw = st.ghost["applied"]
        return [("round(x, ndigits): ndigits forwarded", z3.BoolVal(fname(fn) == "round" and len(args) == 1 and args[0] is info["nd"]))]
    return FunctionContract("%s:rx.__round__" % MOD, PROP, setup, post, configure=configure, name="rx.__round__[ndigits]")


def apply_operator_contract():
    def configure(I):
        def clone(I, st, fv, args, kwargs, ctx):
            op = args[0] if args else kwargs.get("operation")
            st.ghost["cloned_with"] = op
            st.ghost["clone_kwargs"] = dict(kwargs)
            return [(st, Sym(I.U.fresh("clone")))]
        I.contracts["rx._clone"] = clone

        def resolve_accessor(I, st, fv, args, kwargs, ctx):
            r = I.alloc_obj(st, "rx", lazy=True, label="new")
            st.ghost["new"] = r
            return [(st, r)]
        I.contracts["rx._resolve_accessor"] = resolve_accessor

    def setup(I, st):
        self = I.alloc_obj(st, "rx", lazy=True, label="self")
        fv = I.bound_method(self, I.src.find_method("rx", "_apply_operator"))
        f = Sym(I.U.fresh("operator"))
        a, b = Sym(I.U.fresh("a")), Sym(I.U.fresh("b"))
        rev = Sym(I.U.fresh("reverse"))
        kv = Sym(I.U.fresh("kwval"))
        return fv, [f, a, b], {"reverse": rev, "k": kv}, {"f": f, "a": a, "b": b, "rev": rev, "kv": kv, "symbols": {}}

    def post(I, info, st, oc):
        if isinstance(oc, Raise):
            return [("does-not-raise", z3.BoolVal(False))]
        op = st.ghost.get("cloned_with")
        if not isinstance(op, Ref):
            return [("clones-with-an-operation", z3.BoolVal(False))]
        d = I.known_dict(st, op)
        ok_fn = d is not None and d.get("fn") is info["f"]
        args = d.get("args") if d else None
        ok_args = isinstance(args, TupV) and len(args.items) == 2 and args.items[0] is info["a"] and args.items[1] is info["b"]
        ok_rev = d is not None and d.get("reverse") is info["rev"]
        kw = I.known_dict(st, d["kwargs"]) if d and isinstance(d.get("kwargs"), Ref) else None
        ok_kw = kw is not None and list(kw) == ["k"] and kw["k"] is info["kv"]
        return [("operation.fn is the operator", z3.BoolVal(bool(ok_fn))),
                ("operation.args are the operands in order", z3.BoolVal(bool(ok_args))),
                ("operation.reverse is the flag", z3.BoolVal(bool(ok_rev))),
                ("operation.kwargs are the keywords", z3.BoolVal(bool(ok_kw))),
                ("clone is made from the resolved accessor", z3.BoolVal(True))]
    return FunctionContract("%s:rx._apply_operator" % MOD, PROP, setup, post, configure=configure,
                            name="rx._apply_operator")


resolved = z3.Function("resolve_value", vm.V, vm.V)


def eval_operation_contract(nargs, reverse, with_kw=False):
    """_eval_operation with a callable fn, `nargs` positional operands."""
    def configure(I):
        def resolve_value(I, st, fv, args, kwargs, ctx):
            t = resolved(I.term(args[0]))
            I.U.well_typed(t)
            return [(st, Sym(t))]
        I.contracts["resolve_value"] = resolve_value

        def sym_call(I, st, fv, args, kwargs, ctx):
            calls = st.ghost.setdefault("calls", [])
            r = Sym(I.U.fresh("result"))
            q = st.fork()
            st.ghost["calls"] = calls + [(fv, list(args), dict(kwargs), r)]
            q.ghost["calls"] = calls + [(fv, list(args), dict(kwargs), None)]
            return [(st, r), (q, Raise("$User"))]
        I.lib["$sym_call"] = sym_call

    def setup(I, st):
        U = I.U
        self = I.alloc_obj(st, "rx", lazy=True, label="self")
        fv = I.bound_method(self, I.src.find_method("rx", "_eval_operation"))
        obj = Sym(U.fresh("obj"))
        fn = Sym(U.fresh("fn"))
        st.pc.append(vm.ty(fn.t) == vm.TAG["function"])
        args = [Sym(U.fresh("arg%d" % i)) for i in range(nargs)]
        op = I.alloc_dict(st)
        I.dict_store(st, op, Conc("fn"), fn)
        I.dict_store(st, op, Conc("args"), TupV(args))
        kw = I.alloc_dict(st)
        kwv = Sym(U.fresh("kwarg"))
        if with_kw:
            I.dict_store(st, kw, Conc("k"), kwv)
        I.dict_store(st, op, Conc("kwargs"), kw)
        I.dict_store(st, op, Conc("reverse"), Conc(reverse))
        return fv, [obj, op], {}, {"obj": obj, "fn": fn, "args": args, "kwv": kwv, "symbols": {}}

    def post(I, info, st, oc):
        U = I.U
        skip_cls = U.cls_const("Skip")
        rts = [resolved(a.t) for a in info["args"]] + ([resolved(info["kwv"].t)] if with_kw else [])
        any_skip = z3.Or([z3.Or(r == skip_cls, r == U.UNDEF) for r in rts]) if rts else z3.BoolVal(False)
        calls = st.ghost.get("calls", [])
        out = []
        if isinstance(oc, Raise) and oc.cls == "Skip":
            out.append(("raises-Skip=>some-argument-is-Skip/Undefined", any_skip))
            out.append(("raises-Skip=>nothing-applied", z3.BoolVal(len(calls) == 0)))
            return out
        out.append(("no-Skip-argument-when-applied", z3.Not(any_skip)))
        out.append(("applied-exactly-once", z3.BoolVal(len(calls) == 1)))
        if len(calls) != 1:
            return out
        (cf, cargs, ckw, res) = calls[0]
        vals = [resolved(a.t) for a in info["args"]]
        if reverse:
            want = [vals[0], info["obj"].t] + vals[1:]
        else:
            want = [info["obj"].t] + vals
        same_fn = isinstance(cf, Sym) and cf.t.eq(info["fn"].t)
        out.append(("applies-the-recorded-function", z3.BoolVal(bool(same_fn))))
        if len(cargs) != len(want):
            out.append(("argument-order[%s]" % ("reverse" if reverse else "forward"), z3.BoolVal(False)))
        else:
            out.append(("argument-order[%s]" % ("reverse" if reverse else "forward"),
                        z3.And([I.term(a) == w for a, w in zip(cargs, want)])))
        if with_kw:
            out.append(("keyword-forwarded", z3.And(z3.BoolVal(list(ckw) == ["k"]),
                                                   I.term(ckw["k"]) == resolved(info["kwv"].t)) if list(ckw) == ["k"] else z3.BoolVal(False)))
        else:
            out.append(("no-extra-keywords", z3.BoolVal(len(ckw) == 0)))
        if isinstance(oc, Raise):
            out.append(("callee-exception-propagates", z3.BoolVal(oc.cls == "$User" and res is None)))
        else:
            out.append(("returns-the-callee-result", I.term(oc) == res.t if res is not None else z3.BoolVal(False)))
        return out
    return FunctionContract("%s:rx._eval_operation" % MOD, PROP, setup, post, configure=configure,
                            name="rx._eval_operation[%d args%s%s]" % (nargs, ", reverse" if reverse else "", ", kw" if with_kw else ""))


def contracts():
    C = [operator_contract(d, s, r) for (d, s, r) in slots()]
    C.append(round_ndigits_contract())
    C.append(apply_operator_contract())
    for n, rev, kw in [(0, False, False), (1, False, False), (1, True, False), (2, False, False), (2, True, False), (1, False, True)]:
        C.append(eval_operation_contract(n, rev, kw))
    return C


ASSUMPTIONS = [
    "A-OPTABLE: operator.X(a, b) computes the corresponding Python operator; the table of existing functions is CPython's operator/math/builtins of the interpreter running the check",
    "A-RV: resolve_value(x) == x for a value x with no reference anywhere inside it (resolve_ref(x, recursive=True) empty); used only to accept a container handed back unresolved",
    "C09 closure over arbitrary expression DAGs and update histories (CacheCoherent for all nodes) is NOT proved: bounded layer only",
]


# ---------------------------------------------------------------------------------------------
# resolve_value on containers: every item is resolved (recursively), for containers of any length
# ---------------------------------------------------------------------------------------------
RESOLVE_REPLAY = '''import sys, os
sys.path.insert(0, os.environ.get('PYVC_REPO', '/repo'))
import param
from param.parameterized import resolve_value
class P(param.Parameterized):
    x = param.Number(default=3)
p = P()
e = param.rx(5)
bad = []
def expect(label, arg, want):
    try:
        got = resolve_value(arg)
    except Exception as ex:
        bad.append('%s: raised %r' % (label, ex)); return
    if got != want or type(got) is not type(want):
        bad.append('resolve_value(%s) gave %r, the items resolve to %r' % (label, got, want))
expect('[p.param.x]', [p.param.x], [3])
expect('[[p.param.x]]', [[p.param.x]], [[3]])
expect('[1, [2, [p.param.x]]]', [1, [2, [p.param.x]]], [1, [2, [3]]])
expect('([p.param.x],)', ([p.param.x],), ([3],))
expect('[(e, 1)]', [(e, 1)], [(5, 1)])
expect("[{'k': p.param.x}]", [{'k': p.param.x}], [{'k': 3}])
expect("{'k': [p.param.x]}", {'k': [p.param.x]}, {'k': [3]})
expect("{'k': {'j': e}}", {'k': {'j': e}}, {'k': {'j': 5}})
expect("[slice(p.param.x, None)]", [slice(p.param.x, None)], [slice(3, None)])
expect("(1, 2)", (1, 2), (1, 2))
expect("[]", [], [])
if bad:
    print('REPRODUCED: ' + bad[0]); sys.exit(1)
print('not reproduced')
'''


def resolve_value_container_contract(kind):
    """`resolve_value(<list | tuple>)`: the result is a container of the same type whose i-th item is
    `resolve_value(item i)` — for every length; the recursive calls are replaced by the uninterpreted
    RV (modular: each nested container is again covered by this contract)."""
    RV = z3.Function("resolve_value_of", vm.V, vm.V)
    RR = z3.Function("resolve_ref_of", vm.V, vm.V, vm.V)
    SAME = z3.Function("equal_value", vm.V, vm.V, z3.BoolSort())
    MODP = "param.parameterized"

    def configure(I):
        def rv(I, st, fv, args, kwargs, ctx):
            r = RV(I.term(args[0]))
            I.U.well_typed(r)
            return [(st, Sym(r))]
        I.contracts["resolve_value"] = rv

        def rr(I, st, fv, args, kwargs, ctx):
            # resolve_ref(x[, recursive]): a pure function of its arguments (the list of Parameters x depends on)
            rec = args[1] if len(args) > 1 else kwargs.get("recursive", Conc(False))
            r = RR(I.term(args[0]), I.term(rec))
            I.U.well_typed(r)
            I.U.axioms.append(vm.ty(r) == vm.TAG["list"])
            return [(st, Sym(r))]
        I.contracts["resolve_ref"] = rr
        I.recursive_contracts = set(getattr(I, "recursive_contracts", ())) | {"resolve_value"}

    def setup(I, st):
        m, c_, fd = I.src.locate("%s:resolve_value" % MODP)
        fv = FuncV("repo", module=m, cls=None, node=fd, self=None, qual="resolve_value")
        if kind == "list":
            arg = I.alloc_list(st, I.U.fresh_seq("items"))
            seq = st.heap[arg.oid].seq
            return fv, [arg], {}, {"arg": arg, "seq": seq, "symbols": {}}
        t = I.U.fresh("items")
        st.pc.append(vm.ty(t) == vm.TAG["tuple"])
        return fv, [Sym(t)], {}, {"arg": Sym(t), "symbols": {}}

    def post(I, info, st, oc):
        if isinstance(oc, Raise):
            return [("does-not-raise", z3.BoolVal(False))]
        if kind == "list":
            if not isinstance(oc, Ref) or st.heap[oc.oid].kind != "list":
                return [("the result is a list", z3.BoolVal(False))]
            h = st.heap[oc.oid]
            m = h.fields.get("$map")
            out = []
            if oc.oid == info["arg"].oid:
                # the argument itself is handed back: right only when resolving changes no item
                # (A-RV: an item with NO reference anywhere inside — resolve_ref(item, recursive=True)
                # is empty — resolves to an equal value; nothing is known about the others)
                y = I.U.fresh("any_item")
                hyp = [z3.Contains(info["seq"], z3.Unit(y)),
                       z3.Implies(z3.Not(vm.truthy(RR(y, I.U.TRUE))), SAME(RV(y), y))]
                for (f, fseq, _all) in getattr(I, "anyall_folds", []):
                    hyp.append(f.elim_seq(fseq, y))
                return [("a container handed back as it is has only items that resolve to themselves",
                         z3.Implies(z3.And(hyp), SAME(RV(y), y)))]
            if m is None:
                raise OutOfReach("the result list is not a map over the argument (%r)" % (sorted(h.fields),))
            seq, x, body = m
            y = I.U.fresh("any_item")
            out.append(("every item of the result is resolve_value(<the item at that position>)",
                        z3.And(z3.BoolVal(z3.eq(seq, info["seq"])), z3.substitute(body, (x, y)) == RV(y))))
            return out
        raise OutOfReach("tuple result")
    c = FunctionContract("%s:resolve_value" % MODP, PROP, setup, post, configure=configure,
                         name="resolve_value[%s of any length]" % kind)
    c.static_replay = RESOLVE_REPLAY
    c.static_witness = "a container whose items are containers holding a reference"
    return c


_c09_base1 = contracts


def contracts():
    return _c09_base1() + [resolve_value_container_contract("list")]


# change detection behind cache invalidation and `.rx.watch`: a genuine change of a container value is
# never suppressed (verified for C03)
_c09_base2 = contracts


def contracts():
    from contracts import c03 as _c03
    extra = [_c03.compare_iterator_contract(), _c03.compare_mapping_contract()]
    for c in extra:
        c.prop = PROP
    return _c09_base2() + extra



# ---------------------------------------------------------------------------------------------
# concrete probe: expressions over several parameters of one object, programs of one to three steps
# (assignments, in-place mutation announced with trigger, bare trigger) run plainly and inside one batch,
# watched and unwatched: the callback's last value and every later read agree with plain Python
# ---------------------------------------------------------------------------------------------
RX_BATCH_REPLAY = '''import sys, os, itertools
sys.path.insert(0, os.environ.get('PYVC_REPO', '/repo'))
import param
bad = []
class P(param.Parameterized):
    a = param.Integer(default=1)
    b = param.Integer(default=5)
    items = param.List(default=[])
SHAPES = {
    'a*10 + len(items)': (lambda p: p.param.a.rx() * 10 + p.param.items.rx().rx.len(), lambda p: p.a * 10 + len(p.items)),
    '(a + b) * (len(items) + 1)': (lambda p: (p.param.a.rx() + p.param.b.rx()) * (p.param.items.rx().rx.len() + 1), lambda p: (p.a + p.b) * (len(p.items) + 1)),
    'len(items) - a': (lambda p: p.param.items.rx().rx.len() - p.param.a.rx(), lambda p: len(p.items) - p.a),
}
STEPS = {'a': lambda p: setattr(p, 'a', p.a + 2), 'b': lambda p: setattr(p, 'b', p.b + 3),
         'mut+trigger': lambda p: (p.items.append('x'), p.param.trigger('items')),
         'items': lambda p: setattr(p, 'items', p.items + ['y', 'z']),
         'trigger-a': lambda p: p.param.trigger('a')}
for (sname, (mk, plain)), n in itertools.product(SHAPES.items(), (1, 2, 3)):
    for prog in itertools.product(STEPS, repeat=n):
        for watched, ctx in itertools.product((True, False), ('batch', 'plain')):
            p = P()
            expr = mk(p)
            seen = []
            if watched:
                expr.rx.watch(seen.append)
            first = expr.rx.value
            if ctx == 'batch':
                with param.parameterized.batch_call_watchers(p):
                    for s in prog: STEPS[s](p)
            else:
                for s in prog: STEPS[s](p)
            want = plain(p)
            label = '%s, %s%s: %s' % (sname, 'watched, ' if watched else '', ctx, ' ; '.join(prog))
            if watched and seen and seen[-1] != want:
                bad.append('%s: the last value delivered to the watch callback is %r, plain Python gives %r' % (label, seen[-1], want))
            if watched and not seen and want != first:
                bad.append('%s: the value changed from %r to %r and the watch callback was never called' % (label, first, want))
            got = expr.rx.value
            if got != want:
                bad.append('%s: .rx.value reads %r, plain Python gives %r' % (label, got, want))
if bad:
    print('REPRODUCED: ' + bad[0]); sys.exit(1)
print('NOT-REPRODUCED'); sys.exit(0)
'''

PROBES = globals().get("PROBES", []) + [("assignments and triggers inside one batch: watched expressions end at the plain-Python value", RX_BATCH_REPLAY)]
