"""C10 — the latest assignment wins under every asynchronous completion order.

`async def` bodies (`Parameters._async_ref`, `rx._resolve_async`) are outside the supported subset
of the verifier: the yield-point invariants O1–O3/O5 of DESIGN.md §7 are NOT discharged.  The one
synchronous obligation of the design is: O4 — `Parameters._update_ref(name, ref)` (called for every
new reference and, since the repair of C08-b01, for a plain-value override) cancels the pending task
recorded for `name` and forgets it, whatever the new reference is (contracts/c08.py).  Everything
else is decided by the bounded layer (real event loop, every completion order, n ≤ 3/4)."""
from contracts import c08 as _c08

PROP = "C10"


def contracts():
    from contracts import c02 as _c02
    # synchronous half of "assigning a plain value while a result is pending cancels that reference":
    # the setter calls the unlink step for every accepted plain value of a linked parameter unless
    # that very name is being synced — not depending on other names being synced or on a trigger
    sets = _c02.all_set_contracts(["C10/"])
    for c in sets:
        c.prop = PROP
    return [_c08.update_ref_contract(False), _c08.update_ref_contract(True)] + sets


ASSUMPTIONS = _c08.ASSUMPTIONS + ["async functions are out of reach: yield-point invariants not discharged"]


_c10_base = contracts


def contracts():
    # a reference handed to the constructor is linked (recorded) like one assigned later — otherwise a
    # later plain value cannot cancel it
    from contracts import c12 as _c12
    c = _c12.setup_params_contract(["C08/"])
    c.prop = PROP
    return _c10_base() + [c]

_c10_base2 = contracts


def contracts():
    c = _c08.syncing_contract()
    c.prop = PROP
    return _c10_base2() + [c]
