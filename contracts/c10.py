"""C10 — the latest assignment wins under every asynchronous completion order.

`async def` bodies (`Parameters._async_ref`, `rx._resolve_async`) are outside the supported subset
of the verifier: the yield-point invariants O1–O3/O5 of DESIGN.md §7 are NOT discharged.  The one
synchronous obligation of the design is: O4 — `Parameters._update_ref(name, ref)` (called for every
new reference and, since the repair of C08-b01, for a plain-value override) cancels the pending task
recorded for `name` and forgets it, whatever the new reference is (contracts/c08.py).  Everything
else is decided by the bounded layer (real event loop, every completion order, n ≤ 3/4)."""
from contracts import c08 as _c08

PROP = "C10"


def contracts():
    from contracts import c02 as _c02
    # synchronous half of "assigning a plain value while a result is pending cancels that reference":
    # the setter calls the unlink step for every accepted plain value of a linked parameter unless
    # that very name is being synced — not depending on other names being synced or on a trigger
    sets = _c02.all_set_contracts(["C10/"])
    for c in sets:
        c.prop = PROP
    return [_c08.update_ref_contract(False), _c08.update_ref_contract(True)] + sets


ASSUMPTIONS = _c08.ASSUMPTIONS + ["async functions are out of reach: yield-point invariants not discharged"]


_c10_base = contracts


def contracts():
    # a reference handed to the constructor is linked (recorded) like one assigned later — otherwise a
    # later plain value cannot cancel it
    from contracts import c12 as _c12
    c = _c12.setup_params_contract(["C08/"])
    c.prop = PROP
    return _c10_base() + [c]

_c10_base2 = contracts


def contracts():
    c = _c08.syncing_contract()
    c.prop = PROP
    return _c10_base2() + [c]



# ---------------------------------------------------------------------------------------------
# concrete probe (real event loop): `expr = base.rx.pipe(coroutine function, reactive argument)` — one or two
# updates of the piped input or of the argument while coroutines are pending, every completion order of the
# coroutines that were started: the expression ends at the value of the latest inputs
# ---------------------------------------------------------------------------------------------
PIPE_ARG_REPLAY = '''import sys, os, asyncio, itertools
sys.path.insert(0, os.environ.get('PYVC_REPO', '/repo'))
import param
from param import rx
bad = []
UPDATES = [('f', 3), ('f', 4), ('b', 5), ('b', 6)]
async def scenario(seq, order_idx, watch):
    gates = {}
    started = []
    async def scale(value, factor):
        key = (value, factor, len(started))
        started.append(key)
        gate = gates.setdefault(key, asyncio.Event())
        await gate.wait()
        return value * factor
    base, factor = rx(7), rx(2)
    expr = base.rx.pipe(scale, factor)
    if watch:
        expr.rx.watch()
    else:
        expr.rx.value
    for _ in range(4):
        await asyncio.sleep(0)
    b, f = 7, 2
    for (which, v) in seq:
        if which == 'f':
            factor.rx.value = v; f = v
        else:
            base.rx.value = v; b = v
        if not watch:
            expr.rx.value
        for _ in range(4):
            await asyncio.sleep(0)
    perms = list(itertools.permutations(range(len(started))))
    if order_idx >= len(perms):
        return None
    for i in perms[order_idx]:
        gates[started[i]].set()
        for _ in range(4):
            await asyncio.sleep(0)
    await asyncio.sleep(0.01)
    # anything started late
    for k in list(gates):
        gates[k].set()
    await asyncio.sleep(0.01)
    got = expr.rx.value
    if got != b * f:
        return ('pipe(coroutine, reactive argument)%s: updates %r, completion order %r of the %d started coroutines: the expression ends at %r, the latest inputs give %r'
                % (' watched' if watch else '', seq, perms[order_idx], len(started), got, b * f))
    return False
for n in (1, 2):
    for seq in itertools.permutations(UPDATES, n):
        for watch in (True, False):
            for oi in range(6):
                r = asyncio.run(scenario(seq, oi, watch))
                if r is None:
                    break
                if r:
                    bad.append(r)
if bad:
    print('REPRODUCED: ' + bad[0]); sys.exit(1)
print('NOT-REPRODUCED'); sys.exit(0)
'''

PROBES = globals().get("PROBES", []) + [("pipe(coroutine, reactive argument): the latest inputs win in every completion order", PIPE_ARG_REPLAY)]
