"""C11 — Parameter attributes inherit along the MRO; merged defaults are re-validated.

Deductive part (the constructor-time computed slots): `allow_None` is recomputed from the class's
own declaration (True when the default is None, else the declared value, else the type default) and
`instantiate` from its own declaration (False for read-only parameters).  The per-slot MRO search
of `__param_inheritance` and the re-validation trigger are covered by the bounded layer only."""
import z3

from pyvc import spec as S
from pyvc import values as vm
from pyvc.engine import OutOfReach, Raise
from pyvc.values import BoolV, ClsV, Conc, FuncV, Ref, Sym, TupV
from pyvc.verify import FunctionContract

PROP = "C11"
MOD = "param.parameterized"


def set_allow_none_contract():
    def setup(I, st):
        U = I.U
        self, T = S.param_obj(I, st, "Parameter", {"default": None}, label="self")
        arg = Sym(U.fresh("allow_None_arg"))
        fv = I.bound_method(self, I.src.find_method("Parameter", "_set_allow_None"))
        return fv, [arg], {}, {"self": self, "T": T, "arg": arg.t, "symbols": {"default": T["default"], "allow_None_arg": arg.t}}

    def post(I, info, st, oc):
        U = I.U
        if isinstance(oc, Raise):
            return [("does-not-raise", z3.BoolVal(False))]
        f = st.heap[info["self"].oid].fields
        if "allow_None" not in f:
            return [("sets allow_None", z3.BoolVal(False))]
        got = I.term(f["allow_None"])
        d, a = info["T"]["default"], info["arg"]
        want = z3.If(d == U.NONE, U.TRUE, z3.If(a != U.UNDEF, a, U.FALSE))
        return [("allow_None: True if default is None, else the declared value, else False (the type default)", got == want),
                ("nothing else is written", S.heap_unchanged(I, st, info["self"], except_=("allow_None",)))]
    return FunctionContract("%s:Parameter._set_allow_None" % MOD, PROP, setup, post, name="Parameter._set_allow_None")


def set_instantiate_contract():
    def setup(I, st):
        U = I.U
        self, T = S.param_obj(I, st, "Parameter", {"readonly": None}, label="self")
        st.pc.append(S.is_bool(I, T["readonly"]))
        arg = Sym(U.fresh("instantiate_arg"))
        fv = I.bound_method(self, I.src.find_method("Parameter", "_set_instantiate"))
        return fv, [arg], {}, {"self": self, "T": T, "arg": arg.t, "symbols": {"readonly": T["readonly"], "instantiate_arg": arg.t}}

    def post(I, info, st, oc):
        U = I.U
        if isinstance(oc, Raise):
            return [("does-not-raise", z3.BoolVal(False))]
        f = st.heap[info["self"].oid].fields
        if "instantiate" not in f:
            return [("sets instantiate", z3.BoolVal(False))]
        got = I.term(f["instantiate"])
        want = z3.If(info["T"]["readonly"] == U.TRUE, U.FALSE, z3.If(info["arg"] != U.UNDEF, info["arg"], U.FALSE))
        return [("instantiate: False for read-only, else the declared value, else False (the type default)", got == want),
                ("nothing else is written", S.heap_unchanged(I, st, info["self"], except_=("instantiate",)))]
    return FunctionContract("%s:Parameter._set_instantiate" % MOD, PROP, setup, post, name="Parameter._set_instantiate")


def contracts():
    return [set_allow_none_contract(), set_instantiate_contract()]


ASSUMPTIONS = ["Parameter._slot_defaults is the literal dict in the source (evaluated from the class body)"]


# ---------------------------------------------------------------------------------------------
# Block contract: the per-slot MRO search of ParameterizedMetaclass.__param_inheritance
# ---------------------------------------------------------------------------------------------
INHERIT_REPLAY = '''import sys, os, itertools
sys.path.insert(0, os.environ.get('PYVC_REPO', '/repo'))
import param
from param.parameterized import Undefined
bad = []
SLOTS = {'doc': ['dA', 'dB'], 'bounds': [(0, 10), (-5, 50)], 'softbounds': [(1, 2), (3, 4)], 'step': [1, 2],
         'default': [3, 4], 'precedence': [0.5, 1.5], 'label': ['LA', 'LB'], 'constant': [True], 'readonly': [True],
         'per_instance': [False], 'inclusive_bounds': [(False, True)]}
def declared(kw):
    return param.Number(**kw)
def check(label, classes, decl):
    # decl: {class name: kwargs it declared}; independent resolver over the declared hierarchy
    # (allow_None and instantiate follow their own rules and are not part of this replay)
    leaf = classes[-1]
    p = leaf.param['x']
    for slot in SLOTS:
        want = Undefined
        for k in leaf.__mro__:
            kw = decl.get(k.__name__)
            if kw is not None and slot in kw:
                want = kw[slot]; break
        if want is Undefined:
            continue
        got = getattr(p, slot)
        if got != want:
            bad.append('%s: slot %s is %r, the nearest class declaring it gives %r' % (label, slot, got, want))
names = list(SLOTS)
import random
rnd = random.Random(7)
for trial in range(300):
    shape = rnd.choice(['chain3', 'skip', 'diamond'])
    def kws(i):
        ks = rnd.sample(names, rnd.randint(0, 4))
        return {k: SLOTS[k][min(i, len(SLOTS[k]) - 1)] for k in ks}
    dA, dB, dC = kws(0), kws(1), kws(0)
    try:
        A = type('A', (param.Parameterized,), {'x': declared(dA)})
        if shape == 'chain3':
            B = type('B', (A,), {'x': declared(dB)}); C = type('C', (B,), {'x': declared(dC)})
            check('chain A<-B<-C %r %r %r' % (dA, dB, dC), [A, B, C], {'A': dA, 'B': dB, 'C': dC})
        elif shape == 'skip':
            B = type('B', (A,), {}); C = type('C', (B,), {'x': declared(dC)})
            check('skip A<-B(no decl)<-C %r %r' % (dA, dC), [A, B, C], {'A': dA, 'C': dC})
        else:
            B = type('B', (A,), {'x': declared(dB)}); B2 = type('B2', (A,), {}); C = type('C', (B2, B), {'x': declared(dC)})
            check('diamond %r %r %r' % (dA, dB, dC), [A, B, C], {'A': dA, 'B': dB, 'C': dC})
    except (RuntimeError, ValueError, TypeError):
        pass          # merged default rejected: not the subject of this replay
if bad:
    print('REPRODUCED: C11 an unspecified attribute does not take the value of the nearest class declaring it:')
    for b in bad[:6]:
        print('  ', b)
    sys.exit(1)
print('NOT-REPRODUCED'); sys.exit(0)
'''


def slot_search_contract():
    """Body of `for slot in slots.keys():` in `__param_inheritance`, executed for an ARBITRARY slot
    name over an ARBITRARY class list `supers` (symbolic tuple, unbounded length): the value kept for
    the slot is the one held by the nearest class (first in MRO order) that declares the Parameter
    with that attribute set; else the type's default (`_slot_defaults`), computed ones deferred to
    `callables`; the values kept for other slots are untouched (independence per attribute)."""
    import ast as _ast
    from pyvc.loops import LoopSpec
    from pyvc.objects import sym_field
    holder = {}
    QUAL = "ParameterizedMetaclass.__param_inheritance"
    declp = z3.Function("declared_parameter", vm.V, vm.V)           # scls.__dict__.get(param_name)
    has2 = z3.Function("has_slot", vm.V, vm.V, z3.BoolSort())       # hasattr(p, slot)
    attr2 = z3.Function("slot_value", vm.V, vm.V, vm.V)             # getattr(p, slot)

    def configure(I):
        from pyvc import builtins_lib as bl
        I.sym_fields = {"__dict__"}

        def vmethod(I, st, name, selfv, args, kwargs, ctx):
            if name == "get" and isinstance(selfv, Sym):
                t = declp(I.term(selfv))
                I.U.well_typed(t)
                return [(st, Sym(t))]
            return None
        I.lib["$value_method"] = vmethod

        def h_hasattr(I, st, fv, args, kwargs, ctx):
            if isinstance(args[1], Sym):
                return [(st, BoolV(has2(I.term(args[0]), args[1].t)))]
            return bl.h_hasattr(I, st, fv, args, kwargs, ctx)
        I.lib["hasattr"] = h_hasattr

        def h_getattr(I, st, fv, args, kwargs, ctx):
            if isinstance(args[1], Sym) and len(args) == 2:
                t = attr2(I.term(args[0]), args[1].t)
                I.U.well_typed(t)
                return [(st, Sym(t))]
            return bl.h_getattr(I, st, fv, args, kwargs, ctx)
        I.lib["getattr"] = h_getattr

    def decl_of(cls_t):
        return declp(z3.Select(holder["Fdict"], cls_t))

    def qual_elem(x):
        d = decl_of(x)
        s = holder["s"]
        return z3.And(d != holder["NONE"], has2(d, s), attr2(d, s) != holder["UNDEF"])

    def setup(I, st):
        U = I.U
        holder["NONE"], holder["UNDEF"] = U.NONE, U.UNDEF
        s = U.fresh("slot")
        st.pc.append(vm.ty(s) == vm.TAG["str"])
        holder["s"] = s
        holder["Fdict"] = sym_field(I, st, "__dict__")
        supers = U.fresh("supers")
        st.pc += [vm.ty(supers) == vm.TAG["tuple"], vm.tlen(supers) >= 0]
        U.well_typed(supers)
        holder["supers"] = supers
        n = vm.tlen(supers)
        noq = S.fold(I, "no_class_declares_the_slot", lambda x: z3.Not(qual_elem(x)))
        holder["noq"] = noq
        fq = U.fresh_int("nearest")            # index of the nearest class declaring the slot (n: none)
        holder["fq"] = fq
        st.pc.append(z3.Or(z3.And(fq == n, noq.tfn(supers, n)),
                           z3.And(fq >= 0, fq < n, qual_elem(vm.titem(supers, fq)), noq.tfn(supers, fq))))
        U.well_typed(vm.titem(supers, fq))
        st.pc.append(noq.elim(supers, n, fq))
        D = I.alloc_dict(st, keys=U.fresh_seq("slot_default_names"), vals=z3.Const("slot_defaults", z3.ArraySort(vm.V, vm.V)))
        param, T = S.param_obj(I, st, "Parameter", {"name": None, "allow_refs": None}, label="param")
        st.heap[param.oid].fields["_slot_defaults"] = D
        st.heap[param.oid].init["_slot_defaults"] = D
        mcs = I.alloc_obj(st, "ParameterizedMetaclass", lazy=True, label="mcs")
        priv = I.alloc_obj(st, "_ClassPrivate", lazy=False, label="mcs._param__private")
        st.heap[priv.oid].fields["explicit_no_refs"] = I.alloc_list(st, U.fresh_seq("explicit_no_refs"))
        st.heap[mcs.oid].fields["_param__private"] = priv
        sv = I.alloc_dict(st, keys=U.fresh_seq("kept_names"), vals=z3.Const("kept_values", z3.ArraySort(vm.V, vm.V)))
        cl = I.alloc_dict(st, keys=U.fresh_seq("callable_names"), vals=z3.Const("callable_values", z3.ArraySort(vm.V, vm.V)))
        hs, hc = st.heap[sv.oid], st.heap[cl.oid]
        # block precondition: each key of `slots` is visited once, so nothing is recorded for it yet
        st.pc += [z3.Not(z3.Contains(hs.keys, z3.Unit(s))), z3.Not(z3.Contains(hc.keys, z3.Unit(s)))]
        so, tc = U.fresh("slot_overridden"), U.fresh("type_change")
        st.pc += [S.is_bool(I, so), S.is_bool(I, tc)]
        pname = U.fresh("param_name")
        st.pc.append(vm.ty(pname) == vm.TAG["str"])
        other = U.fresh("other_slot")
        st.pc.append(other != s)
        env = {"slot": Sym(s), "supers": Sym(supers), "slot_values": sv, "callables": cl, "param": param, "mcs": mcs,
               "slot_overridden": Sym(so), "type_change": Sym(tc), "param_name": Sym(pname)}
        return {"env": env, "sv": sv, "cl": cl, "D": D, "so0": so, "other": other,
                "sv0": (hs.keys, hs.vals), "cl0": (hc.keys, hc.vals), "symbols": {}}

    def runner(I, st, info, ctx):
        from contracts.c05 import outcomes
        module, cname, fd = I.src.locate("%s:%s" % (MOD, QUAL))
        loop = [x for x in fd.body if isinstance(x, _ast.For) and _ast.unparse(x.iter) == "slots.keys()"]
        if len(loop) != 1:
            raise OutOfReach("`for slot in slots.keys():` not found in __param_inheritance")
        holder["info"] = info
        st.env = dict(info["env"])
        c = dict(ctx)
        c.update({"module": module, "owner": cname, "qual": QUAL, "fnode": fd})
        return outcomes(I.exec_block(loop[0].body, st, c))

    def cur_of(st, ref, key):
        h = st.heap[ref.oid]
        return z3.If(z3.Contains(h.keys, z3.Unit(key)), z3.Select(h.vals, key), holder["UNDEF"])

    def frame(st, ref, old, o):
        h = st.heap[ref.oid]
        return z3.And(z3.Contains(h.keys, z3.Unit(o)) == z3.Contains(old[0], z3.Unit(o)),
                      z3.Implies(z3.Contains(old[0], z3.Unit(o)), z3.Select(h.vals, o) == z3.Select(old[1], o)))

    def val_at(j):
        return attr2(decl_of(vm.titem(holder["supers"], j)), holder["s"])

    def inv(I, st, pre):
        info = holder["info"]
        s, fq, noq, supers = holder["s"], holder["fq"], holder["noq"], holder["supers"]
        cur = cur_of(st, info["sv"], s)
        so = I.term(st.env["slot_overridden"])
        return z3.And(
            z3.Implies(cur == holder["UNDEF"], noq.tfn(supers, pre.n)),
            z3.Implies(cur != holder["UNDEF"], z3.And(fq < pre.n, cur == val_at(fq))),
            z3.Implies(cur == holder["UNDEF"], z3.Not(z3.Contains(st.heap[info["sv"].oid].keys, z3.Unit(s)))),   # Undefined is never stored
            frame(st, info["sv"], info["sv0"], info["other"]),
            z3.Or(so == I.U.TRUE, so == I.U.FALSE, so == info["so0"]),
            z3.Implies(vm.truthy(info["so0"]), vm.truthy(so)))

    def havoc(I, st):
        h = st.heap[holder["info"]["sv"].oid]
        h.keys = I.U.fresh_seq("kept_names")
        h.vals = z3.Const("kept_values!%d" % I.new_oid(), z3.ArraySort(vm.V, vm.V))
        h.ckeys = None
        h.fields.pop("$entries", None)

    def elem_facts(I, st, x, i):
        fq, noq, supers = holder["fq"], holder["noq"], holder["supers"]
        return [noq.elim(supers, fq, i), noq.elim(supers, i, fq)]

    def post(I, info, st, oc):
        U = I.U
        s, fq, supers = holder["s"], holder["fq"], holder["supers"]
        n = vm.tlen(supers)
        hd = st.heap[info["D"].oid]
        has_default = z3.Contains(hd.keys, z3.Unit(s))
        dv = z3.Select(hd.vals, s)
        if isinstance(oc, Raise):
            return [("raises only KeyError, and only when no class declares the attribute and the type has no default for it",
                     z3.And(z3.BoolVal(oc.cls == "KeyError"), fq == n, z3.Not(has_default)))]
        hs, hc = st.heap[info["sv"].oid], st.heap[info["cl"].oid]
        u = z3.Unit(s)
        out = [("nearest/the value kept is the one held by the nearest class that declares the Parameter with that attribute",
                z3.Implies(fq < n, z3.And(z3.Contains(hs.keys, u), z3.Select(hs.vals, s) == val_at(fq), z3.Not(z3.Contains(hc.keys, u))))),
               ("default/else the type's default: a plain value is kept, a computed one is deferred",
                z3.Implies(fq == n, z3.And(has_default, z3.If(
                    vm.is_callable(dv),
                    z3.And(z3.Contains(hc.keys, u), z3.Select(hc.vals, s) == dv, z3.Not(z3.Contains(hs.keys, u))),
                    z3.And(z3.Contains(hs.keys, u), z3.Select(hs.vals, s) == dv, z3.Not(z3.Contains(hc.keys, u))))))),
               ("independent/values kept for other attributes are untouched",
                z3.And(frame(st, info["sv"], info["sv0"], info["other"]), frame(st, info["cl"], info["cl0"], info["other"]))),
               ("revalidation flag is never reset", z3.Implies(vm.truthy(info["so0"]), vm.truthy(I.term(st.env["slot_overridden"]))))]
        return out
    loops = {(QUAL, "supers"): LoopSpec("supers", inv=inv, heap=havoc, name="search-up-the-hierarchy", elem_facts=elem_facts)}
    c = FunctionContract("%s:%s" % (MOD, QUAL), PROP, setup, post, configure=configure, loops=loops,
                         name="__param_inheritance[per-slot search, arbitrary slot and class list]")
    c.runner = runner
    c.static_replay = INHERIT_REPLAY
    c.static_witness = "random chains / skipped declarations / diamonds of Number declarations vs an independent nearest-declaring-class resolver"
    return c


_c11_base = contracts


def contracts():
    return _c11_base() + [slot_search_contract()]


def instantiate_typechange_contract():
    """`type_change = False; for superclass in supers: …` of `__param_inheritance` over an arbitrary
    class list: `instantiate=True` is inherited from ANY class of the list that declares the Parameter
    with instantiate True (else the Parameter keeps its own), and `type_change` is True exactly when
    some declaring class holds a Parameter whose type is not a subclass of this Parameter's type."""
    import ast as _ast
    from pyvc import builtins_lib as bl
    from pyvc import lib_misc as lm
    from pyvc.loops import LoopSpec
    from pyvc.objects import sym_field
    holder = {}
    QUAL = "ParameterizedMetaclass.__param_inheritance"
    declp = z3.Function("declared_parameter", vm.V, vm.V)

    def configure(I):
        I.sym_fields = {"__dict__", "instantiate"}

        def vmethod(I, st, name, selfv, args, kwargs, ctx):
            if name == "get" and isinstance(selfv, Sym):
                t = declp(I.term(selfv))
                I.U.well_typed(t)
                return [(st, Sym(t))]
            return None
        I.lib["$value_method"] = vmethod

    def setup(I, st):
        U = I.U
        Fd = sym_field(I, st, "__dict__")
        Fi = sym_field(I, st, "instantiate")
        supers = U.fresh("supers")
        st.pc += [vm.ty(supers) == vm.TAG["tuple"], vm.tlen(supers) >= 0]
        U.well_typed(supers)
        p_type = U.fresh("p_type")
        st.pc.append(vm.ty(p_type) == vm.TAG["type"])
        param, T = S.param_obj(I, st, "Parameter", {"instantiate": None, "name": None}, label="param")
        pname = U.fresh("param_name")
        st.pc.append(vm.ty(pname) == vm.TAG["str"])

        def is_param(x):
            d = declp(z3.Select(Fd, x))
            f = bl.isinstance_formula(I, st, Sym(d), ClsV("Parameter"))
            return d, (z3.BoolVal(f) if isinstance(f, bool) else f)

        def p_inst(x):
            d, isp = is_param(x)
            return z3.Not(z3.And(isp, z3.Select(Fi, d) == U.TRUE))

        def p_type_ok(x):
            d, isp = is_param(x)
            (_, tv), = bl.h_type(I, st, None, [Sym(d)], {}, {})
            return z3.Not(z3.And(isp, z3.Not(lm.issub(I.term(tv), p_type))))
        holder["noinst"] = S.fold(I, "no_class_declares_instantiate_True", p_inst)
        holder["types_ok"] = S.fold(I, "every_declared_type_is_a_subclass", p_type_ok)
        holder.update({"supers": supers, "param": param, "inst0": T["instantiate"]})
        env = {"supers": Sym(supers), "param": param, "param_name": Sym(pname), "p_type": Sym(p_type)}
        return {"env": env, "param": param, "symbols": {}}

    def runner(I, st, info, ctx):
        from contracts.c05 import outcomes
        module, cname, fd = I.src.locate("%s:%s" % (MOD, QUAL))
        idx = [i for i, x in enumerate(fd.body) if isinstance(x, _ast.For) and _ast.unparse(x.iter) == "supers"
               and _ast.unparse(x.target) == "superclass"]
        start = [i for i, x in enumerate(fd.body) if _ast.unparse(x) == "type_change = False"]
        if len(idx) != 1 or len(start) != 1 or start[0] >= idx[0]:
            raise OutOfReach("`type_change = False … for superclass in supers:` not found in __param_inheritance")
        st.env = dict(info["env"])
        c = dict(ctx)
        c.update({"module": module, "owner": cname, "qual": QUAL, "fnode": fd})
        return outcomes(I.exec_block(fd.body[start[0]: idx[0] + 1], st, c))

    def inst_now(I, st):
        return I.term(st.heap[holder["param"].oid].fields["instantiate"])

    def expected(I, st, n):
        sup = holder["supers"]
        return z3.And(inst_now(I, st) == z3.If(holder["noinst"].tfn(sup, n), holder["inst0"], I.U.TRUE),
                      I.term(st.env["type_change"]) == z3.If(holder["types_ok"].tfn(sup, n), I.U.FALSE, I.U.TRUE))

    def inv(I, st, pre):
        return expected(I, st, pre.n)

    def havoc(I, st):
        h = st.heap[holder["param"].oid]
        h.fields["instantiate"] = Sym(I.U.fresh("param.instantiate"))

    def post(I, info, st, oc):
        if isinstance(oc, Raise):
            return [("does-not-raise", z3.BoolVal(False))]
        sup = holder["supers"]
        n = vm.tlen(sup)
        return [("instantiate=True is inherited from any class that declares it, else the own value is kept",
                 inst_now(I, st) == z3.If(holder["noinst"].tfn(sup, n), holder["inst0"], I.U.TRUE)),
                ("type_change is True exactly when a declaring class holds a Parameter of a type that is not a subclass",
                 I.term(st.env["type_change"]) == z3.If(holder["types_ok"].tfn(sup, n), I.U.FALSE, I.U.TRUE)),
                ("nothing else of the Parameter is written", S.heap_unchanged(I, st, info["param"], except_=("instantiate",)))]
    loops = {(QUAL, "supers"): LoopSpec("supers", inv=inv, heap=havoc, name="inherit-instantiate")}
    c = FunctionContract("%s:%s" % (MOD, QUAL), PROP, setup, post, configure=configure, loops=loops,
                         name="__param_inheritance[instantiate / type change over an arbitrary class list]")
    c.runner = runner
    c.static_replay = INSTANTIATE_REPLAY
    c.static_witness = "chains and diamonds in which one ancestor declares instantiate=True / a different Parameter type"
    return c


INSTANTIATE_REPLAY = '''import sys, os, itertools
sys.path.insert(0, os.environ.get('PYVC_REPO', '/repo'))
import param
bad = []
for flags in itertools.product([None, True, False], repeat=3):
    for shape in ('chain', 'diamond', 'skip'):
        def mk(f):
            return param.Parameter(default=[1]) if f is None else param.Parameter(default=[1], instantiate=f)
        A = type('A', (param.Parameterized,), {'x': mk(flags[0])})
        if shape == 'chain':
            B = type('B', (A,), {'x': mk(flags[1])}); C = type('C', (B,), {'x': mk(flags[2])})
        elif shape == 'skip':
            B = type('B', (A,), {}); C = type('C', (B,), {'x': mk(flags[2])})
        else:
            B = type('B', (A,), {'x': mk(flags[1])}); B2 = type('B2', (A,), {}); C = type('C', (B2, B), {'x': mk(flags[2])})
        declared = [flags[0], flags[2]] + ([flags[1]] if shape != 'skip' else [])
        want = True if True in declared else bool(flags[2])
        if C.param.x.instantiate is not want:
            bad.append('%s %r: C.param.x.instantiate is %r, expected %r' % (shape, flags, C.param.x.instantiate, want))
# type change triggers the re-validation of the merged default
class A(param.Parameterized):
    x = param.Number(default=2.5)
try:
    class B(A):
        x = param.Integer()
    bad.append('Number(2.5) redeclared as Integer(): class created with default %r' % (B.param.x.default,))
except RuntimeError:
    pass
# a merged default of None is re-checked only if the Parameter type changed
class A2(param.Parameterized):
    x = param.Number(default=None, allow_None=True)
try:
    class B2(A2):
        x = param.Number(bounds=(0, 1))
except RuntimeError:
    bad.append('Number(None, allow_None=True) redeclared as Number(bounds=(0, 1)): the None default was re-checked although the type did not change')
try:
    class C2(A2):
        x = param.Integer()
    bad.append('Number(None, allow_None=True) redeclared as Integer(): class created although the type changed and None is not allowed')
except RuntimeError:
    pass
try:
    class D2(A):
        x = param.Number(bounds=(0, 1))
    bad.append('Number(2.5) redeclared with bounds=(0, 1): class created with default %r outside its bounds' % (D2.param.x.default,))
except RuntimeError:
    pass
# every class is checked when it is created, whatever else it declares (abstract classes, classes with
# further attributes, classes created through type() or add_parameter)
for abstract in (False, True):
    for route in ('statement', 'add_parameter'):
        for redecl, what in ((lambda: param.Number(bounds=(0, 1)), 'bounds=(0, 1) excluding the inherited default 2.5'),
                             (lambda: param.Integer(), 'Integer() over the inherited default 2.5')):
            ns = {'_Q__abstract': True} if abstract else {}
            try:
                if route == 'statement':
                    ns['x'] = redecl()
                    Q = type('Q', (A,), ns)
                else:
                    Q = type('Q', (A,), ns)
                    Q.param.add_parameter('x', redecl())
            except (RuntimeError, ValueError, TypeError):
                continue
            bad.append('%sclass redeclaring x with %s by %s was created with default %r'
                       % ('abstract ' if abstract else '', what, route, Q.param.x.default))
            sub = type('QS', (Q,), {})
            if sub.param.x.default == 2.5:
                bad.append('... and its concrete subclass silently inherits default 2.5 with %s' % what)
# a declaration that leaves the default unspecified is still checked: by the constructor, or when the class is created
for what, mk in (('List(bounds=(1, 3))', lambda: param.List(bounds=(1, 3))), ('HookList(bounds=(1, 3))', lambda: param.HookList(bounds=(1, 3))),
                 ('Tuple(length=2) default ()', lambda: param.Tuple(default=(), length=2)), ('Number(bounds=(1, 3)) default 0', lambda: param.Number(default=0, bounds=(1, 3)))):
    for route in ('statement', 'below-skipping-ancestors', 'add_parameter'):
        try:
            if route == 'statement':
                L = type('L', (param.Parameterized,), {'v': mk()})
            elif route == 'below-skipping-ancestors':
                L0 = type('L0', (param.Parameterized,), {}); L1 = type('L1', (L0,), {}); L = type('L', (L1,), {'v': mk()})
            else:
                L = type('L', (param.Parameterized,), {}); L.param.add_parameter('v', mk())
        except (ValueError, TypeError, RuntimeError):
            continue
        p = L.param.v
        bad.append('%s declared by %s: the class exists with default %r, which its own constraints exclude' % (what, route, p.default))
# every way of creating a class inherits and re-validates alike
for route in ('type', 'parameterized_class'):
    PA = type('PA', (param.Parameterized,), {'x': param.Number(default=5, bounds=(0, 10), doc='parent doc')})
    def create(name, params, bases):
        if route == 'type':
            return type(name, bases, dict(params))
        return param.parameterized_class(name, dict(params), bases)
    PB = create('PB', {'x': param.Number(doc='own doc')}, (PA,))
    got = (PB.param.x.default, PB.param.x.bounds, PB.param.x.doc)
    if got != (5, (0, 10), 'own doc'):
        bad.append('class created by %s re-declaring x = Number(doc=...) below Number(5, bounds=(0, 10)): (default, bounds, doc) == %r' % (route, got))
    try:
        PC = create('PC', {'x': param.Number(bounds=(0, 3))}, (PA,))
        bad.append('class created by %s with x = Number(bounds=(0, 3)) below default 5 exists (default %r)' % (route, PC.param.x.default))
    except (RuntimeError, ValueError):
        pass
# a Parameter object that was refused once is refused again (and an accepted one may be offered again)
RA = type('RA', (param.Parameterized,), {'x': param.Number(default=20)})
RB = type('RB', (RA,), {})
again = param.Number(bounds=(0, 10))
for attempt in (1, 2, 3):
    try:
        RB.param.add_parameter('x', again)
        bad.append('attempt %d to add Number(bounds=(0, 10)) below the inherited default 20 was accepted: default %r bounds %r'
                   % (attempt, RB.param.x.default, RB.param.x.bounds))
        break
    except (RuntimeError, ValueError):
        pass
    if 'x' in RB.__dict__ or RB.param.x.default != 20 or RB.param.x.bounds is not None:
        bad.append('after the refused attempt %d the class shows default %r bounds %r' % (attempt, RB.param.x.default, RB.param.x.bounds)); break
class V(param.Number):
    def _validate(self, val):
        if val == 2.5:
            raise OSError('custom validation failure')
try:
    class E2(A):
        x = V()
    bad.append('a Parameter type whose validation raises OSError: class created')
except RuntimeError:
    pass
except OSError:
    bad.append('a Parameter type whose validation raises OSError: the error escaped class creation instead of RuntimeError')
if bad:
    print('REPRODUCED: C11 instantiate inheritance / type-change detection / re-validation of the merged default:')
    for b in bad[:6]:
        print('  ', b)
    sys.exit(1)
print('NOT-REPRODUCED'); sys.exit(0)
'''


_c11_base2 = contracts


def contracts():
    return _c11_base2() + [instantiate_typechange_contract()]


def revalidation_contract():
    """Last statement of `__param_inheritance` (`if type_change or slot_overridden and
    param.default is not None: …`): the merged default is re-validated exactly when the type changed,
    or an attribute was overridden and the merged default is not None; class creation fails with
    RuntimeError exactly when that validation fails, and succeeds silently otherwise."""
    import ast as _ast
    holder = {}
    QUAL = "ParameterizedMetaclass.__param_inheritance"

    def configure(I):
        def validate(I, st, fv, args, kwargs, ctx):
            st.ghost["validated"] = st.ghost.get("validated", []) + [I.term(args[0])]
            q = st.fork()
            q2 = st.fork()
            return [(st, Conc(None)), (q, Raise("ValueError", origin="_validate")), (q2, Raise("TypeError", origin="_validate"))]
        I.contracts["Parameter._validate"] = validate

    def setup(I, st):
        U = I.U
        param, T = S.param_obj(I, st, "Parameter", {"default": None, "name": None}, label="param")
        mcs = I.alloc_obj(st, "ParameterizedMetaclass", lazy=True, label="mcs")
        so, tc = U.fresh("slot_overridden"), U.fresh("type_change")
        st.pc += [S.is_bool(I, so), S.is_bool(I, tc)]
        env = {"param": param, "mcs": mcs, "slot_overridden": Sym(so), "type_change": Sym(tc), "param_name": Sym(U.fresh("param_name"))}
        return {"env": env, "param": param, "so": so, "tc": tc, "default": T["default"], "symbols": {}}

    def runner(I, st, info, ctx):
        from contracts.c05 import outcomes
        module, cname, fd = I.src.locate("%s:%s" % (MOD, QUAL))
        last = fd.body[-1]
        if not (isinstance(last, _ast.If) and "param._validate(param.default)" in _ast.unparse(last)):
            raise OutOfReach("re-validation statement not found at the end of __param_inheritance")
        st.env = dict(info["env"])
        c = dict(ctx)
        c.update({"module": module, "owner": cname, "qual": QUAL, "fnode": fd})
        return outcomes(I.exec_stmt(last, st, c))

    def post(I, info, st, oc):
        U = I.U
        must = z3.Or(info["tc"] == U.TRUE, z3.And(info["so"] == U.TRUE, info["default"] != U.NONE))
        calls = st.ghost.get("validated", [])
        out = [("the merged default is re-validated exactly when the type changed, or an attribute was overridden and the default is not None",
                must == z3.BoolVal(len(calls) == 1)),
               ("at most one validation, of the merged default", z3.BoolVal(len(calls) <= 1 and all(z3.eq(c, info["default"]) for c in calls)))]
        if isinstance(oc, Raise):
            out.append(("class creation fails with RuntimeError, and only because the validation failed",
                        z3.BoolVal(oc.cls == "RuntimeError" and len(calls) == 1)))
        else:
            out.append(("nothing of the Parameter is written", S.heap_unchanged(I, st, info["param"])))
        return out
    c = FunctionContract("%s:%s" % (MOD, QUAL), PROP, setup, post, configure=configure,
                         name="__param_inheritance[re-validation of the merged default]")
    c.runner = runner
    c.static_replay = INSTANTIATE_REPLAY
    c.static_witness = "chains and diamonds in which one ancestor declares instantiate=True / a different Parameter type"
    return c


_c11_base3 = contracts


def contracts():
    return _c11_base3() + [revalidation_contract()]


# ---------------------------------------------------------------------------------------------
# Parameter.__init__ — what a declaration leaves unspecified stays `Undefined` (so it can be inherited)
# ---------------------------------------------------------------------------------------------
def parameter_init_contract():
    """`Parameter.__init__(default, doc, label, precedence, instantiate, constant, readonly,
    pickle_default_value, allow_None, per_instance, allow_refs, nested_refs)` with every argument
    arbitrary (given or `Undefined`): each slot holds exactly what was passed — an attribute that is
    NOT specified stays `Undefined`, whatever else was specified — with the three documented
    exceptions: `constant` is True when readonly or constant is True; `instantiate` and `allow_None`
    follow `_set_instantiate` / `_set_allow_None` (verified on their own)."""
    ARGS = ["doc", "label", "precedence", "instantiate", "constant", "readonly", "pickle_default_value",
            "allow_None", "per_instance", "allow_refs", "nested_refs"]

    def configure(I):
        def set_inst(I, st, fv, args, kwargs, ctx):
            st.ghost["set_instantiate"] = st.ghost.get("set_instantiate", []) + [I.term(args[0])]
            return [(st, Conc(None))]
        I.contracts["Parameter._set_instantiate"] = set_inst

        def set_an(I, st, fv, args, kwargs, ctx):
            st.ghost["set_allow_None"] = st.ghost.get("set_allow_None", []) + [I.term(args[0])]
            return [(st, Conc(None))]
        I.contracts["Parameter._set_allow_None"] = set_an
        I.lib["deco:_deprecate_positional_args"] = lambda I, st, fv, args, kwargs, ctx: None

    def setup(I, st):
        U = I.U
        self = I.alloc_obj(st, "Parameter", lazy=False, label="self")
        kw = {a: Sym(U.fresh(a)) for a in ARGS}
        default = Sym(U.fresh("default"))
        found = I.src.find_method("Parameter", "__init__")
        fv = I.bound_method(self, found)
        return fv, [default], kw, {"self": self, "kw": {a: v.t for a, v in kw.items()}, "default": default.t, "symbols": {}}

    def post(I, info, st, oc):
        U = I.U
        if isinstance(oc, Raise):
            return [("does-not-raise", z3.BoolVal(False))]
        f = st.heap[info["self"].oid].fields
        kw = info["kw"]
        out = []
        slot_of = {"label": "_label"}
        for a in ARGS:
            if a in ("instantiate", "allow_None", "constant"):
                continue
            s_ = slot_of.get(a, a)
            out.append(("slot %s holds exactly what was passed (Undefined when unspecified)" % s_,
                        I.term(f[s_]) == kw[a] if s_ in f else z3.BoolVal(False)))
        out.append(("slot default holds exactly what was passed", I.term(f["default"]) == info["default"] if "default" in f else z3.BoolVal(False)))
        forced = z3.Or(kw["constant"] == U.TRUE, kw["readonly"] == U.TRUE)
        out.append(("constant: True when constant or readonly is True, else exactly what was passed (Undefined when unspecified — whatever readonly is)",
                    I.term(f["constant"]) == z3.If(forced, U.TRUE, kw["constant"]) if "constant" in f else z3.BoolVal(False)))
        si, sa = st.ghost.get("set_instantiate", []), st.ghost.get("set_allow_None", [])
        out.append(("instantiate / allow_None are computed from exactly what was passed",
                    z3.And(z3.BoolVal(len(si) == 1 and len(sa) == 1), si[0] == kw["instantiate"] if si else z3.BoolVal(False),
                           sa[0] == kw["allow_None"] if sa else z3.BoolVal(False))))
        return out
    return FunctionContract("%s:Parameter.__init__" % MOD, PROP, setup, post, configure=configure, name="Parameter.__init__[arbitrary declaration]")


_c11_base4 = contracts


def contracts():
    return _c11_base4() + [parameter_init_contract()]


# what a type-specific argument leaves unspecified stays Undefined in the slot (so it is inherited)
_c11_base5 = contracts


def contracts():
    from contracts import c01 as _c01
    num = {"bounds": "bounds", "inclusive_bounds": "inclusive_bounds", "step": "step", "softbounds": "softbounds"}
    extra = [_c01.constructor_contract("Number", num, "Number", plain_default=True, allow_undefined=True),
             _c01.constructor_contract("Range", num, "Range", allow_undefined=True),
             _c01.constructor_contract("Color", {"allow_named": "allow_named"}, "Color", allow_undefined=True),
             _c01.constructor_contract("Bytes", {"regex": "regex"}, "Bytes", allow_undefined=True),
             _c01.constructor_contract("String", {"regex": "regex"}, "String", qual_mod=_c01.MOD_Z, allow_undefined=True)]
    for c in extra:
        c.prop = PROP
        c.clause_prefixes = ["argument "]
    return _c11_base5() + extra


# "class creation, like add_parameter": the runtime addition goes through the same inheritance step
_c11_base6 = contracts


def contracts():
    from contracts import c13 as _c13
    c = _c13.add_parameter_contract()
    c.prop = PROP
    return _c11_base6() + [c]


# ---------------------------------------------------------------------------------------------
# Block contract: installing the merged slot values (no crosstalk between Parameter objects)
# ---------------------------------------------------------------------------------------------
CROSSTALK_REPLAY = '''import sys, os
sys.path.insert(0, os.environ.get('PYVC_REPO', '/repo'))
import param
bad = []
def snap(p):
    return {k: (list(v) if isinstance(v, list) else dict(v) if isinstance(v, dict) else v)
            for k, v in ((s, getattr(p, s, None)) for s in ('objects', 'names', 'bounds', 'item_type', 'class_'))}
for kind, parent_kw, child_kw in [
        (param.Selector, dict(objects=[1, 2], check_on_set=False), dict(default=3)),
        (param.Selector, dict(objects={'a': 1, 'b': 2}, check_on_set=False), dict(default=3)),
        (param.ListSelector, dict(default=[1], objects=[1, 2], check_on_set=False), dict(default=[1, 7])),
        (param.Selector, dict(objects=[1, 2]), dict(default=2)),
        (param.List, dict(default=[1], item_type=int), dict(default=[2])),
        (param.Selector, dict(objects=[1, 2], check_on_set=False), dict(default=5, doc='x'))]:
    A = type('A', (param.Parameterized,), {'s': kind(**parent_kw)})
    Sib = type('Sib', (A,), {})
    a = A()
    before = snap(A.param.s)
    try:
        B = type('B', (A,), {'s': kind(**child_kw)})
    except Exception as e:
        continue
    for who, p in (('the parent class', A.param.s), ('a sibling class', Sib.param.s), ('an existing parent instance', a.param.s)):
        if snap(p) != before:
            bad.append('declaring a subclass with %s(%r) over %r changed what %s reports: %r -> %r'
                       % (kind.__name__, child_kw, parent_kw, who, before, snap(p)))
    bp = B.param.s
    for slot in ('objects', 'names'):
        v = getattr(bp, slot, None)
        if isinstance(v, (list, dict)) and v is getattr(A.param.s, slot, None) and len(v):
            bad.append('%s of the subclass Parameter IS the parent container (%s %r)' % (slot, kind.__name__, parent_kw))
if bad:
    print('REPRODUCED: ' + bad[0]); sys.exit(1)
print('not reproduced')
'''


def install_slots_contract():
    """Statements `for slot, value in slot_values.items(): …` up to and including `param._update_state()`
    of `__param_inheritance`, for ARBITRARY merged values: when `_update_state()` runs (it may mutate a
    slot value in place, e.g. append a default to a Selector's objects) every inherited MUTABLE
    container (other than the default) has already been replaced by the Parameter's own shallow copy —
    so nothing it does reaches the ancestor's Parameter."""
    import ast as _ast
    from pyvc.loops import LoopSpec
    holder = {}
    QUAL = "ParameterizedMetaclass.__param_inheritance"
    is_mut = z3.Function("is_mutable_container", vm.V, z3.BoolSort())
    copyF = z3.Function("shallow_copy_of", vm.V, vm.V)

    def not_default(s):
        return vm.strv(s) != z3.StringVal("default")

    def configure(I):
        def setattr_sym(I, st, x, n, v, ctx):
            st.ghost["slots"] = z3.Store(st.ghost["slots"], I.term(n), I.term(v))
            return [(st, Conc(None))]
        I.lib["$setattr_symbolic"] = setattr_sym
        from pyvc import builtins_lib as bl

        def h_getattr(I, st, fv, args, kwargs, ctx):
            if isinstance(args[1], Sym) and len(args) == 2:
                r = z3.Select(st.ghost["slots"], args[1].t)
                return [(st, Sym(r))]
            return bl.h_getattr(I, st, fv, args, kwargs, ctx)
        I.lib["getattr"] = h_getattr

        def is_mutable(I, st, fv, args, kwargs, ctx):
            return [(st, BoolV(is_mut(I.term(args[0]))))]
        I.contracts["_is_mutable_container"] = is_mutable

        def copy_copy(I, st, fv, args, kwargs, ctx):
            r = copyF(I.term(args[0]))
            I.U.well_typed(r)
            return [(st, Sym(r))]
        I.lib["copy.copy"] = copy_copy

        def sym_call(I, st, fv, args, kwargs, ctx):
            return [(st, Sym(I.U.fresh("computed_slot_value")))]
        I.lib["$sym_call"] = sym_call

        def update_state(I, st, fv, args, kwargs, ctx):
            obs = ctx.get("obligations")
            s = holder["s"]
            sv, cl = holder["sv"], holder["cl"]
            own = z3.Select(st.ghost["slots"], s)
            cond = z3.And(z3.Contains(sv[0], z3.Unit(s)), not_default(s), is_mut(z3.Select(sv[1], s)),
                          z3.Not(z3.Contains(cl[0], z3.Unit(s))))
            if obs is not None:
                obs.append(("when _update_state() runs, an inherited mutable container is already the Parameter's own copy (no crosstalk with the ancestor)",
                            st.fork(), z3.Implies(cond, own == copyF(z3.Select(sv[1], s)))))
                obs.append(("… and an immutable / default value is installed as it is",
                            st.fork(), z3.Implies(z3.And(z3.Contains(sv[0], z3.Unit(s)), z3.Not(z3.Contains(cl[0], z3.Unit(s))),
                                                         z3.Or(z3.Not(not_default(s)), z3.Not(is_mut(z3.Select(sv[1], s))))),
                                                  own == z3.Select(sv[1], s))))
            st.ghost["update_state_calls"] = st.ghost.get("update_state_calls", 0) + 1
            return [(st, Conc(None))]
        I.lib["$value_method"] = lambda I, st, name, selfv, args, kwargs, ctx: (update_state(I, st, None, args, kwargs, ctx) if name == "_update_state" else None)

    def setup(I, st):
        U = I.U
        param = Sym(U.fresh("param"))
        s = U.fresh("some_slot")
        st.pc.append(vm.ty(s) == vm.TAG["str"])
        SV = I.alloc_dict(st, keys=U.fresh_seq("merged_names"), vals=z3.Const("merged_values", z3.ArraySort(vm.V, vm.V)))
        CL = I.alloc_dict(st, keys=U.fresh_seq("computed_names"), vals=z3.Const("computed_values", z3.ArraySort(vm.V, vm.V)))
        hs, hc = st.heap[SV.oid], st.heap[CL.oid]
        holder.update({"s": s, "sv": (hs.keys, hs.vals), "cl": (hc.keys, hc.vals)})
        st.ghost["slots"] = z3.Const("slots_before", z3.ArraySort(vm.V, vm.V))
        holder["slots0"] = st.ghost["slots"]
        return {"env": {"param": param, "slot_values": SV, "callables": CL}, "symbols": {}}

    def runner(I, st, info, ctx):
        from contracts.c05 import outcomes
        module, cname, fd = I.src.locate("%s:%s" % (MOD, QUAL))
        a = [i for i, x in enumerate(fd.body) if isinstance(x, _ast.For) and _ast.unparse(x.iter) == "slot_values.items()"]
        b = [i for i, x in enumerate(fd.body) if _ast.unparse(x) == "param._update_state()"]
        if len(a) != 1 or len(b) != 1 or b[0] <= a[0]:
            raise OutOfReach("the slot-installation block was not found in __param_inheritance")
        st.env = dict(info["env"])
        c = dict(ctx)
        c.update({"module": module, "owner": cname, "qual": QUAL, "fnode": fd})
        return outcomes(I.exec_block(fd.body[a[0]: b[0] + 1], st, c))

    def inv1(I, st, pre):
        s = holder["s"]
        sv = holder["sv"]
        seen = z3.Contains(pre.seq, z3.Unit(s))
        v = z3.Select(sv[1], s)
        want = z3.If(z3.And(not_default(s), is_mut(v)), copyF(v), v)
        return z3.Select(st.ghost["slots"], s) == z3.If(seen, want, z3.Select(holder["slots0"], s))

    def inv2(I, st, pre):
        s = holder["s"]
        sv = holder["sv"]
        v = z3.Select(sv[1], s)
        want = z3.If(z3.And(not_default(s), is_mut(v)), copyF(v), v)
        return z3.Implies(z3.And(z3.Contains(sv[0], z3.Unit(s)), z3.Not(z3.Contains(holder["cl"][0], z3.Unit(s)))),
                          z3.Select(st.ghost["slots"], s) == want)

    def havoc(I, st):
        st.ghost["slots"] = z3.Const("slots!%d" % I.new_oid(), z3.ArraySort(vm.V, vm.V))

    def post(I, info, st, oc):
        if isinstance(oc, Raise):
            return [("does-not-raise", z3.BoolVal(False))]
        return [("_update_state() runs exactly once, after the slots are installed", z3.BoolVal(st.ghost.get("update_state_calls", 0) == 1))]
    loops = {(QUAL, "slot_values.items()"): LoopSpec("slot_values.items()", inv=inv1, heap=havoc, name="install-merged-values"),
             (QUAL, "callables.items()"): LoopSpec("callables.items()", inv=inv2, heap=havoc, name="install-computed-values",
                                                         elem_facts=lambda I, st, x: [z3.Contains(holder["cl"][0], z3.Unit(x))])}
    c = FunctionContract("%s:%s" % (MOD, QUAL), PROP, setup, post, configure=configure, loops=loops,
                         name="__param_inheritance[installing the merged slot values]")
    c.static_replay = CROSSTALK_REPLAY
    c.static_witness = "a subclass re-declares a Selector / ListSelector whose default is not among the inherited objects (check_on_set=False): _update_state() appends it"
    c.runner = runner
    return c


_c11_base7 = contracts


def contracts():
    return _c11_base7() + [install_slots_contract()]


# a Parameter object assigned to a class attribute after class creation goes through the same merge of
# inherited attributes as a declaration; when the merge refuses it (an inherited default that violates its
# constraints) it must not stay on the class (metaclass __setattr__ is verified for C13)
_c11_base8 = contracts


def contracts():
    from contracts import c13 as _c13
    c = _c13.metaclass_setattr_contract()
    c.prop = PROP
    c.clause_prefixes = ["C11/"]
    c.name = "ParameterizedMetaclass.__setattr__[a Parameter object refused by the merge]"
    return _c11_base8() + [c]
