"""C11 — Parameter attributes inherit along the MRO; merged defaults are re-validated.

Deductive part (the constructor-time computed slots): `allow_None` is recomputed from the class's
own declaration (True when the default is None, else the declared value, else the type default) and
`instantiate` from its own declaration (False for read-only parameters).  The per-slot MRO search
of `__param_inheritance` and the re-validation trigger are covered by the bounded layer only."""
import z3

from pyvc import spec as S
from pyvc import values as vm
from pyvc.engine import Raise
from pyvc.values import BoolV, ClsV, Conc, FuncV, Ref, Sym, TupV
from pyvc.verify import FunctionContract

PROP = "C11"
MOD = "param.parameterized"


def set_allow_none_contract():
    def setup(I, st):
        U = I.U
        self, T = S.param_obj(I, st, "Parameter", {"default": None}, label="self")
        arg = Sym(U.fresh("allow_None_arg"))
        fv = I.bound_method(self, I.src.find_method("Parameter", "_set_allow_None"))
        return fv, [arg], {}, {"self": self, "T": T, "arg": arg.t, "symbols": {"default": T["default"], "allow_None_arg": arg.t}}

    def post(I, info, st, oc):
        U = I.U
        if isinstance(oc, Raise):
            return [("does-not-raise", z3.BoolVal(False))]
        f = st.heap[info["self"].oid].fields
        if "allow_None" not in f:
            return [("sets allow_None", z3.BoolVal(False))]
        got = I.term(f["allow_None"])
        d, a = info["T"]["default"], info["arg"]
        want = z3.If(d == U.NONE, U.TRUE, z3.If(a != U.UNDEF, a, U.FALSE))
        return [("allow_None: True if default is None, else the declared value, else False (the type default)", got == want),
                ("nothing else is written", S.heap_unchanged(I, st, info["self"], except_=("allow_None",)))]
    return FunctionContract("%s:Parameter._set_allow_None" % MOD, PROP, setup, post, name="Parameter._set_allow_None")


def set_instantiate_contract():
    def setup(I, st):
        U = I.U
        self, T = S.param_obj(I, st, "Parameter", {"readonly": None}, label="self")
        st.pc.append(S.is_bool(I, T["readonly"]))
        arg = Sym(U.fresh("instantiate_arg"))
        fv = I.bound_method(self, I.src.find_method("Parameter", "_set_instantiate"))
        return fv, [arg], {}, {"self": self, "T": T, "arg": arg.t, "symbols": {"readonly": T["readonly"], "instantiate_arg": arg.t}}

    def post(I, info, st, oc):
        U = I.U
        if isinstance(oc, Raise):
            return [("does-not-raise", z3.BoolVal(False))]
        f = st.heap[info["self"].oid].fields
        if "instantiate" not in f:
            return [("sets instantiate", z3.BoolVal(False))]
        got = I.term(f["instantiate"])
        want = z3.If(info["T"]["readonly"] == U.TRUE, U.FALSE, z3.If(info["arg"] != U.UNDEF, info["arg"], U.FALSE))
        return [("instantiate: False for read-only, else the declared value, else False (the type default)", got == want),
                ("nothing else is written", S.heap_unchanged(I, st, info["self"], except_=("instantiate",)))]
    return FunctionContract("%s:Parameter._set_instantiate" % MOD, PROP, setup, post, name="Parameter._set_instantiate")


def contracts():
    return [set_allow_none_contract(), set_instantiate_contract()]


ASSUMPTIONS = ["Parameter._slot_defaults is the literal dict in the source (evaluated from the class body)"]
