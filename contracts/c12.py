"""C12 — instances and classes do not leak values or metadata into each other.

Deductive part:
  Parameter.__get__           the value an instance shows is its own stored value when it has one,
                              otherwise the class default (so an instance that never set a
                              non-instantiated parameter follows the class); reading never writes
  Parameter.__set__           an instance-level set never writes the class default (clause C12/… of
                              contracts/c02.py)
  _instantiate_param_obj      the per-instance Parameter is a fresh object, owned by the instance, with
                              a fresh empty watcher table, the same default object, and every other
                              slot either the same (immutable) object or a fresh copy of a mutable
                              container; the class Parameter object is not modified
"""
import z3

from pyvc import spec as S
from pyvc import values as vm
from pyvc.engine import OutOfReach, Raise
from pyvc.loops import LoopSpec
from pyvc.values import BoolV, ClsV, Conc, FuncV, Ref, Sym, TupV
from pyvc.verify import FunctionContract

PROP = "C12"
MOD = "param.parameterized"
SLOTS = ["name", "default", "doc", "precedence", "instantiate", "constant", "readonly", "pickle_default_value",
         "allow_None", "per_instance", "watchers", "owner", "allow_refs", "nested_refs", "_label", "bounds"]


def get_contract(mode):
    """mode: class | present | absent | no-private"""
    def setup(I, st):
        U = I.U
        self, T = S.param_obj(I, st, "Parameter", {"default": None}, label="self")
        st.heap[self.oid].fields["name"] = Conc("p")
        st.heap[self.oid].init["name"] = st.heap[self.oid].fields["name"]
        info = {"self": self, "T": T, "symbols": {}}
        if mode == "class":
            obj = Conc(None)
        else:
            o = I.alloc_obj(st, "Parameterized", lazy=False, label="obj")
            if mode != "no-private":
                priv = I.alloc_obj(st, "_InstancePrivate", lazy=False, label="private")
                vals = I.alloc_dict(st)
                other = Sym(U.fresh("other_value"))
                I.dict_store(st, vals, Conc("q"), other)
                if mode == "present":
                    mine = Sym(U.fresh("own_value"))
                    I.dict_store(st, vals, Conc("p"), mine)
                    info["mine"] = mine.t
                st.heap[priv.oid].fields["values"] = vals
                st.heap[o.oid].fields["_param__private"] = priv
                info["vals"] = vals
                info["vals0"] = dict(I.known_dict(st, vals))
            else:
                cp = I.alloc_obj(st, "_ClassPrivate", lazy=False, label="classprivate")
                st.heap[o.oid].fields["_param__private"] = cp
            obj = o
            info["obj"] = o
        fv = I.bound_method(self, I.src.find_method("Parameter", "__get__"))
        return fv, [obj, Sym(U.fresh("objtype"))], {}, info

    def post(I, info, st, oc):
        if isinstance(oc, Raise):
            return [("does-not-raise", z3.BoolVal(False))]
        T = info["T"]
        out = []
        if mode == "present":
            out.append(("instance with its own value keeps it", I.term(oc) == info["mine"]))
        else:
            out.append(("no instance value => the class default (follows later class changes)", I.term(oc) == T["default"]))
        out.append(("reading never writes the Parameter", S.heap_unchanged(I, st, info["self"])))
        if "vals" in info:
            now = I.known_dict(st, info["vals"])
            out.append(("reading never writes the instance store",
                        z3.BoolVal(now is not None and list(now) == list(info["vals0"]) and all(now[k] is info["vals0"][k] for k in now))))
        return out
    return FunctionContract("%s:Parameter.__get__" % MOD, PROP, setup, post, name="Parameter.__get__[%s]" % mode)


def instantiate_param_obj_contract():
    mutable = z3.Function("is_mutable_container", vm.V, z3.BoolSort())
    copy_of = z3.Function("copy_of", vm.V, vm.V)

    def configure(I):
        def copy_copy(I, st, fv, args, kwargs, ctx):
            x = args[0]
            if isinstance(x, Ref) and st.heap[x.oid].kind == "obj":
                src = st.heap[x.oid]
                r = I.alloc_obj(st, src.cls, lazy=False, label="copy")
                st.heap[r.oid].fields = dict(src.fields)
                st.ghost["shallow_copies"] = st.ghost.get("shallow_copies", []) + [(x, r)]
                return [(st, r)]
            if isinstance(x, Ref) and st.heap[x.oid].kind == "dict":
                src = st.heap[x.oid]
                r = I.alloc_dict(st, cls=src.cls, keys=src.keys, vals=src.vals, ckeys=None if src.ckeys is None else list(src.ckeys))
                for f, v in src.fields.items():
                    st.heap[r.oid].fields[f] = v
                return [(st, r)]
            if isinstance(x, Ref) and st.heap[x.oid].kind == "list":
                src = st.heap[x.oid]
                r = I.alloc_list(st, src.seq, cls=src.cls)
                if src.fields.get("$items") is not None:
                    st.heap[r.oid].fields["$items"] = list(src.fields["$items"])
                return [(st, r)]
            t = I.term(x)
            c = copy_of(t)
            I.U.well_typed(c)
            I.U.axioms.append(c != t)
            return [(st, Sym(c))]
        I.lib["copy.copy"] = copy_copy

        def is_mut(I, st, fv, args, kwargs, ctx):
            x = args[0]
            if isinstance(x, Ref):
                return [(st, Conc(st.heap[x.oid].kind in ("list", "dict")))]
            if isinstance(x, Conc):
                return [(st, Conc(False))]
            return [(st, BoolV(mutable(I.term(x))))]
        I.contracts["_is_mutable_container"] = is_mut

        def attr_hook(I, st, ov, attr, ctx):
            if attr == "_all_slots_" and isinstance(ov, ClsV):
                return [(st, TupV([Conc(s) for s in SLOTS]))]
            return None
        I.attr_hook = attr_hook

    def setup(I, st):
        U = I.U
        fields = {s: None for s in SLOTS if s not in ("watchers",)}
        p, T = S.param_obj(I, st, "Number", fields, label="class_param", lazy=False)
        w = I.alloc_dict(st)
        I.dict_store(st, w, Conc("value"), Sym(U.fresh("class_watchers")))
        st.heap[p.oid].fields["watchers"] = w
        st.heap[p.oid].init["watchers"] = w
        owner = Sym(U.fresh("instance"))
        st.pc.append(z3.Not(mutable(owner.t)))      # the owner is a Parameterized instance, not a container
        m = I.src.modules[MOD]
        fd = m.functions["_instantiate_param_obj"]
        fv = FuncV("repo", module=m, cls=None, node=fd, self=None, qual="_instantiate_param_obj")
        return fv, [p, owner], {}, {"p": p, "T": T, "owner": owner.t, "w": w, "symbols": {}, "mutable": mutable, "copy_of": copy_of}

    def post(I, info, st, oc):
        U = I.U
        if isinstance(oc, Raise) or not isinstance(oc, Ref):
            return [("returns a Parameter object", z3.BoolVal(False))]
        T = info["T"]
        f = st.heap[oc.oid].fields
        out = [("fresh object (not the class Parameter)", z3.BoolVal(oc.oid != info["p"].oid)),
               ("owned by the instance", I.term(f["owner"]) == info["owner"])]
        wv = f.get("watchers")
        fresh_w = isinstance(wv, Ref) and wv.oid != info["w"].oid and (I.known_dict(st, wv) == {})
        out.append(("fresh empty watcher table (class watchers do not fire on the instance Parameter)", z3.BoolVal(bool(fresh_w))))
        out.append(("default is the same object (values are not copied here)", I.term(f["default"]) == T["default"]))
        for s in SLOTS:
            if s in ("watchers", "owner", "default"):
                continue
            cur = I.term(f[s])
            out.append(("slot %s: same object if immutable, fresh copy if a mutable container" % s,
                        z3.If(info["mutable"](T[s]), cur == info["copy_of"](T[s]), cur == T[s])))
        out.append(("the class Parameter is not modified", S.heap_unchanged(I, st, info["p"])))
        cw = I.known_dict(st, info["w"])
        out.append(("the class watcher table is not modified", z3.BoolVal(cw is not None and list(cw) == ["value"])))
        return out
    return FunctionContract("%s:_instantiate_param_obj" % MOD, PROP, setup, post, configure=configure,
                            name="_instantiate_param_obj")


def contracts():
    from contracts import c02 as _c02
    return [get_contract(m) for m in ("class", "present", "absent", "no-private")] + [instantiate_param_obj_contract()] \
        + _c02.all_set_contracts(["C12/"])


ASSUMPTIONS = [
    "A-COPY: copy.copy(x) returns a fresh object with the same fields (shallow); for containers a fresh container copy_of(x) != x",
    "the slot list of a Parameter class (_all_slots_, computed by the metaclass at run time) is supplied by the contract for the Number family",
    "_setup_params/_instantiate_param (deep copy at construction), metaclass copy-on-write and per_instance=False are covered by the bounded layer only",
]
