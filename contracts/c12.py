"""C12 — instances and classes do not leak values or metadata into each other.

Deductive part:
  Parameter.__get__           the value an instance shows is its own stored value when it has one,
                              otherwise the class default (so an instance that never set a
                              non-instantiated parameter follows the class); reading never writes
  Parameter.__set__           an instance-level set never writes the class default (clause C12/… of
                              contracts/c02.py)
  _instantiate_param_obj      the per-instance Parameter is a fresh object, owned by the instance, with
                              a fresh empty watcher table, the same default object, and every other
                              slot either the same (immutable) object or a fresh copy of a mutable
                              container; the class Parameter object is not modified
"""
import z3

from pyvc import spec as S
from pyvc import values as vm
from pyvc.engine import OutOfReach, Raise
from pyvc.loops import LoopSpec
from pyvc.values import BoolV, ClsV, Conc, FuncV, Ref, Sym, TupV
from pyvc.verify import FunctionContract

PROP = "C12"
MOD = "param.parameterized"
SLOTS = ["name", "default", "doc", "precedence", "instantiate", "constant", "readonly", "pickle_default_value",
         "allow_None", "per_instance", "watchers", "owner", "allow_refs", "nested_refs", "_label", "bounds"]


def get_contract(mode):
    """mode: class | present | absent | no-private"""
    def setup(I, st):
        U = I.U
        self, T = S.param_obj(I, st, "Parameter", {"default": None}, label="self")
        st.heap[self.oid].fields["name"] = Conc("p")
        st.heap[self.oid].init["name"] = st.heap[self.oid].fields["name"]
        info = {"self": self, "T": T, "symbols": {}}
        if mode == "class":
            obj = Conc(None)
        else:
            o = I.alloc_obj(st, "Parameterized", lazy=False, label="obj")
            if mode != "no-private":
                priv = I.alloc_obj(st, "_InstancePrivate", lazy=False, label="private")
                vals = I.alloc_dict(st)
                other = Sym(U.fresh("other_value"))
                I.dict_store(st, vals, Conc("q"), other)
                if mode == "present":
                    mine = Sym(U.fresh("own_value"))
                    I.dict_store(st, vals, Conc("p"), mine)
                    info["mine"] = mine.t
                st.heap[priv.oid].fields["values"] = vals
                st.heap[o.oid].fields["_param__private"] = priv
                info["vals"] = vals
                info["vals0"] = dict(I.known_dict(st, vals))
            else:
                cp = I.alloc_obj(st, "_ClassPrivate", lazy=False, label="classprivate")
                st.heap[o.oid].fields["_param__private"] = cp
            obj = o
            info["obj"] = o
        fv = I.bound_method(self, I.src.find_method("Parameter", "__get__"))
        return fv, [obj, Sym(U.fresh("objtype"))], {}, info

    def post(I, info, st, oc):
        if isinstance(oc, Raise):
            return [("does-not-raise", z3.BoolVal(False))]
        T = info["T"]
        out = []
        if mode == "present":
            out.append(("instance with its own value keeps it", I.term(oc) == info["mine"]))
        else:
            out.append(("no instance value => the class default (follows later class changes)", I.term(oc) == T["default"]))
        out.append(("reading never writes the Parameter", S.heap_unchanged(I, st, info["self"])))
        if "vals" in info:
            now = I.known_dict(st, info["vals"])
            out.append(("reading never writes the instance store",
                        z3.BoolVal(now is not None and list(now) == list(info["vals0"]) and all(now[k] is info["vals0"][k] for k in now))))
        return out
    return FunctionContract("%s:Parameter.__get__" % MOD, PROP, setup, post, name="Parameter.__get__[%s]" % mode)


def instantiate_param_obj_contract():
    mutable = z3.Function("is_mutable_container", vm.V, z3.BoolSort())
    copy_of = z3.Function("copy_of", vm.V, vm.V)

    def configure(I):
        def copy_copy(I, st, fv, args, kwargs, ctx):
            x = args[0]
            if isinstance(x, Ref) and st.heap[x.oid].kind == "obj":
                src = st.heap[x.oid]
                r = I.alloc_obj(st, src.cls, lazy=False, label="copy")
                st.heap[r.oid].fields = dict(src.fields)
                st.ghost["shallow_copies"] = st.ghost.get("shallow_copies", []) + [(x, r)]
                return [(st, r)]
            if isinstance(x, Ref) and st.heap[x.oid].kind == "dict":
                src = st.heap[x.oid]
                r = I.alloc_dict(st, cls=src.cls, keys=src.keys, vals=src.vals, ckeys=None if src.ckeys is None else list(src.ckeys))
                for f, v in src.fields.items():
                    st.heap[r.oid].fields[f] = v
                return [(st, r)]
            if isinstance(x, Ref) and st.heap[x.oid].kind == "list":
                src = st.heap[x.oid]
                r = I.alloc_list(st, src.seq, cls=src.cls)
                if src.fields.get("$items") is not None:
                    st.heap[r.oid].fields["$items"] = list(src.fields["$items"])
                return [(st, r)]
            t = I.term(x)
            c = copy_of(t)
            I.U.well_typed(c)
            I.U.axioms.append(c != t)
            return [(st, Sym(c))]
        I.lib["copy.copy"] = copy_copy

        def is_mut(I, st, fv, args, kwargs, ctx):
            x = args[0]
            if isinstance(x, Ref):
                return [(st, Conc(st.heap[x.oid].kind in ("list", "dict")))]
            if isinstance(x, Conc):
                return [(st, Conc(False))]
            return [(st, BoolV(mutable(I.term(x))))]
        I.contracts["_is_mutable_container"] = is_mut

        def attr_hook(I, st, ov, attr, ctx):
            if attr == "_all_slots_" and isinstance(ov, ClsV):
                return [(st, TupV([Conc(s) for s in SLOTS]))]
            return None
        I.attr_hook = attr_hook

    def setup(I, st):
        U = I.U
        fields = {s: None for s in SLOTS if s not in ("watchers",)}
        p, T = S.param_obj(I, st, "Number", fields, label="class_param", lazy=False)
        w = I.alloc_dict(st)
        I.dict_store(st, w, Conc("value"), Sym(U.fresh("class_watchers")))
        st.heap[p.oid].fields["watchers"] = w
        st.heap[p.oid].init["watchers"] = w
        owner = Sym(U.fresh("instance"))
        st.pc.append(z3.Not(mutable(owner.t)))      # the owner is a Parameterized instance, not a container
        m = I.src.modules[MOD]
        fd = m.functions["_instantiate_param_obj"]
        fv = FuncV("repo", module=m, cls=None, node=fd, self=None, qual="_instantiate_param_obj")
        return fv, [p, owner], {}, {"p": p, "T": T, "owner": owner.t, "w": w, "symbols": {}, "mutable": mutable, "copy_of": copy_of}

    def post(I, info, st, oc):
        U = I.U
        if isinstance(oc, Raise) or not isinstance(oc, Ref):
            return [("returns a Parameter object", z3.BoolVal(False))]
        T = info["T"]
        f = st.heap[oc.oid].fields
        out = [("fresh object (not the class Parameter)", z3.BoolVal(oc.oid != info["p"].oid)),
               ("owned by the instance", I.term(f["owner"]) == info["owner"])]
        wv = f.get("watchers")
        fresh_w = isinstance(wv, Ref) and wv.oid != info["w"].oid and (I.known_dict(st, wv) == {})
        out.append(("fresh empty watcher table (class watchers do not fire on the instance Parameter)", z3.BoolVal(bool(fresh_w))))
        out.append(("default is the same object (values are not copied here)", I.term(f["default"]) == T["default"]))
        for s in SLOTS:
            if s in ("watchers", "owner", "default"):
                continue
            cur = I.term(f[s])
            out.append(("slot %s: same object if immutable, fresh copy if a mutable container" % s,
                        z3.If(info["mutable"](T[s]), cur == info["copy_of"](T[s]), cur == T[s])))
        out.append(("the class Parameter is not modified", S.heap_unchanged(I, st, info["p"])))
        cw = I.known_dict(st, info["w"])
        out.append(("the class watcher table is not modified", z3.BoolVal(cw is not None and list(cw) == ["value"])))
        return out
    return FunctionContract("%s:_instantiate_param_obj" % MOD, PROP, setup, post, configure=configure,
                            name="_instantiate_param_obj")


def contracts():
    from contracts import c02 as _c02
    return [get_contract(m) for m in ("class", "present", "absent", "no-private")] + [instantiate_param_obj_contract()] \
        + _c02.all_set_contracts(["C12/"])


ASSUMPTIONS = [
    "A-COPY: copy.copy(x) returns a fresh object with the same fields (shallow); for containers a fresh container copy_of(x) != x",
    "the slot list of a Parameter class (_all_slots_, computed by the metaclass at run time) is supplied by the contract for the Number family",
    "_setup_params/_instantiate_param (deep copy at construction), metaclass copy-on-write and per_instance=False are covered by the bounded layer only",
]


# ======================================================================================
# Parameters._setup_params — what the constructor pins on the instance, and the keyword route
# ======================================================================================
def setup_params_contract(prefixes=None):
    from contracts import dispatch_model as dm
    from pyvc.objects import sym_field
    holder = {}

    def configure(I):
        I.sym_fields = {"instantiate", "constant", "allow_refs", "owner", "name"}
        # the as_uninitialized wrapper is verified by its own contract (contracts/c05.py)
        I.lib["deco:as_uninitialized"] = lambda I, st, fv, args, kwargs, ctx: None

        def instantiate_param(I, st, fv, args, kwargs, ctx):
            p = I.term(args[0])
            deep = kwargs.get("deepcopy", args[1] if len(args) > 1 else Conc(True))
            key = "called_deep" if I.truth(deep) is True else ("called_ref" if I.truth(deep) is False else None)
            if key is None:
                raise OutOfReach("_instantiate_param with symbolic deepcopy flag")
            st.ghost[key] = z3.Store(st.ghost[key], p, True)
            return [(st, Conc(None))]
        I.contracts["Parameters._instantiate_param"] = instantiate_param

        def cls_parameters(I, st, fv, args, kwargs, ctx):
            return [(st, st.ghost["objects_dict"])]
        I.contracts["Parameters._cls_parameters"] = cls_parameters

        def gpd(I, st, fv, args, kwargs, ctx):
            return [(st, TupV([st.ghost["desc"], Sym(I.U.fresh("owning_class"))]))]
        I.contracts["ParameterizedMetaclass.get_param_descriptor"] = gpd

        def resolve_ref(I, st, fv, args, kwargs, ctx):
            U = I.U
            ref, deps, val2, is_async = (Sym(U.fresh(n)) for n in ("ref", "ref_deps", "resolved", "is_async"))
            st.pc.append(S.is_bool(I, is_async.t))
            st.ghost["resolved"] = (ref, deps, val2, is_async)
            q = st.fork()
            return [(st, TupV([ref, deps, val2, is_async])), (q, Raise("$User", origin="_resolve_ref"))]
        I.contracts["Parameters._resolve_ref"] = resolve_ref

        def setattr_hook(I, st, ref, attr, v, ctx):
            if ref == holder.get("self") and attr == "x":
                st.ghost["sets"] = st.ghost.get("sets", []) + [v]
                q1 = st.fork()
                return [(st, Conc(None)), (q1, Raise("ValueError", origin="setattr"))]
            return None
        I.setattr_hook = setattr_hook

    def not_name(k):
        return z3.Not(z3.And(vm.ty(k) == vm.TAG["str"], vm.strv(k) == z3.StringVal("name")))

    def cond_deep(I, st, k):
        od = st.heap[st.ghost["objects_dict"].oid]
        p = z3.Select(od.vals, k)
        return z3.And(vm.truthy(z3.Select(sym_field(I, st, "instantiate"), p)), not_name(k))

    def cond_ref(I, st, k):
        od = st.heap[st.ghost["objects_dict"].oid]
        p = z3.Select(od.vals, k)
        return z3.And(z3.Not(vm.truthy(z3.Select(sym_field(I, st, "instantiate"), p))),
                      vm.truthy(z3.Select(sym_field(I, st, "constant"), p)), not_name(k))

    def setup(I, st):
        U = I.U
        selfo = I.alloc_obj(st, "Parameterized", lazy=True, label="self")
        holder["self"] = selfo
        cls = I.alloc_obj(st, "ParameterizedMetaclass", lazy=True, label="cls")
        cpriv = I.alloc_obj(st, "_ClassPrivate", lazy=True, label="cls.private")
        st.heap[cpriv.oid].fields["explicit_no_refs"] = I.alloc_list(st, U.fresh_seq("explicit_no_refs"))
        st.heap[cls.oid].fields["_param__private"] = cpriv
        par = I.alloc_obj(st, "Parameters", lazy=False, label="self_")
        st.heap[par.oid].fields.update({"cls": cls, "self": selfo})
        od = I.alloc_dict(st, keys=U.fresh_seq("pnames"), vals=z3.Const("pobjs", z3.ArraySort(vm.V, vm.V)))
        st.ghost["objects_dict"] = od
        st.ghost["called_deep"] = z3.K(vm.V, False)
        st.ghost["called_ref"] = z3.K(vm.V, False)
        st.ghost["desc"] = Sym(U.fresh("descriptor"))
        holder["k"] = U.fresh("some_param_name")
        # touch the field maps so that they exist before the loops havoc the heap
        sym_field(I, st, "instantiate"); sym_field(I, st, "constant")
        val = Sym(U.fresh("kwarg_value"))
        fv = I.bound_method(par, I.src.find_method("Parameters", "_setup_params"))
        return fv, [], {"x": val}, {"od": od, "val": val, "symbols": {}}

    def dicts(I, st):
        dc, rf = st.env.get("params_to_deepcopy"), st.env.get("params_to_ref")
        return st.heap[dc.oid], st.heap[rf.oid]

    def inv_collect(I, st, pre):
        k = holder["k"]
        od = st.heap[st.ghost["objects_dict"].oid]
        dc, rf = dicts(I, st)
        u = z3.Unit(k)
        seen = z3.Contains(pre.seq, u)
        return z3.And(
            z3.Implies(seen, z3.And(z3.Contains(dc.keys, u) == cond_deep(I, st, k),
                                    z3.Contains(rf.keys, u) == cond_ref(I, st, k),
                                    z3.Implies(cond_deep(I, st, k), z3.Select(dc.vals, k) == z3.Select(od.vals, k)),
                                    z3.Implies(cond_ref(I, st, k), z3.Select(rf.vals, k) == z3.Select(od.vals, k)))),
            z3.Implies(z3.Not(seen), z3.And(z3.Not(z3.Contains(dc.keys, u)), z3.Not(z3.Contains(rf.keys, u)))))

    def havoc_collect(I, st):
        for nm in ("params_to_deepcopy", "params_to_ref"):
            h = st.heap[st.env[nm].oid]
            h.keys = I.U.fresh_seq(nm + "_keys")
            h.vals = z3.Const("%s_vals!%d" % (nm, I.new_oid()), z3.ArraySort(vm.V, vm.V))
            h.ckeys = None
            h.fields.pop("$entries", None)

    def inv_deep(I, st, pre):
        k = holder["k"]
        dc, rf = dicts(I, st)
        return z3.Implies(z3.Contains(pre.seq, z3.Unit(k)), z3.Select(st.ghost["called_deep"], z3.Select(dc.vals, k)))

    def inv_refl(I, st, pre):
        k = holder["k"]
        dc, rf = dicts(I, st)
        return z3.And(z3.Implies(z3.Contains(pre.seq, z3.Unit(k)), z3.Select(st.ghost["called_ref"], z3.Select(rf.vals, k))),
                      z3.Implies(z3.Contains(dc.keys, z3.Unit(k)), z3.Select(st.ghost["called_deep"], z3.Select(dc.vals, k))))

    def havoc_called(which):
        def h(I, st):
            st.ghost[which] = z3.Const("%s!%d" % (which, I.new_oid()), z3.ArraySort(vm.V, z3.BoolSort()))
        return h

    def post(I, info, st, oc):
        U = I.U
        k = holder["k"]
        od = st.heap[info["od"].oid]
        pk = z3.Select(od.vals, k)
        inobj = z3.Contains(od.keys, z3.Unit(k))
        out = []
        origin = oc.origin if isinstance(oc, Raise) else None
        # what is pinned on the instance happens before the keyword route and does not depend on it
        if not isinstance(oc, Raise) or origin in ("setattr", "_resolve_ref") or oc.cls == "TypeError":
            out.append(("C12/every instantiate=True parameter gets its own deep copy of the default (whatever the keywords are)",
                        z3.Implies(z3.And(inobj, cond_deep(I, st, k)), z3.Select(st.ghost["called_deep"], pk))))
            out.append(("C14/every constant parameter is pinned to the object it has at construction (whatever its default is)",
                        z3.Implies(z3.And(inobj, cond_ref(I, st, k)), z3.Select(st.ghost["called_ref"], pk))))
        if isinstance(oc, Raise):
            return out
        # keyword route (one keyword `x`)
        res = st.ghost.get("resolved")
        sets = st.ghost.get("sets", [])
        if isinstance(oc, TupV) and len(oc.items) == 2 and res is not None:
            refs, deps = oc.items
            rd, dd = I.known_dict(st, refs), I.known_dict(st, deps)
            ref, rdeps, resolved, is_async = res
            px = z3.Select(od.vals, U.lit("x"))
            allow = z3.And(z3.Contains(od.keys, z3.Unit(U.lit("x"))), px != U.NONE,
                           vm.truthy(z3.Select(sym_field(I, st, "allow_refs"), px)))
            linked = rd is not None and "x" in rd and rd["x"] is ref and dd is not None and dd.get("x") is rdeps
            out.append(("C08/a reference given to the constructor is linked (recorded with its dependencies) even if it yields no value yet",
                        z3.Implies(z3.And(allow, ref.t != U.NONE), z3.BoolVal(bool(linked)))))
            novalue = z3.Or(resolved.t == U.UNDEF, resolved.t == U.cls_const("Skip"))
            should_set = z3.And(is_async.t == U.FALSE, z3.Not(novalue))
            did_set = len(sets) == 1 and sets[0] is resolved
            out.append(("C01/the resolved keyword value is assigned through the descriptor exactly when it exists",
                        z3.Implies(allow, z3.And(z3.Implies(should_set, z3.BoolVal(bool(did_set))),
                                                 z3.Implies(z3.Not(should_set), z3.BoolVal(len(sets) == 0))))))
        return out
    loops = {
        ("Parameters._setup_params", "objects.items()"): LoopSpec("objects.items()", inv=inv_collect, heap=havoc_collect, name="collect-params-to-pin"),
        ("Parameters._setup_params", "params_to_deepcopy.values()"): LoopSpec("params_to_deepcopy.values()", inv=inv_deep, heap=havoc_called("called_deep"), name="deep-copy-each"),
        ("Parameters._setup_params", "params_to_ref.values()"): LoopSpec("params_to_ref.values()", inv=inv_refl, heap=havoc_called("called_ref"), name="pin-each-constant"),
    }
    c = FunctionContract("%s:Parameters._setup_params" % MOD, ("C12", "C14", "C08", "C01"), setup, post, configure=configure,
                         loops=loops, name="Parameters._setup_params")
    c.clause_prefixes = prefixes
    return c


_c12_base = contracts


def contracts():
    return _c12_base() + [setup_params_contract(["C12/"])]


# What an instance gets at construction is driven by the class's parameter table: that table (which
# Parameter object a name shows, `_cls_parameters`) and its invalidation for every descendant
# (`_clear_params_cache`) are verified for C13 and are part of this check as well.
_c12_base2 = contracts


def contracts():
    from contracts import c13 as _c13
    extra = [_c13.cls_parameters_contract(), _c13.clear_cache_contract()]
    for c in extra:
        c.prop = "C12"
    return _c12_base2() + extra


def instantiate_param_contract(deep):
    """`Parameters._instantiate_param(param_obj, deepcopy=…)` (sharing mode off): the instance gets,
    under the parameter's name, a DEEP copy of the class default (`copy.deepcopy(default)` — whatever
    the default's outer type is) when deepcopy is requested, and the default object itself otherwise."""
    from pyvc.objects import sym_field
    deepF = z3.Function("deep_copy_of", vm.V, vm.V)

    def configure(I):
        I.sym_fields = {"default", "name"}

        def deepcopy(I, st, fv, args, kwargs, ctx):
            st.ghost["deepcopied"] = st.ghost.get("deepcopied", []) + [I.term(args[0])]
            r = deepF(I.term(args[0]))
            I.U.well_typed(r)
            return [(st, Sym(r))]
        I.lib["copy.deepcopy"] = deepcopy

        def vmethod(I, st, name, selfv, args, kwargs, ctx):
            if name == "_generate_name":
                return [(st, Conc(None))]
            return None
        I.lib["$value_method"] = vmethod

    def setup(I, st):
        U = I.U
        obj = I.alloc_obj(st, "Parameterized", lazy=True, label="obj")
        priv = I.alloc_obj(st, "_InstancePrivate", lazy=True, label="obj._param__private")
        values = I.alloc_dict(st, keys=U.fresh_seq("set_names"), vals=z3.Const("instance_values", z3.ArraySort(vm.V, vm.V)))
        st.heap[priv.oid].fields["values"] = values
        st.heap[obj.oid].fields["_param__private"] = priv
        par = I.alloc_obj(st, "Parameters", lazy=False, label="param")
        st.heap[par.oid].fields.update({"cls": ClsV("Parameterized"), "self": obj, "self_or_cls": obj})
        pobj = Sym(U.fresh("param_obj"))
        Fd, Fn = sym_field(I, st, "default"), sym_field(I, st, "name")
        nm = z3.Select(Fn, pobj.t)
        st.pc += [vm.ty(nm) == vm.TAG["str"], vm.truthy(nm), vm.truthy(I.term(values))]
        U.well_typed(nm)
        fv = I.bound_method(par, I.src.find_method("Parameters", "_instantiate_param"))
        return fv, [pobj], {"deepcopy": Conc(deep)}, {"values": values, "default": z3.Select(Fd, pobj.t), "name": nm, "symbols": {}}

    def post(I, info, st, oc):
        if isinstance(oc, Raise):
            return [("does-not-raise", z3.BoolVal(False))]
        h = st.heap[info["values"].oid]
        got = z3.Select(h.vals, info["name"])
        want = deepF(info["default"]) if deep else info["default"]
        return [("the instance holds %s under the parameter's name" % ("a deep copy of the class default" if deep else "the class default object itself"),
                 z3.And(z3.Contains(h.keys, z3.Unit(info["name"])), got == want))]
    return FunctionContract("%s:Parameters._instantiate_param" % MOD, PROP, setup, post, configure=configure,
                            name="Parameters._instantiate_param[%s]" % ("deepcopy" if deep else "reference"))


_c12_base3 = contracts


def contracts():
    return _c12_base3() + [instantiate_param_contract(True), instantiate_param_contract(False)]


# class-level assignment on a subclass: copy-on-write of the inherited Parameter (verified for C13 / C02)
_c12_base4 = contracts


def contracts():
    from contracts import c13 as _c13
    c = _c13.metaclass_setattr_contract()
    c.prop = "C12"
    return _c12_base4() + [c]


# installing the merged slot values: mutable containers are the Parameter's own copies before
# `_update_state()` may mutate them (verified for C11)
_c12_base5 = contracts


def contracts():
    from contracts import c11 as _c11
    c = _c11.install_slots_contract()
    c.prop = "C12"
    return _c12_base5() + [c]


# the Parameter a class-level assignment goes through: the nearest class in the MRO that declares one
# (verified for C13)
_c12_base_gpd = contracts


def contracts():
    from contracts import c13 as _c13
    c = _c13.get_param_descriptor_contract()
    c.prop = "C12"
    return _c12_base_gpd() + [c]


# ---------------------------------------------------------------------------------------------
# concrete probe: a value given to the CONSTRUCTOR that an unchecked Selector does not know yet
# ---------------------------------------------------------------------------------------------
CTOR_UNCHECKED_REPLAY = '''import sys, os, logging
sys.path.insert(0, os.environ.get('PYVC_REPO', '/repo'))
logging.disable(logging.WARNING)
import param
bad = []
for kind, mk, val in (('Selector', lambda o: param.Selector(objects=o, check_on_set=False), 5),
                      ('ListSelector', lambda o: param.ListSelector(default=[1], objects=o, check_on_set=False), [1, 5])):
    for decl, objs in (('list', [1, 2]), ('dict', {'one': 1, 'two': 2})):
        A = type('A', (param.Parameterized,), {'t': mk(type(objs)(objs))})
        B = type('B', (A,), {})
        other = A()
        before = list(A.param.t.objects)
        a = A(t=val)
        for who, p in (('the class', A.param.t), ('a subclass', B.param.t), ('another instance', other.param.t), ('a new instance', A().param.t)):
            if list(p.objects) != before:
                bad.append('constructor value %r admitted by an unchecked %s (%s objects): %s now reports class-level objects %r (were %r)'
                           % (val, kind, decl, who, list(p.objects), before))
                break
for b in bad:
    print(b)
if bad:
    print('REPRODUCED'); sys.exit(1)
print('NOT-REPRODUCED'); sys.exit(0)
'''

PROBES = [("a constructor value unknown to an unchecked Selector stays with the instance", CTOR_UNCHECKED_REPLAY)]


# ======================================================================================
# Parameters.self_or_cls — the target of .param.update / trigger / values(): the instance whenever
# there is one (whatever its truth value), the class otherwise
# ======================================================================================
FALSY_REPLAY = '''import sys, os, itertools
sys.path.insert(0, os.environ.get('PYVC_REPO', '/repo'))
import param
bad = []
class Bag(param.Parameterized):
    x = param.Number(default=1)
    items = param.List(default=[])
    def __len__(self):
        return len(self.items)
class Off(param.Parameterized):
    x = param.Number(default=1)
    items = param.List(default=[])
    def __bool__(self):
        return False
for cls in (Bag, Off):
    for how in ('update', 'update-mapping', 'update-context', 'set_param', 'trigger'):
        other = cls()
        o = cls()
        seen = []
        o.param.watch(lambda e: seen.append(e.new), 'x')
        import warnings
        with warnings.catch_warnings():
            warnings.simplefilter('ignore')
            if how == 'update':
                o.param.update(x=5)
            elif how == 'update-mapping':
                o.param.update({'x': 5})
            elif how == 'update-context':
                with o.param.update(x=5):
                    inside = o.x
                if inside != 5:
                    bad.append('%s (falsy instance), update context: the instance shows %r inside the block' % (cls.__name__, inside))
            elif how == 'set_param':
                o.param.set_param(x=5)
            else:
                o.x = 5
                o.param.trigger('x')
        want = 1 if how == 'update-context' else 5
        if o.x != want:
            bad.append('%s (falsy instance), %s: the instance holds %r, expected %r' % (cls.__name__, how, o.x, want))
        if cls.x != 1 or other.x != 1:
            bad.append('%s (falsy instance), %s through the instance namespace changed the class default to %r (another instance shows %r)'
                       % (cls.__name__, how, cls.x, other.x))
            cls.x = 1
        if how == 'trigger' and seen[-1:] != [5]:
            bad.append('%s (falsy instance), trigger: the instance watcher saw %r' % (cls.__name__, seen))
        if o.param.values()['x'] != o.x:
            bad.append('%s (falsy instance), %s: values() reports %r, the attribute is %r' % (cls.__name__, how, o.param.values()['x'], o.x))
if bad:
    print('REPRODUCED: ' + bad[0]); sys.exit(1)
print('NOT-REPRODUCED'); sys.exit(0)
'''


def self_or_cls_contract():
    def configure(I):
        pass

    def setup(I, st):
        self_ = I.alloc_obj(st, "Parameters", lazy=False, label="self_")
        inst, cls_ = Sym(I.U.fresh("instance")), Sym(I.U.fresh("cls"))
        st.heap[self_.oid].fields.update({"self": inst, "cls": cls_})
        found = I.src.find_method("Parameters", "self_or_cls")
        if found is None:
            raise OutOfReach("Parameters.self_or_cls not defined")
        c, m, fd = found
        fv = FuncV("repo", module=m, cls=c, node=fd, self=self_, qual="Parameters.self_or_cls")
        return fv, [], {}, {"inst": inst.t, "cls": cls_.t, "symbols": {}}

    def post(I, info, st, oc):
        if isinstance(oc, Raise):
            return [("does-not-raise", z3.BoolVal(False))]
        return [("the instance whenever there is one — whatever its truth value —, the class only when there is none",
                 I.term(oc) == z3.If(info["inst"] == I.U.NONE, info["cls"], info["inst"]))]
    c = FunctionContract("%s:Parameters.self_or_cls" % MOD, PROP, setup, post, configure=configure, name="Parameters.self_or_cls")
    c.static_replay = FALSY_REPLAY
    c.static_witness = "a Parameterized instance whose truth value is False (empty container, __bool__)"
    return c


_c12_base_soc = contracts


def contracts():
    return _c12_base_soc() + [self_or_cls_contract()]


# edit_constant restores exactly the flags it switched off — an instance-level edit never reaches the
# class-level Parameter (verified for C14)
_c12_base_ec = contracts


def contracts():
    from contracts import c14 as _c14
    c = _c14.edit_constant_contract()
    c.prop = "C12"
    return _c12_base_ec() + [c]


SHARED_REPLAY = '''import sys, os, itertools
sys.path.insert(0, os.environ.get('PYVC_REPO', '/repo'))
import param
bad = []
def layer(default):
    class Layer(param.Parameterized):
        cfg = param.Dict(default=dict(default), instantiate=True)
        tags = param.List(default=list(default), constant=True)
    return Layer
def other(default):
    class Layer(param.Parameterized):                          # same __name__, another qualified name
        cfg = param.Dict(default=dict(default), instantiate=True)
        tags = param.List(default=list(default), constant=True)
    return Layer
for A, B in ((layer({'kind': 'audio'}), layer({'kind': 'video'})), (layer({'kind': 'audio'}), other({'kind': 'video'}))):
  with param.shared_parameters():
    a1, a2, b1 = A(), A(), B()
  if True:
    if a1.cfg is not a2.cfg:
        bad.append('shared_parameters: two instances of ONE class do not share the instantiated default')
    if b1.cfg is a1.cfg or b1.cfg != {'kind': 'video'}:
        bad.append('shared_parameters: an instance of another class of the same name got cfg %r (identical object: %r)' % (b1.cfg, b1.cfg is a1.cfg))
    if b1.tags is a1.tags or b1.tags != ['kind']:
        bad.append('shared_parameters: an instance of another class of the same name got tags %r' % (b1.tags,))
    a1.cfg['edited'] = True
    if 'edited' in b1.cfg or 'edited' in B().cfg or 'edited' in A().cfg:
        bad.append('shared_parameters: an in-place edit through one instance shows up on an unrelated class / on later instances')
if bad:
    print('REPRODUCED: ' + bad[0]); sys.exit(1)
print('NOT-REPRODUCED'); sys.exit(0)
'''

PROBES = PROBES + [("shared_parameters shares per class, not per class name", SHARED_REPLAY)]


# an object whose constructor failed half-way is still an instance: its namespace must hand out instance
# copies, which it does only once it is marked initialized (verified for C14)
_c12_base_init = contracts


def contracts():
    from contracts import c14 as _c14
    c = _c14.init_block_contract()
    c.prop = "C12"
    return _c12_base_init() + [c]
