"""C13 — the `.param` namespace always agrees with attribute access.

Contract shape: cache invariant quantified over ALL classes (a Skolem class `c`):
    CacheOK(c):  cache(c) == {}  or  cache(c) == mro_params(c)
`mro_params(c)` changes only when the dictionary of a class in mro(c) gains / loses a Parameter, so
every such write must be followed by emptying the cache of the class *and of every descendant*:

  ParameterizedMetaclass._clear_params_cache(mcs)
        for an arbitrary class c:  c ∈ descendents(mcs)  =>  cache(c) is emptied     (loop invariant)
  Parameters.add_parameter
        the class-dictionary write is followed by exactly one _clear_params_cache of that class
  ParameterizedMetaclass.__setattr__
        copy-on-write of an inherited Parameter and assignment of a Parameter object are each
        followed by _clear_params_cache; a plain value reaches the descriptor's __set__ exactly once
"""
import z3

from pyvc import spec as S
from pyvc import values as vm
from pyvc.engine import OutOfReach, Raise
from pyvc.loops import LoopSpec
from pyvc.values import BoolV, ClsV, Conc, FuncV, Ref, Sym, TupV
from pyvc.verify import FunctionContract

PROP = "C13"
MOD = "param.parameterized"


def cache_of(I, st, c):
    from pyvc.objects import sym_field
    priv = z3.Select(sym_field(I, st, "_param__private"), c)
    return z3.Select(sym_field(I, st, "params"), priv)


CLEAR_CACHE_REPLAY = '''import sys, os, itertools
sys.path.insert(0, os.environ.get('PYVC_REPO', '/repo'))
import param
bad = []
# hierarchies of depth 1..3 (also a diamond); any subset of the classes has its .param cache filled
# before a Parameter is added to / assigned on / re-declared on the ROOT: every class below must show it
def build(shape):
    R = type('R', (param.Parameterized,), {'x': param.Number(1)})
    if shape == 'chain':
        A = type('A', (R,), {}); B = type('B', (A,), {}); C = type('C', (B,), {})
        return R, [A, B, C]
    if shape == 'abstract':
        # classes that declare themselves abstract are classes like any other for the namespace
        A = type('A', (R,), {'_A__abstract': True}); B = type('B', (A,), {}); C = type('C', (B,), {'_C__abstract': True})
        return R, [A, B, C]
    if shape == 'fan':
        A = type('A', (R,), {}); B = type('B', (R,), {}); C = type('C', (A,), {}); D = type('D', (B,), {})
        return R, [A, B, C, D]
    A = type('A', (R,), {}); B = type('B', (R,), {}); D = type('D', (A, B), {}); E = type('E', (D,), {})
    return R, [A, B, D, E]
for shape in ('chain', 'abstract', 'fan', 'diamond'):
    n = len(build(shape)[1])
    for mask in range(2 ** n):
        for how in ('add', 'assign-parameter', 'class-set-on-first-child'):
            R, below = build(shape)
            filled = [c for i, c in enumerate(below) if mask >> i & 1]
            for c in filled:
                c.param.objects('existing'); list(c.param); c.param.values()
            if how == 'add':
                R.param.add_parameter('z', param.Number(7)); name, want_owner = 'z', None
            elif how == 'assign-parameter':
                R.z = param.Number(7); name, want_owner = 'z', None
            else:
                below[0].x = 3; name, want_owner = 'x', below[0]
            for c in below:
                if name not in c.param:
                    bad.append('%s, caches filled for %s, %s: %s.param does not list %r although %s.%s works'
                               % (shape, [k.__name__ for k in filled], how, c.__name__, name, c.__name__, name))
                    continue
                import inspect
                if c.param[name] is not inspect.getattr_static(c, name):
                    bad.append('%s, caches filled for %s, %s: %s.param[%r] is not the Parameter that governs %s.%s'
                               % (shape, [k.__name__ for k in filled], how, c.__name__, name, c.__name__, name))
                if how == 'add' and 'z' not in c(z=-2.5).param.pprint():     # (a Parameter ASSIGNED to a class has no name: C11-b03)
                    bad.append('%s, caches filled for %s, %s: pprint of %s(z=-2.5) drops z' % (shape, [k.__name__ for k in filled], how, c.__name__))
            # the hierarchy grows between two invalidations: a class defined afterwards, anywhere below, counts too
            if mask in (0, 2 ** n - 1):
                parent = below[0] if mask == 0 else below[-1]
                N = type('N', (parent,), {})
                N.param.objects('existing'); list(N.param)
                R.param.add_parameter('w', param.Number(9))
                for c in below + [N]:
                    if 'w' not in c.param:
                        bad.append('%s, %s, then class N defined below %s and used, then w added to the root: %s.param does not list w although %s.w works'
                                   % (shape, how, parent.__name__, c.__name__, c.__name__))
# instances: a namespace read before the class changed is rebuilt afterwards, whatever the instance holds
for copies, how in itertools.product(('none', 'read-item', 'instance-set', 'watch'), ('add', 'class-set-on-child')):
    R, below = build('chain')
    K = below[1]
    inst = K()
    if copies == 'read-item':
        inst.param['x']
    elif copies == 'instance-set':
        inst.x = 2
    elif copies == 'watch':
        inst.param.watch(lambda e: None, 'x')
    inst.param.values(); repr(inst); list(inst.param.objects('existing'))
    if how == 'add':
        R.param.add_parameter('z', param.Number(7))
        for view, names in (('values()', list(inst.param.values())), ("objects('existing')", list(inst.param.objects('existing'))),
                            ('repr', ['z'] if 'z=' in repr(inst) else []), ('serialization', list(__import__('json').loads(inst.param.serialize_parameters())))):
            if 'z' not in names:
                bad.append('instance (%s) whose namespace was read before z was added to the root class: %s does not list z although inst.z works' % (copies, view))
    else:
        below[0].x = 3
        own = below[0].param['x']
        shown = inst.param.objects('existing')['x']
        if copies in ('none',) and shown is not own:
            bad.append('instance (%s) read before an ancestor got its own copy of x: objects(existing)[x] is not the Parameter that governs the class now' % copies)
        if copies == 'none' and inst.param.values()['x'] != inst.x:
            bad.append('instance (%s): values()[x] == %r but inst.x == %r' % (copies, inst.param.values()['x'], inst.x))
if bad:
    print('REPRODUCED: ' + bad[0]); sys.exit(1)
print('NOT-REPRODUCED'); sys.exit(0)
'''


def clear_cache_contract():
    holder = {}

    def configure(I):
        I.sym_fields = {"_param__private", "params"}

        def vmethod(I, st, name, selfv, args, kwargs, ctx):
            if name == "clear":
                cl = st.ghost.get("cleared")
                st.ghost["cleared"] = z3.Store(cl, I.term(selfv), True)
                return [(st, Conc(None))]
            return None
        I.lib["$value_method"] = vmethod

        def descendents(I, st, fv, args, kwargs, ctx):
            # descendents(cls): the class and ALL its subclasses.  Any further argument (concrete=True
            # leaves out the classes flagged abstract) yields some OTHER list, about which nothing is known
            extra = [a for a in args[1:] if not (isinstance(a, Conc) and a.py is False)] + \
                    [v for k, v in kwargs.items() if not (k == "concrete" and isinstance(v, Conc) and v.py is False)]
            if len(args) < 1 or extra or not (isinstance(args[0], Ref) and args[0] == holder["mcs"]):
                r = I.alloc_list(st, I.U.fresh_seq("some_other_selection_of_classes"))
            else:
                r = I.alloc_list(st, holder["D"])
            return [(st, r)]
        I.contracts["descendents"] = descendents

    def setup(I, st):
        U = I.U
        mcs = I.alloc_obj(st, "ParameterizedMetaclass", lazy=True, label="mcs")
        holder["mcs"] = mcs
        holder["D"] = U.fresh_seq("descendents")
        holder["c"] = U.fresh("some_class")
        st.ghost["cleared"] = z3.K(vm.V, False)
        found = I.src.find_method("ParameterizedMetaclass", "_clear_params_cache")
        if found is None:
            raise OutOfReach("ParameterizedMetaclass._clear_params_cache not defined")
        fv = I.bound_method(mcs, found)
        return fv, [], {}, {"symbols": {}}

    def inv(I, st, pre):
        c = holder["c"]
        return z3.Implies(z3.Contains(pre.seq, z3.Unit(c)), z3.Select(st.ghost["cleared"], cache_of(I, st, c)))

    def havoc(I, st):
        st.ghost["cleared"] = z3.Const("cleared!%d" % I.new_oid(), z3.ArraySort(vm.V, z3.BoolSort()))

    def post(I, info, st, oc):
        if isinstance(oc, Raise):
            return [("does-not-raise", z3.BoolVal(False))]
        c = holder["c"]
        return [("for every class c: c among the descendants (incl. the class itself) => its cache is emptied",
                 z3.Implies(z3.Contains(holder["D"], z3.Unit(c)), z3.Select(st.ghost["cleared"], cache_of(I, st, c))))]
    loops = {("ParameterizedMetaclass._clear_params_cache", "descendents"): LoopSpec("descendents", inv=inv, heap=havoc,
                                                                                      name="every-descendant-cleared")}
    c = FunctionContract("%s:ParameterizedMetaclass._clear_params_cache" % MOD, PROP, setup, post, configure=configure,
                         loops=loops, name="ParameterizedMetaclass._clear_params_cache")
    c.static_replay = CLEAR_CACHE_REPLAY
    c.static_witness = "a Parameter added to the root of a hierarchy in which only some classes have their .param cache filled"
    return c


def events_lib(I):
    def type_setattr(I, st, fv, args, kwargs, ctx):
        st.ghost["log"] = st.ghost.get("log", []) + [("classdict-write", args[0], args[1], args[2])]
        return [(st, Conc(None))]
    I.lib["type.__setattr__"] = type_setattr

    def type_delattr(I, st, fv, args, kwargs, ctx):
        st.ghost["log"] = st.ghost.get("log", []) + [("classdict-delete", args[0], args[1])]
        return [(st, Conc(None))]
    I.lib["type.__delattr__"] = type_delattr

    def clear_cache(I, st, fv, args, kwargs, ctx):
        st.ghost["log"] = st.ghost.get("log", []) + [("clear-cache", fv.data.get("self"))]
        return [(st, Conc(None))]
    I.contracts["ParameterizedMetaclass._clear_params_cache"] = clear_cache

    def init_param(I, st, fv, args, kwargs, ctx):
        st.ghost["log"] = st.ghost.get("log", []) + [("initialize-parameter",)]
        q = st.fork()
        return [(st, Conc(None)), (q, Raise("RuntimeError", origin="_initialize_parameter"))]
    I.contracts["ParameterizedMetaclass._initialize_parameter"] = init_param
    I.contracts["ParameterizedMetaclass.__param_inheritance"] = init_param


def add_parameter_contract():
    def configure(I):
        events_lib(I)

    def setup(I, st):
        U = I.U
        cls = I.alloc_obj(st, "ParameterizedMetaclass", lazy=True, label="cls")
        self_ = I.alloc_obj(st, "Parameters", lazy=False, label="self_")
        st.heap[self_.oid].fields.update({"cls": cls, "self": Conc(None)})
        name, pobj = Sym(U.fresh("param_name")), Sym(U.fresh("param_obj"))
        fv = I.bound_method(self_, I.src.find_method("Parameters", "add_parameter"))
        return fv, [name, pobj], {}, {"cls": cls, "name": name, "pobj": pobj, "symbols": {}}

    def post(I, info, st, oc):
        log = st.ghost.get("log", [])
        kinds = [e[0] for e in log]
        out = []
        if isinstance(oc, Raise):
            # class creation-like failure inside _initialize_parameter: property C11 territory
            return [("only the inheritance step may fail", z3.BoolVal(oc.origin == "_initialize_parameter"))]
        w = [i for i, k in enumerate(kinds) if k == "classdict-write"]
        c = [i for i, k in enumerate(kinds) if k == "clear-cache"]
        out.append(("writes the class dictionary exactly once, with the given name and Parameter",
                    z3.BoolVal(len(w) == 1 and log[w[0]][1] == info["cls"] and log[w[0]][2] is info["name"] and log[w[0]][3] is info["pobj"])))
        out.append(("the write is followed by clearing the cache of the class and its descendants",
                    z3.BoolVal(len(c) >= 1 and len(w) == 1 and c[-1] > w[0] and log[c[-1]][1] == info["cls"])))
        return out
    return FunctionContract("%s:Parameters.add_parameter" % MOD, PROP, setup, post, configure=configure,
                            name="Parameters.add_parameter")


def metaclass_setattr_contract():
    from pyvc.loops import LoopSpec
    holder = {}
    is_mut = z3.Function("is_mutable_container", vm.V, z3.BoolSort())
    copyF = z3.Function("shallow_copy_of", vm.V, vm.V)
    QUAL = "ParameterizedMetaclass.__setattr__"

    def shared(s):
        # the two slots the copy keeps sharing with the Parameter it was copied from
        return z3.Or(vm.strv(s) == z3.StringVal("default"), vm.strv(s) == z3.StringVal("watchers"))

    def configure(I):
        events_lib(I)

        I.sym_fields = {"default", "watchers"}

        def copy_copy(I, st, fv, args, kwargs, ctx):
            if not z3.eq(I.term(args[0]), holder["par"]):
                # a slot value: its shallow copy (uninterpreted; a different object for a container)
                r = copyF(I.term(args[0]))
                I.U.well_typed(r)
                return [(st, Sym(r))]
            # a shallow copy shares the default — and the watcher table — with the Parameter it was copied from
            r = I.alloc_obj(st, "Parameter", lazy=True, label="param_copy")
            from pyvc.objects import sym_field
            d = Sym(z3.Select(sym_field(I, st, "default"), I.term(args[0])))
            st.heap[r.oid].fields["default"] = d
            st.heap[r.oid].init["default"] = d
            w = Sym(z3.Select(sym_field(I, st, "watchers"), I.term(args[0])))
            st.heap[r.oid].fields["watchers"] = w
            st.heap[r.oid].init["watchers"] = w
            st.ghost["copy"] = r
            return [(st, r)]
        I.lib["copy.copy"] = copy_copy

        # the other slots of the copy, by (symbolic) name: `slots_of_copy`, initially the very objects
        # the inherited Parameter holds (that is what "shallow" means)
        def class_attr(I, st, cv, attr, ctx):
            if attr == "_all_slots_":
                return [(st, holder["all_slots"])]
            return None
        I.lib["$class_attr"] = class_attr
        from pyvc import builtins_lib as bl

        def h_getattr(I, st, fv, args, kwargs, ctx):
            if isinstance(args[1], Sym) and len(args) == 2 and isinstance(args[0], Ref) and args[0] == st.ghost.get("copy"):
                r = z3.Select(st.ghost["slots_of_copy"], args[1].t)
                I.U.well_typed(r)
                return [(st, Sym(r))]
            return bl.h_getattr(I, st, fv, args, kwargs, ctx)
        I.lib["getattr"] = h_getattr

        def setattr_sym(I, st, x, n, v, ctx):
            if not (isinstance(x, Ref) and x == st.ghost.get("copy")):
                raise OutOfReach("setattr with a symbolic name on something else than the copy")
            obs = ctx.get("obligations")
            if obs is not None:
                obs.append(("C03/the slot-copying loop never replaces the shared default or watcher table", st.fork(), z3.Not(shared(I.term(n)))))
            st.ghost["slots_of_copy"] = z3.Store(st.ghost["slots_of_copy"], I.term(n), I.term(v))
            return [(st, Conc(None))]
        I.lib["$setattr_symbolic"] = setattr_sym

        def is_mutable(I, st, fv, args, kwargs, ctx):
            return [(st, BoolV(is_mut(I.term(args[0]))))]
        I.contracts["_is_mutable_container"] = is_mutable

        prev_vm = I.lib.get("$value_method")

        def vmethod(I, st, name, selfv, args, kwargs, ctx):
            if name == "__set__":
                st.ghost["log"] = st.ghost.get("log", []) + [("descriptor-set", selfv, list(args))]
                q = st.fork()
                q2 = st.fork()
                # a validator may reject with any exception type (Path parameters raise OSError)
                return [(st, Conc(None)), (q, Raise("ValueError", origin="__set__")), (q2, Raise("OSError", origin="__set__"))]
            if name == "_set_names":
                # a Parameter object assigned to a class attribute learns its name (before anything is
                # written); a Parameter that already belongs elsewhere under another name refuses
                st.ghost["log"] = st.ghost.get("log", []) + [("set-names", selfv, list(args))]
                q = st.fork()
                return [(st, Conc(None)), (q, Raise("AttributeError", origin="_set_names"))]
            return prev_vm(I, st, name, selfv, args, kwargs, ctx) if prev_vm is not None else None
        I.lib["$value_method"] = vmethod

    def setup(I, st):
        U = I.U
        mcs = I.alloc_obj(st, "ParameterizedMetaclass", lazy=True, label="mcs")
        cd = I.alloc_dict(st, keys=U.fresh_seq("classdict_keys"), vals=z3.Const("classdict_vals", z3.ArraySort(vm.V, vm.V)))
        st.heap[mcs.oid].fields["__dict__"] = cd
        par, own = Sym(U.fresh("descriptor")), Sym(U.fresh("owning_class"))

        def gpd(I, st2, fv, args, kwargs, ctx):
            return [(st2, TupV([par, own]))]
        I.contracts["ParameterizedMetaclass.get_param_descriptor"] = gpd
        name, value = Sym(U.fresh("attribute_name")), Sym(U.fresh("value"))
        st.pc.append(z3.Contains(st.heap[cd.oid].keys, z3.Unit(name.t)))     # a found descriptor is reachable
        # A-SLOTS: `_all_slots_` is a list of pairwise different names (strings) (ParameterMetaclass.__new__ builds
        # it with list(<dict>)): modelled as the key sequence of a dict, whose iteration is the same
        holder["par"] = par.t
        holder["all_slots"] = I.alloc_dict(st, keys=U.fresh_seq("all_slots"), vals=z3.Const("unused_vals", z3.ArraySort(vm.V, vm.V)))
        holder["slots0"] = z3.Const("slots_of_inherited_parameter", z3.ArraySort(vm.V, vm.V))
        holder["s"] = U.fresh("some_slot")
        st.pc.append(vm.ty(holder["s"]) == vm.TAG["str"])
        st.ghost["slots_of_copy"] = holder["slots0"]
        fv = I.bound_method(mcs, I.src.find_method("ParameterizedMetaclass", "__setattr__"))
        return fv, [name, value], {}, {"mcs": mcs, "par": par.t, "own": own.t, "name": name, "value": value,
                                       "symbols": {}}

    def post(I, info, st, oc):
        U = I.U
        log = st.ghost.get("log", [])
        kinds = [e[0] for e in log]
        w = [i for i, k in enumerate(kinds) if k == "classdict-write"]
        c = [i for i, k in enumerate(kinds) if k == "clear-cache"]
        s_ = [i for i, k in enumerate(kinds) if k == "descriptor-set"]
        val = info["value"].t
        is_param_value = vm.isinst(val, U.cls_const("Parameter"))
        out = []
        if isinstance(oc, Raise) and oc.origin == "_initialize_parameter":
            # the inheritance / re-validation step rejected the new Parameter (class-creation-like
            # failure, property C11): the refused Parameter does not stay on the class — the attribute is
            # deleted again or what was there before is written back — and the caches are cleared afterwards
            d = [i for i, k in enumerate(kinds) if k == "classdict-delete"]
            first = w[0] if w else None
            undo = [j for j in d if first is not None and j > first and log[j][2] is log[first][2]] + \
                   [j for j in w[1:] if log[j][2] is log[first][2] and log[j][3] is not log[first][3]]
            out.append(("C11/a Parameter object refused while its inherited attributes are merged is taken off the class again",
                        z3.BoolVal(first is not None and len(undo) == 1)))
            out.append(("C11/… and the cache is cleared after that",
                        z3.BoolVal(bool(undo) and any(j > undo[-1] for j in c))))
            return out
        # every class-dictionary write of a Parameter object is followed by a cache clear
        for i in w:
            written = log[i][3]
            wt = I.term(written)
            is_p = z3.Or(vm.isinst(wt, U.cls_const("Parameter")), z3.BoolVal(isinstance(written, Ref) and written == st.ghost.get("copy")))
            later = any(j > i for j in c)
            out.append(("class-dict write of a Parameter is followed by clearing the cache (class and descendants)",
                        z3.Implies(is_p, z3.BoolVal(later))))
        if isinstance(oc, Raise):
            # C02: the descriptor rejected the value (exceptional frame of Parameter.__set__: nothing
            # written): a copy of the inherited Parameter made for this assignment is removed again
            d = [i for i, k in enumerate(kinds) if k == "classdict-delete"]
            undone = all(any(j > i and log[j][1] == log[i][1] and log[j][2] is log[i][2] for j in d) for i in w)
            out.append(("C02/a rejected class-level assignment leaves the class without a copy of the inherited Parameter",
                        # (a Parameter object that refuses the name is refused before anything is written)
                        z3.BoolVal((oc.origin == "__set__" or (oc.origin == "_set_names" and not w)) and undone)))
            out.append(("C02/… and the cache is cleared after the copy is removed",
                        z3.BoolVal(all(any(j > i for j in c) for i in d))))
            return out
        cp = st.ghost.get("copy")
        if isinstance(cp, Ref):
            hcp = st.heap[cp.oid]
            sk = holder["s"]
            v0 = z3.Select(holder["slots0"], sk)
            own = z3.And(is_mut(v0), z3.Not(shared(sk)))
            in_slots = z3.Contains(st.heap[holder["all_slots"].oid].keys, z3.Unit(sk))
            out.append(("C12/the subclass's copy owns a shallow copy of every mutable container slot (other than the default and the watcher table): later changes to it stay with the subclass",
                        z3.Implies(z3.And(in_slots, own), z3.Select(st.ghost["slots_of_copy"], sk) == copyF(v0))))
            out.append(("C12/… and every other slot holds what the inherited Parameter holds",
                        z3.Implies(z3.Not(z3.And(in_slots, own)), z3.Select(st.ghost["slots_of_copy"], sk) == v0)))
            out.append(("C03/the subclass's copy of an inherited Parameter keeps sharing the watcher table (class-level watchers follow, unwatch reaches both)",
                        z3.BoolVal(hcp.fields.get("watchers") is hcp.init.get("watchers"))))
        plain = z3.And(vm.truthy(info["par"]), z3.Not(is_param_value))
        out.append(("a plain value for an existing Parameter goes through the descriptor's __set__ exactly once, at class level",
                    z3.Implies(plain, z3.BoolVal(len(s_) == 1 and len(log[s_[0]][2]) == 2 and isinstance(log[s_[0]][2][0], Conc)
                                                 and log[s_[0]][2][0].py is None and log[s_[0]][2][1] is info["value"]) if s_ else z3.BoolVal(False))))
        out.append(("otherwise the attribute is set on the class exactly once",
                    z3.Implies(z3.Not(plain), z3.BoolVal(len(w) == 1 and len(s_) == 0))))
        return out
    def inv(I, st, pre):
        sk = holder["s"]
        v0 = z3.Select(holder["slots0"], sk)
        seen = z3.Contains(pre.seq, z3.Unit(sk))
        want = z3.If(z3.And(is_mut(v0), z3.Not(shared(sk))), copyF(v0), v0)
        return z3.Select(st.ghost["slots_of_copy"], sk) == z3.If(seen, want, v0)

    def havoc(I, st):
        st.ghost["slots_of_copy"] = z3.Const("slots_of_copy!%d" % I.new_oid(), z3.ArraySort(vm.V, vm.V))
    loops = {(QUAL, "type(parameter)._all_slots_"): LoopSpec("type(parameter)._all_slots_", inv=inv, heap=havoc, name="own-copy-of-mutable-slots",
                                                                elem_facts=lambda I, st, x: [vm.ty(x) == vm.TAG["str"]])}
    c = FunctionContract("%s:ParameterizedMetaclass.__setattr__" % MOD, PROP, setup, post, configure=configure, loops=loops,
                         name="ParameterizedMetaclass.__setattr__")
    c.static_witness = "class-level set on a subclass whose .param cache is filled"
    c.static_replay = SETATTR_REPLAY
    return c


SETATTR_REPLAY = '''import sys, os, inspect
sys.path.insert(0, os.environ.get('PYVC_REPO', '/repo'))
import param
class A(param.Parameterized):
    x = param.Number(1)
class B(A):
    pass
class C(B):
    pass
C.param['x']; B.param['x']          # fill the caches
B.x = 7                              # copy-on-write of the inherited Parameter into B
bad = []
for cls in (B, C):
    if cls.param['x'] is not inspect.getattr_static(cls, 'x'):
        bad.append('%s.param[x] is not the descriptor that governs %s.x' % (cls.__name__, cls.__name__))
    if cls.param['x'].default != cls.x:
        bad.append('%s.param[x].default=%r but %s.x=%r' % (cls.__name__, cls.param['x'].default, cls.__name__, cls.x))
# the copy owns its mutable containers (C12): nothing done through the subclass reaches the parent
class SA(param.Parameterized):
    s = param.Selector(objects=['a', 'b', 'c'], default='a', check_on_set=False)
    t = param.Selector(objects={'a': 1, 'b': 2}, default=1)
    l = param.ListSelector(objects=[1, 2, 3], default=[1])
class SB(SA):
    pass
before = (list(SA.param.s.objects), list(SA.param.t.objects), dict(SA.param.t.names), list(SA.param.l.objects))
SB.s = 'v1'
SB.t = 2
SB.l = [2]
for nm in ('s', 't', 'l'):
    pa, pb = SA.param[nm], SB.param[nm]
    if pb is pa:
        continue
    if pb._objects is pa._objects and len(pa._objects):
        bad.append('after SB.%s = ...: SB.param.%s and SA.param.%s hold the SAME objects list' % (nm, nm, nm))
    if isinstance(pa.names, dict) and pa.names and pb.names is pa.names:
        bad.append('after SB.%s = ...: SB.param.%s and SA.param.%s hold the SAME names dict' % (nm, nm, nm))
after = (list(SA.param.s.objects), list(SA.param.t.objects), dict(SA.param.t.names), list(SA.param.l.objects))
if after != before:
    bad.append('class-level assignments on the subclass changed what the parent reports: %r -> %r' % (before, after))
# every plain value for an existing Parameter goes through the descriptor, whatever the attribute is
# called and whatever the value is (also the very object the class already shows)
class UA(param.Parameterized):
    _scale = param.Number(1, bounds=(0, 10))
    r = param.Parameter(default=('frozen',), readonly=True)
    n = param.Number(2, bounds=(0, 5))
class UB(UA):
    pass
for cls in (UA, UB):
    for nm, val, exc in (('_scale', 99, ValueError), ('n', 99, ValueError), ('r', UA.r, TypeError), ('r', ('other',), TypeError)):
        try:
            setattr(cls, nm, val)
        except exc:
            pass
        except Exception as e:
            bad.append('%s.%s = %r raised %s instead of %s' % (cls.__name__, nm, val, type(e).__name__, exc.__name__))
        else:
            bad.append('%s.%s = %r was accepted (the Parameter must reject it with %s)' % (cls.__name__, nm, val, exc.__name__))
    try:
        if not isinstance(inspect.getattr_static(cls, '_scale'), param.Parameter) or cls.param['_scale'].default != cls._scale:
            bad.append('%s._scale is no longer governed by its Parameter' % cls.__name__)
    except Exception as e:
        bad.append('%s._scale is no longer governed by its Parameter (%r)' % (cls.__name__, e))
try:
    UB._scale = 3
    if UB.param['_scale'].default != 3 or UA._scale != 1:
        bad.append('UB._scale = 3: UB.param[_scale].default=%r UA._scale=%r' % (UB.param['_scale'].default, UA._scale))
except Exception as e:
    bad.append('UB._scale = 3 on the subclass: %r' % (e,))
# the Parameter a class-level assignment goes through is the one Python's MRO resolves for that class
for order in ('BC', 'CB'):
    DA = type('DA', (param.Parameterized,), {'x': param.Number(1, bounds=(0, 10)), 's': param.Selector(objects=[1, 2, 3])})
    DB = type('DB', (DA,), {})
    DC = type('DC', (DA,), {'x': param.Number(2, bounds=(0, 5)), 's': param.Selector(objects=[1, 2])})
    DD = type('DD', (DB, DC) if order == 'BC' else (DC, DB), {})
    DE = type('DE', (DD,), {})
    for cls in (DD, DE):
        for how in ('setattr', 'update'):
            for nm, val in (('x', 8), ('s', 3)):
                try:
                    if how == 'setattr':
                        setattr(cls, nm, val)
                    else:
                        cls.param.update(**{nm: val})
                except ValueError:
                    pass
                else:
                    bad.append('diamond D(%s): %s.%s = %r by %s was accepted although the Parameter that governs %s.%s (declared by C) excludes it'
                               % (order, cls.__name__, nm, val, how, cls.__name__, nm))
    DD.x = 4
    if DD.param['x'].bounds != (0, 5):
        bad.append("diamond D(%s): after D.x = 4 the class's own copy has bounds %r, the governing Parameter has (0, 5)" % (order, DD.param['x'].bounds,))
w = []
SA.param.watch(lambda e: w.append(e.new), 's')
SB.s = 'b'
if w != ['b']:
    bad.append('a class-level watcher registered through the parent no longer follows the subclass copy: %r' % (w,))
print('\\n'.join(bad) or 'namespace agrees with attribute access')
if bad:
    print('REPRODUCED: ' + bad[0]); sys.exit(1)
print('NOT-REPRODUCED'); sys.exit(0)
'''


def contracts():
    return [clear_cache_contract(), add_parameter_contract(), metaclass_setattr_contract()]


ASSUMPTIONS = [
    "A-DESCR: `type.__setattr__` writes the class dictionary; attribute lookup is MRO-first descriptor lookup; descendents(cls) is the class and all its subclasses",
    "the consumers of the cache (__getitem__, __contains__, objects, values, serialization) and `_cls_parameters` (cache == mro_params when rebuilt) are covered by the bounded layer only",
]


# ======================================================================================
# Parameters.get_value_generator — `.param.values()`, repr and serialization read values through
# this function: for a non-dynamic value it must be what attribute access shows.
# ======================================================================================
def get_value_generator_contract(kind):
    """kind: 'plain' (not a Dynamic parameter) | 'unknown' (name is not a parameter)"""
    attr_value = z3.Function("getattr_value", vm.V, vm.V, vm.V)      # what getattr(obj, name) shows (A-DESCR)

    def configure(I):
        def h_getattr(I, st, fv, args, kwargs, ctx):
            x, n = args[0], args[1]
            if isinstance(n, Conc):
                from pyvc.builtins_lib import h_getattr as real
                return real(I, st, fv, args, kwargs, ctx)
            st.ghost["getattr_calls"] = st.ghost.get("getattr_calls", []) + [(I.term(x), I.term(n))]
            r = attr_value(I.term(x), I.term(n))
            I.U.well_typed(r)
            return [(st, Sym(r))]
        I.lib["getattr"] = h_getattr

        def objects(I, st, fv, args, kwargs, ctx):
            return [(st, st.ghost["objects_dict"])]
        I.contracts["Parameters.objects"] = objects

        dget = z3.Function("descriptor_get", vm.V, vm.V, vm.V)

        def vmethod(I, st, name, selfv, args, kwargs, ctx):
            if name == "__get__":
                # what an arbitrary Parameter object's __get__ returns need not be what attribute
                # access shows (the governing descriptor may be another object)
                r = dget(I.term(selfv), I.term(args[0]))
                I.U.well_typed(r)
                return [(st, Sym(r))]
            return None
        I.lib["$value_method"] = vmethod

    def setup(I, st):
        U = I.U
        obj = I.alloc_obj(st, "Parameterized", lazy=True, label="obj")
        par = I.alloc_obj(st, "Parameters", lazy=False, label="param")
        st.heap[par.oid].fields.update({"cls": ClsV("Parameterized"), "self": obj})
        st.heap[obj.oid].fields["param"] = par
        name = Sym(U.fresh("name"))
        od = I.alloc_dict(st, keys=U.fresh_seq("pnames"), vals=z3.Const("pobjs", z3.ArraySort(vm.V, vm.V)))
        st.ghost["objects_dict"] = od
        h = st.heap[od.oid]
        pobj = z3.Select(h.vals, name.t)
        U.well_typed(pobj)
        from pyvc.builtins_lib import add_hasattr_axioms, hasattr_fn
        if kind == "plain":
            st.pc += [z3.Contains(h.keys, z3.Unit(name.t)), vm.truthy(pobj),
                      z3.Not(hasattr_fn("attribs")(pobj)), z3.Not(hasattr_fn("_value_is_dynamic")(pobj))]
        else:
            st.pc.append(z3.Not(z3.Contains(h.keys, z3.Unit(name.t))))
        fv = I.bound_method(par, I.src.find_method("Parameters", "get_value_generator"))
        return fv, [name], {}, {"obj": I.term(obj), "name": name.t, "attr_value": attr_value, "symbols": {}}

    def post(I, info, st, oc):
        if isinstance(oc, Raise):
            return [("does-not-raise", z3.BoolVal(False))]
        return [("the value reported is what getattr(obj, name) shows", I.term(oc) == info["attr_value"](info["obj"], info["name"]))]
    return FunctionContract("%s:Parameters.get_value_generator" % MOD, PROP, setup, post, configure=configure,
                            name="Parameters.get_value_generator[%s]" % kind)


_c13_base = contracts


def contracts():
    return _c13_base() + [get_value_generator_contract("plain"), get_value_generator_contract("unknown")]


# ---------------------------------------------------------------------------------------------
# Parameters._cls_parameters — which Parameter object `.param` shows for a name
# ---------------------------------------------------------------------------------------------
CLS_PARAMS_REPLAY = '''import sys, os, inspect, itertools
sys.path.insert(0, os.environ.get('PYVC_REPO', '/repo'))
import param
bad = []
def check(label, cls, names):
    for n in names:
        gov = inspect.getattr_static(cls, n)            # what Python's MRO resolves
        shown = cls.param[n]
        if shown is not gov:
            bad.append('%s: %s.param[%r] is the Parameter of %s, attribute access is governed by the one of %s' % (
                label, cls.__name__, n, getattr(shown.owner, '__name__', '?'), getattr(gov.owner, '__name__', '?')))
        inst = cls()
        if inst.param[n].default != gov.default and inst.param[n] is not gov:
            bad.append('%s: instance .param[%r].default == %r, the class default is %r' % (label, n, inst.param[n].default, gov.default))
for how in ('declare', 'assign', 'add'):
    A = type('A', (param.Parameterized,), {'x': param.Number(1), 'y': param.String('a')})
    B = type('B', (A,), {})
    C = type('C', (A,), {'x': param.Number(5)} if how == 'declare' else {})
    if how == 'assign':
        C.x = 5
    if how == 'add':
        C.param.add_parameter('x', param.Number(5))
    for order in ((B, C), (C, B)):
        D = type('D', order, {})
        check('diamond D(%s) how=%s' % (','.join(k.__name__ for k in order), how), D, ['x', 'y'])
        E = type('E', (D,), {})
        check('below the diamond, how=%s' % how, E, ['x', 'y'])
for depth in (1, 2, 3):
    K = type('K0', (param.Parameterized,), {'x': param.Number(1)})
    for i in range(depth):
        K = type('K%d' % (i + 1), (K,), {'x': param.Number(10 + i)} if i % 2 == 0 else {})
    check('chain depth %d' % depth, K, ['x'])
if bad:
    print('REPRODUCED: C13 the .param namespace does not show the Parameter that governs attribute access:')
    for b in bad[:8]:
        print('  ', b)
    sys.exit(1)
print('NOT-REPRODUCED'); sys.exit(0)
'''


def cls_parameters_contract():
    """`Parameters._cls_parameters` on a class whose cache is empty, for an ARBITRARY class list
    (`classlist(cls)`: base first, the class itself last), ARBITRARY class dictionaries and an arbitrary
    name k: the dictionary built (returned AND cached) shows for k the Parameter declared by the LAST
    class of the list that declares one — the class nearest in the MRO, i.e. the descriptor attribute
    access resolves to — and shows nothing for k when no class declares a Parameter under k."""
    from pyvc import builtins_lib as bl
    from pyvc.loops import LoopSpec
    from pyvc.objects import sym_field
    holder = {}
    dkeys = z3.Function("classdict_names", vm.V, vm.SeqV)
    dvals = z3.Function("classdict_values", vm.V, z3.ArraySort(vm.V, vm.V))

    def configure(I):
        I.sym_fields = {"__dict__"}

        def classlist(I, st, fv, args, kwargs, ctx):
            return [(st, Sym(holder["mro"]))]
        I.contracts["classlist"] = classlist

        def vmethod(I, st, name, selfv, args, kwargs, ctx):
            if name == "items" and isinstance(selfv, Sym):
                # the items of a class dictionary: one (name, value) pair per name, names distinct
                d = I.term(selfv)
                r = I.alloc_dict(st, keys=dkeys(d), vals=dvals(d))
                holder["cur_dict"] = d
                return [(st, FuncV("builtin", name="$dictitems", self=r))]
            return None
        I.lib["$value_method"] = vmethod

    def is_param(I, st, t):
        f = bl.isinstance_formula(I, st, Sym(t), ClsV("Parameter"))
        return z3.BoolVal(f) if isinstance(f, bool) else f

    def declares(I, st, c):
        d = z3.Select(holder["Fd"], c)
        k = holder["k"]
        return z3.And(z3.Contains(dkeys(d), z3.Unit(k)), is_param(I, st, z3.Select(dvals(d), k)))

    def setup(I, st):
        U = I.U
        cls = I.alloc_obj(st, "ParameterizedMetaclass", lazy=True, label="cls")
        priv = I.alloc_obj(st, "_ClassPrivate", lazy=False, label="cls._param__private")
        st.heap[priv.oid].fields["params"] = I.alloc_dict(st)          # the cache is empty
        st.heap[cls.oid].fields["_param__private"] = priv
        self_ = I.alloc_obj(st, "Parameters", lazy=False, label="self_")
        st.heap[self_.oid].fields.update({"cls": cls, "self": Conc(None)})
        mro = U.fresh("classlist")
        st.pc += [vm.ty(mro) == vm.TAG["tuple"], vm.tlen(mro) >= 1]
        U.well_typed(mro)
        k = U.fresh("some_name")
        st.pc.append(vm.ty(k) == vm.TAG["str"])
        holder.update({"mro": mro, "k": k, "Fd": sym_field(I, st, "__dict__"), "priv": priv})
        n = vm.tlen(mro)
        lq = U.fresh_int("last_declaring")
        holder["lq"] = lq
        nolater = S.fold(I, "no_later_class_declares_the_name", lambda x, i: z3.Implies(i > lq, z3.Not(declares(I, st, x))), indexed=True)
        holder["nolater"] = nolater
        st.pc.append(z3.And(nolater.tfn(mro, n), z3.Or(lq == -1, z3.And(lq >= 0, lq < n, declares(I, st, vm.titem(mro, lq))))))
        U.well_typed(vm.titem(mro, lq))
        found = I.src.find_method("Parameters", "_cls_parameters")
        fv = I.bound_method(self_, found)
        return fv, [], {}, {"priv": priv, "symbols": {}}

    def pd(st):
        r = st.env.get("paramdict")
        if not (isinstance(r, Ref) and st.heap[r.oid].kind == "dict"):
            raise OutOfReach("`paramdict` is no longer one dict updated in place")
        return st.heap[r.oid]

    def want(I, st):
        return z3.Select(dvals(z3.Select(holder["Fd"], vm.titem(holder["mro"], holder["lq"]))), holder["k"])

    def inv_outer(I, st, pre):
        h = pd(st)
        k, lq = holder["k"], holder["lq"]
        has = z3.Contains(h.keys, z3.Unit(k))
        holder["before"] = (h.keys, h.vals)
        return z3.And(z3.Implies(z3.And(lq >= 0, lq < pre.n), z3.And(has, z3.Select(h.vals, k) == want(I, st))),
                      z3.Implies(lq == -1, z3.Not(has)))

    def inv_inner(I, st, pre):
        h = pd(st)
        k = holder["k"]
        bk, bv = holder["before"]
        d = holder["cur_dict"]
        seen = z3.Contains(pre.seq, z3.Unit(k))
        has = z3.Contains(h.keys, z3.Unit(k))
        took = z3.And(seen, is_param(I, st, z3.Select(dvals(d), k)))
        return z3.If(took, z3.And(has, z3.Select(h.vals, k) == z3.Select(dvals(d), k)),
                     z3.And(has == z3.Contains(bk, z3.Unit(k)), z3.Implies(has, z3.Select(h.vals, k) == z3.Select(bv, k))))

    def havoc(I, st):
        h = pd(st)
        h.keys = I.U.fresh_seq("shown_names")
        h.vals = z3.Const("shown!%d" % I.new_oid(), z3.ArraySort(vm.V, vm.V))
        h.ckeys = None
        h.fields.pop("$entries", None)
        for f in [f for f in h.fields if isinstance(f, tuple)]:
            h.fields.pop(f)

    def outer_facts(I, st, x, i):
        return [holder["nolater"].elim(holder["mro"], vm.tlen(holder["mro"]), i)]

    def post(I, info, st, oc):
        if isinstance(oc, Raise):
            return [("does-not-raise", z3.BoolVal(False))]
        k, lq = holder["k"], holder["lq"]
        cached = st.heap[info["priv"].oid].fields.get("params")
        if not (isinstance(oc, Ref) and st.heap[oc.oid].kind == "dict"):
            return [("returns the dictionary it built", z3.BoolVal(False))]
        h = st.heap[oc.oid]
        has = z3.Contains(h.keys, z3.Unit(k))
        return [("shows for a name the Parameter of the nearest class (last in the class list) that declares one",
                 z3.Implies(lq >= 0, z3.And(has, z3.Select(h.vals, k) == want(I, st)))),
                ("shows nothing for a name no class declares a Parameter under", z3.Implies(lq == -1, z3.Not(has))),
                ("the dictionary returned is the one cached for the class", z3.BoolVal(isinstance(cached, Ref) and cached.oid == oc.oid))]
    loops = {("Parameters._cls_parameters", "classlist"): LoopSpec("classlist", inv=inv_outer, heap=havoc, name="classes-base-first", elem_facts=outer_facts),
             ("Parameters._cls_parameters", "__dict__.items()"): LoopSpec("__dict__.items()", inv=inv_inner, heap=havoc, name="names-of-one-class")}
    c = FunctionContract("%s:Parameters._cls_parameters" % MOD, PROP, setup, post, configure=configure, loops=loops,
                         name="Parameters._cls_parameters[arbitrary hierarchy]")
    c.static_replay = CLS_PARAMS_REPLAY
    c.static_witness = "diamonds whose earlier base inherits and whose later base declares / assigns / adds the parameter; chains"
    return c


def get_value_generator_dynamic_contract():
    """`get_value_generator(name)` for a Dynamic parameter on an instance: the object stored for the
    name on the instance — whatever it is, also None — else the default of the CLASS-level Parameter
    (what the attribute shows), never the possibly outdated default of an instance-level copy."""
    from pyvc.builtins_lib import hasattr_fn
    from pyvc.objects import sym_field
    holder = {}

    def configure(I):
        I.sym_fields = {"default"}

        def objects(I, st, fv, args, kwargs, ctx):
            return [(st, holder["od"])]
        I.contracts["Parameters.objects"] = objects

        def clsp(I, st, fv, args, kwargs, ctx):
            return [(st, holder["cp"])]
        I.contracts["Parameters._cls_parameters"] = clsp

    def setup(I, st):
        U = I.U
        obj = I.alloc_obj(st, "Parameterized", lazy=True, label="obj")
        priv = I.alloc_obj(st, "_InstancePrivate", lazy=True, label="obj._param__private")
        values = I.alloc_dict(st, keys=U.fresh_seq("set_names"), vals=z3.Const("instance_values", z3.ArraySort(vm.V, vm.V)))
        st.heap[priv.oid].fields["values"] = values
        st.heap[obj.oid].fields["_param__private"] = priv
        par = I.alloc_obj(st, "Parameters", lazy=False, label="param")
        st.heap[par.oid].fields.update({"cls": ClsV("Parameterized"), "self": obj, "self_or_cls": obj})
        st.heap[obj.oid].fields["param"] = par
        name = Sym(U.fresh("name"))
        st.pc.append(vm.ty(name.t) == vm.TAG["str"])
        od = I.alloc_dict(st, keys=U.fresh_seq("pnames"), vals=z3.Const("existing_pobjs", z3.ArraySort(vm.V, vm.V)))
        cp = I.alloc_dict(st, keys=U.fresh_seq("cnames"), vals=z3.Const("class_pobjs", z3.ArraySort(vm.V, vm.V)))
        holder.update({"od": od, "cp": cp})
        h, hc = st.heap[od.oid], st.heap[cp.oid]
        pobj = z3.Select(h.vals, name.t)
        U.well_typed(pobj)
        st.pc += [z3.Contains(h.keys, z3.Unit(name.t)), z3.Contains(hc.keys, z3.Unit(name.t)), vm.truthy(pobj),
                  z3.Not(hasattr_fn("attribs")(pobj)), hasattr_fn("_value_is_dynamic")(pobj)]
        fv = I.bound_method(par, I.src.find_method("Parameters", "get_value_generator"))
        hv = st.heap[values.oid]
        return fv, [name], {}, {"name": name.t, "vkeys": hv.keys, "vvals": hv.vals, "cvals": hc.vals,
                                "Fdef": sym_field(I, st, "default"), "symbols": {}}

    def post(I, info, st, oc):
        if isinstance(oc, Raise):
            return [("does-not-raise", z3.BoolVal(False))]
        n = info["name"]
        is_set = z3.Contains(info["vkeys"], z3.Unit(n))
        return [("set on the instance: the stored object itself (also when it is None)",
                 z3.Implies(is_set, I.term(oc) == z3.Select(info["vvals"], n))),
                ("not set: the default of the class-level Parameter, not of an instance-level copy",
                 z3.Implies(z3.Not(is_set), I.term(oc) == z3.Select(info["Fdef"], z3.Select(info["cvals"], n))))]
    return FunctionContract("%s:Parameters.get_value_generator" % MOD, PROP, setup, post, configure=configure,
                            name="Parameters.get_value_generator[dynamic parameter, instance]")


_c13_base3 = contracts


def contracts():
    return _c13_base3() + [cls_parameters_contract(), get_value_generator_dynamic_contract()]


# ======================================================================================
# ParameterizedMetaclass.get_param_descriptor — the Parameter a class-level assignment goes through
# is the one attribute access resolves: the nearest class in the MRO that declares one
# ======================================================================================
def get_param_descriptor_contract():
    """For an ARBITRARY class list (`classlist(mcs)`: base first, the class itself last — A-DESCR: the
    reversed MRO), arbitrary class dictionaries and an arbitrary name: the result is (P, c) with c the LAST
    class of the list whose dictionary holds a Parameter under the name and P that Parameter; (None, None)
    when no class declares one."""
    from pyvc import builtins_lib as bl
    from pyvc.loops import LoopSpec
    from pyvc.objects import sym_field
    from pyvc.lib_misc import reversed_of
    holder = {}
    lookup = z3.Function("classdict_get", vm.V, vm.V, vm.V)     # d.get(name): the entry, None when absent
    QUAL = "ParameterizedMetaclass.get_param_descriptor"

    def configure(I):
        I.sym_fields = {"__dict__"}

        def classlist(I, st, fv, args, kwargs, ctx):
            return [(st, Sym(holder["mro"]))]
        I.contracts["classlist"] = classlist
        prev_vm = I.lib.get("$value_method")

        def vmethod(I, st, name, selfv, args, kwargs, ctx):
            if name == "get" and isinstance(selfv, Sym) and len(args) == 1 and not kwargs:
                r = lookup(I.term(selfv), I.term(args[0]))
                I.U.well_typed(r)
                return [(st, Sym(r))]
            return prev_vm(I, st, name, selfv, args, kwargs, ctx) if prev_vm is not None else None
        I.lib["$value_method"] = vmethod

    def is_param(I, st, t):
        f = bl.isinstance_formula(I, st, Sym(t), ClsV("Parameter"))
        return z3.BoolVal(f) if isinstance(f, bool) else f

    def entry(I, st, c):
        return lookup(z3.Select(holder["Fd"], c), holder["name"])

    def declares(I, st, c):
        return is_param(I, st, entry(I, st, c))

    def setup(I, st):
        U = I.U
        mcs = I.alloc_obj(st, "ParameterizedMetaclass", lazy=True, label="mcs")
        mro = U.fresh("classlist")
        st.pc += [vm.ty(mro) == vm.TAG["tuple"], vm.tlen(mro) >= 1]
        U.well_typed(mro)
        name = Sym(U.fresh("param_name"))
        st.pc.append(vm.ty(name.t) == vm.TAG["str"])
        holder.update({"mro": mro, "name": name.t, "Fd": sym_field(I, st, "__dict__")})
        n = vm.tlen(mro)
        lq = U.fresh_int("last_declaring")
        holder["lq"] = lq
        nolater = S.fold(I, "no_later_class_declares", lambda x, i: z3.Implies(i > lq, z3.Not(declares(I, st, x))), indexed=True)
        noearlier = S.fold(I, "not_declared_by", lambda x: z3.Not(declares(I, st, x)))
        holder.update({"nolater": nolater, "noearlier": noearlier})
        st.pc.append(z3.And(nolater.tfn(mro, n), z3.Or(lq == -1, z3.And(lq >= 0, lq < n, declares(I, st, vm.titem(mro, lq))))))
        U.well_typed(vm.titem(mro, lq))
        fv = I.bound_method(mcs, I.src.find_method("ParameterizedMetaclass", "get_param_descriptor"))
        return fv, [name], {}, {"symbols": {}}

    def inv(I, st, pre):
        return pre.all(holder["noearlier"])

    def facts(I, st, x, i):
        mro, lq = holder["mro"], holder["lq"]
        n = vm.tlen(mro)
        r = reversed_of(mro)
        return [holder["nolater"].elim(mro, n, n - 1 - i),           # the class at hand is class n-1-i of the list
                holder["noearlier"].elim(r, i, n - 1 - lq),           # the classes already passed do not declare
                vm.titem(r, i) == vm.titem(mro, n - 1 - i),
                z3.Implies(z3.And(lq >= 0, lq < n), vm.titem(r, n - 1 - lq) == vm.titem(mro, lq))]

    def post(I, info, st, oc):
        if isinstance(oc, Raise):
            return [("does-not-raise", z3.BoolVal(False))]
        if not (isinstance(oc, TupV) and len(oc.items) == 2):
            return [("returns a pair", z3.BoolVal(False))]
        a, c = oc.items
        mro, lq = holder["mro"], holder["lq"]
        n = vm.tlen(mro)
        if isinstance(a, Conc) and a.py is None:
            r = reversed_of(mro)
            hyp = z3.And(holder["noearlier"].elim(r, n, n - 1 - lq),
                         z3.Implies(z3.And(lq >= 0, lq < n), vm.titem(r, n - 1 - lq) == vm.titem(mro, lq)))
            return [("(None, None) only when no class of the list declares a Parameter under the name", z3.Implies(hyp, lq == -1)),
                    ("… and then the class is None as well", z3.BoolVal(isinstance(c, Conc) and c.py is None))]
        want_c = vm.titem(mro, lq)
        return [("the class returned is the nearest one (last in the class list) that declares a Parameter under the name",
                 z3.And(lq >= 0, I.term(c) == want_c)),
                ("the Parameter returned is that class's own entry", I.term(a) == entry(I, st, want_c))]
    loops = {(QUAL, "classes[::-1]"): LoopSpec("classes[::-1]", inv=inv, name="nearest-class-first", elem_facts=facts)}
    c = FunctionContract("%s:%s" % (MOD, QUAL), PROP, setup, post, configure=configure, loops=loops,
                         name="ParameterizedMetaclass.get_param_descriptor[arbitrary hierarchy]")
    c.static_replay = SETATTR_REPLAY
    c.static_witness = "diamond hierarchies in which only the later branch re-declares the Parameter"
    return c


_c13_base_gpd = contracts


def contracts():
    return _c13_base_gpd() + [get_param_descriptor_contract()]
