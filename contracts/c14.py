"""C14 — constant / read-only parameters cannot be rebound after construction.

Deductive part so far: the `as_uninitialized` wrapper restores `initialized` on BOTH exits
(otherwise an object that survives a failing constructor step stays writable), and the guard
section of `Parameter.__set__` (see contracts/c02.py: constant/readonly clauses)."""
from contracts import c05 as _c05

PROP = "C14"

AS_UNINIT_REPLAY = '''import sys, os
sys.path.insert(0, os.environ.get('PYVC_REPO', '/repo'))
import param
class P(param.Parameterized):
    c = param.Number(1, constant=True)
    n = param.Number(0, bounds=(0, 1))
class Q(P):
    def __init__(self, **kw):
        try:
            super().__init__(**kw)
        except Exception as e:
            self.err = e
q = Q(n=5)            # a rejected constructor argument, swallowed by the subclass
print('initialized after the failing constructor:', q._param__private.initialized)
try:
    q.c = 7
    print('constant rebound: q.c =', q.c)
    print('REPRODUCED: C14 constant parameter rebound on an object that survived a failing constructor'); sys.exit(1)
except TypeError:
    pass
print('NOT-REPRODUCED'); sys.exit(0)
'''


def contracts():
    c = _c05.as_uninitialized_contract()
    c.static_replay = AS_UNINIT_REPLAY
    c.static_witness = "wrapped constructor step raises; error swallowed by subclass __init__"
    out = [c]
    from contracts import c02 as _c02
    out += _c02.all_set_contracts(["C14/"])
    from contracts import c12 as _c12
    out.append(_c12.setup_params_contract(["C14/"]))
    return out


ASSUMPTIONS = _c05.ASSUMPTIONS


# ======================================================================================
# edit_constant — every constant flag, class level and instance level, is back on both exits
# ======================================================================================
import z3

from contracts import dispatch_model as dm
from pyvc import spec as S
from pyvc import values as vm
from pyvc.engine import OutOfReach, Raise
from pyvc.loops import LoopSpec
from pyvc.objects import sym_field
from pyvc.values import BoolV, ClsV, Conc, FuncV, Ref, Sym, TupV
from pyvc.verify import FunctionContract

EDIT_CONSTANT_REPLAY = '''import sys, os
sys.path.insert(0, os.environ.get('PYVC_REPO', '/repo'))
import param
bad = []
def flags(P, p, n):
    inst = p._param__private.params.get(n)
    return (P.param[n].constant, None if inst is None else inst.constant)
def scenario(label, inst_constant, class_constant, copy_inside, raise_inside):
    class P(param.Parameterized):
        c = param.Number(1, constant=class_constant)
        d = param.Number(2)
    p, q = P(), P()
    if inst_constant is not None:
        p.param.c.constant = inst_constant       # instance-level copy with its own flag
    before = flags(P, p, 'c'), flags(P, p, 'd')
    editable = None
    try:
        with param.edit_constant(p):
            try:
                p.c = 5; editable = True
            except TypeError:
                editable = False
            if copy_inside:
                p.param.c                        # instantiates the instance-level copy inside the block
            if raise_inside:
                raise KeyError('boom')
    except KeyError:
        pass
    after = flags(P, p, 'c'), flags(P, p, 'd')
    want_c = before[0]
    if before[0][1] is None and after[0][1] is not None:
        want_c = (before[0][0], before[0][0])    # a copy made inside the block ends with the class flag
    if editable is not True:
        bad.append('%s: not editable inside the block' % label)
    if after[0] != want_c or after[1] != before[1]:
        bad.append('%s: constant flags (class, instance) before %r after %r' % (label, before, after))
    should_be_constant = before[0][0] if before[0][1] is None else before[0][1]
    try:
        p.c = 7; now_constant = False
    except TypeError:
        now_constant = True
    if now_constant != bool(should_be_constant):
        bad.append('%s: p.c %s after the block' % (label, 'rejects assignment' if now_constant else 'accepts assignment'))
    try:
        q.c = 3; other_constant = False
    except TypeError:
        other_constant = True
    if other_constant != bool(class_constant):
        bad.append('%s: another instance %s' % (label, 'became constant' if other_constant else 'became editable'))
for ic in (None, True, False):
    for cc in (True, False):
        for ci in (False, True):
            for ri in (False, True):
                scenario('inst=%s class=%s copy_inside=%s raise=%s' % (ic, cc, ci, ri), ic, cc, ci, ri)
if bad:
    print('REPRODUCED: C14 edit_constant does not restore exactly the constant flags it cleared:')
    for b in bad[:8]:
        print('  ', b)
    sys.exit(1)
print('NOT-REPRODUCED'); sys.exit(0)
'''


def edit_constant_contract():
    """`with edit_constant(obj): body` — for an ARBITRARY parameter name k (Skolem), arbitrary
    class-level table K and instance-level table N (symbolic dicts of unbounded size): on BOTH exits
    the class-level and the instance-level `constant` flag of k are what they were on entry, and
    only the object that answers `obj.param[k]` is made editable in between."""
    holder = {}
    name_of = z3.Function("pname_of", vm.V, vm.V)
    is_inst = z3.Function("is_instance_level", vm.V, z3.BoolSort())

    def configure(I):
        I.sym_fields = {"constant"}

        def objects(I, st, fv, args, kwargs, ctx):
            return [(st, holder["K"])]
        I.contracts["Parameters.objects"] = objects

        def getitem(I, st, fv, args, kwargs, ctx):
            # `type(obj).param[name]` is the class Parameter, `obj.param[name]` the instance-level one
            selfv = fv.data.get("self")
            d = holder["K"] if selfv == holder["cls_param"] else holder["N"]
            h = st.heap[d.oid]
            t = z3.Select(h.vals, I.term(args[0]))
            I.U.well_typed(t)
            return [(st, Sym(t))]
        I.contracts["Parameters.__getitem__"] = getitem

        def binop_first(I, st, op, a, b, ctx, node):
            import ast as _ast
            if isinstance(op, _ast.BitOr) and isinstance(a, Ref) and isinstance(b, Ref) \
                    and st.heap[a.oid].kind == "dict" and st.heap[b.oid].kind == "dict":
                ha, hb = st.heap[a.oid], st.heap[b.oid]
                uk = I.U.fresh_seq("union_keys")
                uv = z3.Const("union_vals", z3.ArraySort(vm.V, vm.V))
                k = holder["k"]
                holder["union"] = (uk, uv, ha.keys, ha.vals, hb.keys, hb.vals)
                st.pc += union_facts(k)
                # every recorded entry of `updated` is a pair (name, the object the union holds for it)
                holder["upd_ok"] = S.fold(I, "updated_entries_ok", lambda e: z3.And(
                    vm.ty(e) == vm.TAG["tuple"], vm.tlen(e) == 2, e == pair(I, vm.titem(e, 0), vm.titem(e, 1)),
                    z3.Contains(uk, z3.Unit(vm.titem(e, 0))), vm.titem(e, 1) == z3.Select(uv, vm.titem(e, 0))))
                # … and "no recorded entry is k's" (recursive spec function; membership of k's entry is its negation)
                ck_, cn_ = z3.Select(holder["hk_vals"], k), z3.Select(holder["hn_vals"], k)
                pk = pair(I, k, z3.If(z3.Contains(holder["n_keys0"], z3.Unit(k)), cn_, ck_))
                holder["no_k"] = S.fold(I, "no_entry_for_k", lambda e: e != pk)
                r = I.alloc_dict(st, keys=uk, vals=uv)
                return [(st, r)]
            return None
        I.lib["$binop_first"] = binop_first

        def h_type(I, st, fv, args, kwargs, ctx):
            return [(st, holder["cls"])]
        I.lib["type"] = h_type
        I.lib["new:type"] = h_type

    def pair(I, a, b):
        return I.term(TupV([Sym(a), Sym(b)]))

    def union_facts(t):
        """d1 | d2 at name t: membership and the value (the right operand wins)"""
        uk, uv, ak, av, bk, bv = holder["union"]
        u = z3.Unit(t)
        return [z3.Contains(uk, u) == z3.Or(z3.Contains(ak, u), z3.Contains(bk, u)),
                z3.Select(uv, t) == z3.If(z3.Contains(bk, u), z3.Select(bv, t), z3.Select(av, t))]

    def distinct_facts(t):
        """distinct names are distinct Parameter objects; class-level and instance-level objects differ"""
        hk, hn = holder["hk_vals"], holder["hn_vals"]
        return [name_of(z3.Select(hk, t)) == t, name_of(z3.Select(hn, t)) == t,
                z3.Not(is_inst(z3.Select(hk, t))), is_inst(z3.Select(hn, t))]

    def setup(I, st):
        U = I.U
        obj = I.alloc_obj(st, "Parameterized", lazy=True, label="obj")
        priv = I.alloc_obj(st, "_InstancePrivate", lazy=True, label="private")
        K = I.alloc_dict(st, keys=U.fresh_seq("class_param_names"), vals=z3.Const("class_params", z3.ArraySort(vm.V, vm.V)))
        N = I.alloc_dict(st, keys=U.fresh_seq("inst_param_names"), vals=z3.Const("inst_params", z3.ArraySort(vm.V, vm.V)))
        st.heap[priv.oid].fields["params"] = N
        st.heap[obj.oid].fields["_param__private"] = priv
        par = I.alloc_obj(st, "Parameters", lazy=False, label="obj.param")
        st.heap[par.oid].fields.update({"cls": ClsV("Parameterized"), "self": obj})
        st.heap[obj.oid].fields["param"] = par
        cls = I.alloc_obj(st, "ParameterizedMetaclass", lazy=True, label="type(obj)")
        cpar = I.alloc_obj(st, "Parameters", lazy=False, label="cls.param")
        st.heap[cpar.oid].fields.update({"cls": cls, "self": Conc(None)})
        st.heap[cls.oid].fields["param"] = cpar
        holder.update({"K": K, "N": N, "cls": cls, "cls_param": cpar, "k": U.fresh("some_name")})
        hk, hn = st.heap[K.oid], st.heap[N.oid]
        holder["hk_vals"], holder["hn_vals"] = hk.vals, hn.vals
        k = holder["k"]
        st.pc += distinct_facts(k)
        F0 = sym_field(I, st, "constant")
        holder["F0"] = F0
        holder["n_keys0"] = hn.keys
        # `constant` flags are booleans
        st.pc += [S.is_bool(I, z3.Select(F0, z3.Select(hk.vals, k))), S.is_bool(I, z3.Select(F0, z3.Select(hn.vals, k)))]

        def body(I, st2, fv, args, kwargs, ctx):
            # user code: may create instance-level copies (names added to the instance table), leaves
            # the constant flags as it finds them (rely); may raise
            h = st2.heap[N.oid]
            h.keys = z3.Concat(h.keys, I.U.fresh_seq("copies_made_inside"))
            Fb = sym_field(I, st2, "constant")
            st2.ghost["flags_in_body"] = Fb
            # a copy made inside the block is a copy of the class-level Parameter as it is then
            kk = holder["k"]
            ck_, cn_ = z3.Select(holder["hk_vals"], kk), z3.Select(holder["hn_vals"], kk)
            copied = z3.And(z3.Not(z3.Contains(holder["n_keys0"], z3.Unit(kk))), z3.Contains(h.keys, z3.Unit(kk)))
            st2.ghost["F_constant"] = z3.Store(Fb, cn_, z3.If(copied, z3.Select(Fb, ck_), z3.Select(Fb, cn_)))
            q = st2.fork()
            return [(st2, Conc(None)), (q, Raise("$User", origin="body"))]
        I.lib["__BODY__"] = body
        return {"obj": obj, "K": K, "N": N, "env": {"o": obj, "__BODY__": FuncV("builtin", name="__BODY__", self=None)},
                "symbols": {}}

    def runner(I, st, info, ctx):
        from contracts.c05 import outcomes
        stmt = dm.with_stmt("edit_constant(o)")
        st.env = dict(info["env"])
        c = dict(ctx)
        c["module"] = I.src.modules["param.parameterized"]
        c["qual"] = "<harness>"
        return outcomes(I.exec_stmt(stmt, st, c))

    def flags(I, st):
        return sym_field(I, st, "constant")

    def parts(I, st):
        k = holder["k"]
        ck, cn = z3.Select(holder["hk_vals"], k), z3.Select(holder["hn_vals"], k)
        in_n0 = z3.Contains(holder["n_keys0"], z3.Unit(k))
        target = z3.If(in_n0, cn, ck)          # the object `obj.param[k]` answers on entry
        other = z3.If(in_n0, ck, cn)
        upd = st.env.get("updated")
        useq = st.heap[upd.oid].seq if isinstance(upd, Ref) else z3.Empty(vm.SeqV)
        return k, ck, cn, in_n0, target, other, useq, vm.truthy(z3.Select(holder["F0"], target))

    def unfold_append(I, f, seq):
        """defining equation of the fold at `s ++ [e]` (instantiated for the term at hand)"""
        if z3.is_app(seq) and seq.decl().kind() == z3.Z3_OP_SEQ_CONCAT and seq.num_args() >= 2:
            last = seq.arg(seq.num_args() - 1)
            if z3.is_app(last) and last.decl().kind() == z3.Z3_OP_SEQ_UNIT:
                rest = [seq.arg(i) for i in range(seq.num_args() - 1)]
                r = rest[0] if len(rest) == 1 else z3.Concat(*rest)
                I.U.axioms.append(f.sfn(seq) == z3.And(f.sfn(r), f.pred(last.arg(0))))

    def inv_flip(I, st, pre):
        k, ck, cn, in_n0, target, other, useq, was = parts(I, st)
        F, F0 = flags(I, st), holder["F0"]
        seen = z3.Contains(pre.seq, z3.Unit(k))
        f = holder["upd_ok"]
        unfold_append(I, f, useq)
        unfold_append(I, holder["no_k"], useq)
        rec = z3.Not(holder["no_k"].sfn(useq))           # k's entry is recorded in `updated`
        return z3.And(
            f.sfn(useq),
            z3.Select(F, other) == z3.Select(F0, other),
            z3.Implies(seen, z3.And(rec == was, z3.Select(F, target) == z3.If(was, I.U.FALSE, z3.Select(F0, target)))),
            z3.Implies(z3.Not(seen), z3.And(z3.Not(rec), z3.Select(F, target) == z3.Select(F0, target))))

    def havoc_flip(I, st):
        st.ghost["F_constant"] = z3.Const("F_constant!%d" % I.new_oid(), z3.ArraySort(vm.V, vm.V))
        upd = st.env.get("updated")
        if isinstance(upd, Ref):
            st.heap[upd.oid].seq = I.U.fresh_seq("updated")
            st.heap[upd.oid].fields.pop("$items", None)

    def inv_restore(I, st, pre):
        k, ck, cn, in_n0, target, other, useq, was = parts(I, st)
        F, F0 = flags(I, st), holder["F0"]
        hk, hn = st.heap[holder["K"].oid], st.heap[holder["N"].oid]
        in_k = z3.Contains(hk.keys, z3.Unit(k))
        copied = z3.And(z3.Not(in_n0), z3.Contains(hn.keys, z3.Unit(k)))
        seen = z3.Not(holder["no_k"].sfn(pre.seq))
        cleared = z3.If(was, I.U.FALSE, z3.Select(F0, target))      # the flag of obj.param[k] inside the block
        f = lambda o: z3.Select(F, o)
        f0 = lambda o: z3.Select(F0, o)
        # before k's entry is restored the flags are as inside the block; afterwards both are what
        # they were on entry (a copy made inside the block ends with the class-level flag)
        return z3.Implies(z3.Or(in_k, in_n0), z3.If(
            in_n0,
            z3.And(z3.Implies(in_k, f(ck) == f0(ck)), f(cn) == z3.If(seen, f0(cn), cleared)),
            z3.And(f(ck) == z3.If(seen, f0(ck), cleared),
                   z3.Implies(copied, f(cn) == z3.If(seen, f0(ck), cleared)))))

    def havoc_restore(I, st):
        st.ghost["F_constant"] = z3.Const("F_constant!%d" % I.new_oid(), z3.ArraySort(vm.V, vm.V))

    def restore_elem_facts(I, st, x):
        n = vm.titem(x, 0)
        return union_facts(n) + distinct_facts(n)

    def post(I, info, st, oc):
        k, ck, cn, in_n0, target, other, useq, was = parts(I, st)
        hk = st.heap[holder["K"].oid]
        F, F0 = flags(I, st), holder["F0"]
        how = "raise" if isinstance(oc, Raise) else "return"
        out = [("exit/class-level constant flag of every parameter is what it was on entry[%s]" % how,
                z3.Implies(z3.Contains(hk.keys, z3.Unit(k)), z3.Select(F, ck) == z3.Select(F0, ck))),
               ("exit/instance-level constant flag of every parameter is what it was on entry[%s]" % how,
                z3.Implies(in_n0, z3.Select(F, cn) == z3.Select(F0, cn))),
               ("exit/an instance-level copy made inside the block ends with the class-level flag[%s]" % how,
                z3.Implies(z3.And(z3.Contains(hk.keys, z3.Unit(k)), z3.Not(in_n0),
                                  z3.Contains(st.heap[holder["N"].oid].keys, z3.Unit(k))), z3.Select(F, cn) == z3.Select(F0, ck)))]
        fb = st.ghost.get("flags_in_body")
        if fb is not None:
            out.append(("inside the block the parameter is editable, and only the object that answers obj.param[k] was touched[%s]" % how,
                        z3.Implies(z3.Or(z3.Contains(hk.keys, z3.Unit(k)), in_n0),
                                   z3.And(z3.Not(vm.truthy(z3.Select(fb, target))), z3.Select(fb, other) == z3.Select(F0, other)))))
        else:
            out.append(("the block is entered", z3.BoolVal(False)))
        if isinstance(oc, Raise):
            out.append(("exception propagates", z3.BoolVal(oc.cls == "$User")))
        return out
    loops = {("edit_constant", "kls_params | inst_params"): LoopSpec("kls_params | inst_params", inv=inv_flip, heap=havoc_flip, name="flip-constants",
                                                                      elem_facts=lambda I, st, x: union_facts(x) + distinct_facts(x)),
             ("edit_constant", "updated"): LoopSpec("updated", inv=inv_restore, heap=havoc_restore, name="restore-constants",
                                                    elem_facts=restore_elem_facts)}
    c = FunctionContract("param.parameterized:edit_constant", "C14", setup, post, configure=configure, loops=loops, name="edit_constant")
    c.runner = runner
    c.static_replay = EDIT_CONSTANT_REPLAY
    c.static_witness = "edit_constant(obj) scenarios: class- or instance-level constant parameter, copy made inside the block or not, normal or exceptional exit"
    return c


_c14_base = contracts


def contracts():
    return _c14_base() + [edit_constant_contract()]


# Pinning a constant at construction goes through the class's parameter table (`_cls_parameters`,
# `_clear_params_cache`: verified for C13, part of this check as well).
_c14_base2 = contracts


def contracts():
    from contracts import c13 as _c13
    extra = [_c13.cls_parameters_contract(), _c13.clear_cache_contract()]
    for c in extra:
        c.prop = "C14"
    return _c14_base2() + extra


# a refused assignment to a constant must not (re)link it: the setter's link step comes after the guard
_c14_base3 = contracts


def contracts():
    from contracts import c02 as _c02
    sets = _c02.all_set_contracts(["C02/exc-frame/no-link-bookkeeping", "C02/exc-frame/refs-and-async-refs-unchanged"])
    for c in sets:
        c.prop = "C14"
    return _c14_base3() + sets


# readonly => constant is established by the constructor (verified for C11)
_c14_base4 = contracts


def contracts():
    from contracts import c11 as _c11
    c = _c11.parameter_init_contract()
    c.prop = "C14"
    return _c14_base4() + [c]


# ---------------------------------------------------------------------------------------------
# Parameters.__getitem__ — `obj.param[name]` is the instance-level Parameter for EVERY instance
# ---------------------------------------------------------------------------------------------
def param_getitem_contract():
    """`obj.param[name]` on an instance goes through `_instantiated_parameter(inst, class Parameter)`
    whatever the instance's truth value is (an empty container-like Parameterized is still an instance);
    `Cls.param[name]` is the class Parameter.  `edit_constant` re-locks the object this returns."""
    def configure(I):
        def objects(I, st, fv, args, kwargs, ctx):
            return [(st, st.ghost["K"])]
        I.contracts["Parameters.objects"] = objects

        def clsp(I, st, fv, args, kwargs, ctx):
            return [(st, st.ghost["K"])]
        I.contracts["Parameters._cls_parameters"] = clsp

        def inst_param(I, st, fv, args, kwargs, ctx):
            st.ghost["instantiated"] = st.ghost.get("instantiated", []) + [(args[0], I.term(args[1]))]
            return [(st, Sym(I.U.fresh("instance_level_parameter")))]
        I.contracts["_instantiated_parameter"] = inst_param

    def setup(I, st):
        U = I.U
        inst = Sym(U.fresh("instance"))                 # an arbitrary object: its truth value is unknown
        st.pc.append(inst.t != U.NONE)
        par = I.alloc_obj(st, "Parameters", lazy=False, label="obj.param")
        st.heap[par.oid].fields.update({"cls": ClsV("Parameterized"), "self": inst})
        K = I.alloc_dict(st, keys=U.fresh_seq("names"), vals=z3.Const("class_parameters", z3.ArraySort(vm.V, vm.V)))
        st.ghost["K"] = K
        key = Sym(U.fresh("key"))
        st.pc.append(z3.Contains(st.heap[K.oid].keys, z3.Unit(key.t)))
        fv = I.bound_method(par, I.src.find_method("Parameters", "__getitem__"))
        return fv, [key], {}, {"inst": inst, "cp": z3.Select(st.heap[K.oid].vals, key.t), "symbols": {}}

    def post(I, info, st, oc):
        if isinstance(oc, Raise):
            return [("does-not-raise", z3.BoolVal(False))]
        calls = st.ghost.get("instantiated", [])
        return [("on an instance — whatever its truth value — the instance-level Parameter is returned",
                 z3.BoolVal(len(calls) == 1 and calls[0][0] is info["inst"])),
                ("… instantiated from the class Parameter of that name", calls[0][1] == info["cp"] if calls else z3.BoolVal(False))]
    return FunctionContract("param.parameterized:Parameters.__getitem__", "C14", setup, post, configure=configure,
                            name="Parameters.__getitem__[instance of unknown truth value]")


_c14_base5 = contracts


def contracts():
    return _c14_base5() + [param_getitem_contract()]


# the class-level route: a plain value assigned on a class (declaring or inheriting) reaches the
# Parameter's __set__ — and with it the read-only guard — exactly once, whatever the value is, also the
# very object the class already shows (verified for C13)
_c14_base_cls = contracts


def contracts():
    from contracts import c13 as _c13
    c = _c13.metaclass_setattr_contract()
    c.prop = PROP
    return _c14_base_cls() + [c]


# the Parameter a class-level assignment goes through: the nearest class in the MRO that declares one
# (verified for C13)
_c14_base_gpd = contracts


def contracts():
    from contracts import c13 as _c13
    c = _c13.get_param_descriptor_contract()
    c.prop = "C14"
    return _c14_base_gpd() + [c]


# ---------------------------------------------------------------------------------------------
# concrete probes that replay the setter guard and Parameters.__getitem__ obligations (bounded, not proofs)
# ---------------------------------------------------------------------------------------------
GUARD_PROBE = '''import sys, os, itertools, fractions, decimal
sys.path.insert(0, os.environ.get('PYVC_REPO', '/repo'))
import param
bad = []
def fresh_equal(v):
    # an equal object that is NOT the held one
    if isinstance(v, bool):
        return None
    if isinstance(v, int):
        return int(str(v))
    if isinstance(v, float):
        return float(repr(v))
    if isinstance(v, str):
        return ''.join(list(v))
    if isinstance(v, bytes):
        return bytes(bytearray(v))
    if isinstance(v, tuple):
        return tuple(list(v))
    if isinstance(v, frozenset):
        return frozenset(list(v))
    if isinstance(v, (fractions.Fraction, decimal.Decimal, complex)):
        return type(v)(str(v)) if not isinstance(v, complex) else complex(v.real, v.imag)
    return None
VALUES = [10 ** 20, -(2 ** 70), 1.5, -0.25, 'a rather long text value', b'some bytes', (1, 2, 3), frozenset({1, 2}),
          fractions.Fraction(1, 3), decimal.Decimal('1.10'), 3 + 4j]
for v in VALUES:
    P = type('P', (param.Parameterized,), {'c': param.Parameter(default=None, constant=True)})
    for how in ('constructor', 'class-default'):
        if how == 'constructor':
            p = P(c=v)
        else:
            P.c = v; p = P()
        held = p.c
        w = fresh_equal(v)
        if w is None or w is held:
            continue
        for route in ('setattr', 'update'):
            try:
                if route == 'setattr':
                    p.c = w
                else:
                    p.param.update(c=w)
            except TypeError:
                pass
            else:
                bad.append('constant parameter holding %r (%s): assigning an equal but different %s object by %s was accepted'
                           % (v, how, type(v).__name__, route))
            if p.c is not held:
                bad.append('constant parameter holding %r (%s): after the attempt by %s the object held changed' % (v, how, route))
        try:
            p.c = held                       # the identical object is always accepted
        except TypeError:
            bad.append('constant parameter holding %r: re-assigning the identical object raised TypeError' % (v,))
# an instance of any truth value answers .param[...] with its own, instance-level Parameter
class Bag(param.Parameterized):
    c = param.Number(default=1, constant=True)
    r = param.Number(default=2, readonly=True)
    items = param.List(default=[])
    def __len__(self):
        return len(self.items)
class Off(param.Parameterized):
    c = param.Number(default=1, constant=True)
    r = param.Number(default=2, readonly=True)
    def __bool__(self):
        return False
for cls in (Bag, Off):
    f = cls()                                  # no instance-level Parameter exists yet
    with param.parameterized.edit_constant(f):
        f.c = 5
    try:
        f.c = 6
        bad.append('%s instance (falsy, no instance-level Parameter before the block): constant rebound after edit_constant' % cls.__name__)
    except TypeError:
        pass
    if not f.param.objects('existing')['c'].constant:
        bad.append('%s instance (falsy): instance-level constant flag left off after edit_constant' % cls.__name__)
    o = cls()
    for nm in ('c', 'r'):
        po = o.param[nm]
        if po is cls.param[nm] or po.owner is not o:
            bad.append('%s instance (truth value %r): .param[%r] is not the instance-level Parameter' % (cls.__name__, bool(o), nm))
        if po.constant is not True:
            bad.append('%s instance: .param[%r].constant is %r' % (cls.__name__, nm, po.constant))
    with param.parameterized.edit_constant(o):
        o.c = 5
    try:
        o.c = 6
        bad.append('%s instance (falsy): constant rebound after edit_constant' % cls.__name__)
    except TypeError:
        pass
    if cls.param['c'].constant is not True or cls().param['c'].constant is not True:
        bad.append('%s: edit_constant on a falsy instance left the class-level constant flag off' % cls.__name__)
# a watcher callback is ordinary user code: constants stay locked while it runs, however it was fired
class W(param.Parameterized):
    c = param.Number(default=1, constant=True)
    x = param.Number(default=0)
    e = param.Event()
for fire in ('set', 'update', 'trigger', 'trigger-event', 'batch', 'update-context'):
    for level in ('instance', 'class'):
        WW = type('WW', (W,), {})
        w = WW()
        tried = []
        def cb(*events, w=w, tried=tried):
            for target in (('c', 99), ('name', 'renamed')):
                try:
                    setattr(w, *target)
                    tried.append('%s rebound' % target[0])
                except TypeError:
                    tried.append('refused')
        (w if level == 'instance' else WW).param.watch(cb, ['x', 'e'])
        holder = w if level == 'instance' else WW
        if fire == 'set':
            holder.x = 1
        elif fire == 'update':
            holder.param.update(x=1)
        elif fire == 'trigger':
            holder.param.trigger('x')
        elif fire == 'trigger-event':
            holder.param.trigger('e')
        elif fire == 'batch':
            with param.parameterized.batch_call_watchers(holder):
                holder.x = 1
        else:
            with holder.param.update(x=1):
                pass
        if not tried:
            bad.append('watcher fired by %s (%s level) was not called' % (fire, level))
        if any(t != 'refused' for t in tried) or w.c != 1:
            bad.append('inside a watcher fired by %s (%s-level watcher): %s; the constant now holds %r'
                       % (fire, level, sorted(set(t for t in tried if t != 'refused')), w.c))
if bad:
    print('REPRODUCED: ' + bad[0]); sys.exit(1)
print('NOT-REPRODUCED'); sys.exit(0)
'''

PROBES = [("constants: equal-but-different objects are refused; falsy instances answer with their own Parameter", GUARD_PROBE)]


# a restored object (copy, unpickled, built by __setstate__ from whatever state) is a constructed one: its
# constants are locked (verified for C17, with the scenario replay of __setstate__)
_c14_base_ss = contracts


def contracts():
    from contracts import c17 as _c17
    c = _c17.setstate_tail_contract()
    c.prop = PROP
    return _c14_base_ss() + [c]


# ---------------------------------------------------------------------------------------------
# Block contract: Parameterized.__init__ from the keyword handling to the end — the object is
# marked initialized on EVERY exit (a constructor whose keywords are refused, caught by a subclass
# __init__, must not leave an object whose constants stay writable / whose namespace answers with the
# class-level Parameter objects: C14 and C12)
# ---------------------------------------------------------------------------------------------
INIT_REPLAY = '''import sys, os
sys.path.insert(0, os.environ.get('PYVC_REPO', '/repo'))
import param
bad = []
class P(param.Parameterized):
    c = param.Number(default=1, constant=True, bounds=(0, 10))
    tags = param.List(default=['a'])
class Q(P):
    def __init__(self, **kw):
        try:
            super().__init__(**kw)
        except Exception:
            pass
for kw in ({'c': 99}, {'nosuch': 1}, {'tags': 3}):
    q = Q(**kw)
    if not q._param__private.initialized:
        bad.append('after a refused constructor keyword %r the object is not marked initialized' % (kw,))
    try:
        q.c = 5
        bad.append('after a refused constructor keyword %r the constant is writable' % (kw,))
    except TypeError:
        pass
    if q.param['tags'] is P.param['tags']:
        bad.append('after a refused constructor keyword %r the instance namespace hands out the class-level Parameter' % (kw,))
if bad:
    print('REPRODUCED: ' + bad[0]); sys.exit(1)
print('NOT-REPRODUCED'); sys.exit(0)
'''


def init_block_contract():
    import ast as _ast
    QUAL = "Parameterized.__init__"
    MOD = "param.parameterized"

    def configure(I):
        def may_fail(result):
            def h(I, st, fv, args, kwargs, ctx):
                st.ghost["calls"] = st.ghost.get("calls", []) + [fv.data.get("qual") if hasattr(fv, "data") else "?"]
                q = st.fork()
                return [(st, result(I, st)), (q, Raise("$User", origin="constructor step"))]
            return h
        I.contracts["Parameters._setup_params"] = may_fail(lambda I, st: TupV([Sym(I.U.fresh("refs")), Sym(I.U.fresh("deps"))]))
        I.contracts["Parameters._setup_refs"] = may_fail(lambda I, st: Conc(None))
        I.contracts["Parameters._update_deps"] = may_fail(lambda I, st: Conc(None))

    def setup(I, st):
        W = dm.World(I, st, initialized=Conc(False))
        return {"W": W, "env": {"self": W.obj, "params": I.alloc_dict(st), "object_count": Sym(I.U.fresh("object_count"))},
                "symbols": {}}

    def runner(I, st, info, ctx):
        from contracts.c05 import outcomes
        module, cname, fd = I.src.locate("%s:%s" % (MOD, QUAL))
        idx = [i for i, x in enumerate(fd.body) if "_setup_params" in _ast.unparse(x)]
        if not idx:
            raise OutOfReach("the keyword handling (_setup_params) was not found in Parameterized.__init__")
        body = [x for x in fd.body[idx[0]:] if not (isinstance(x, _ast.AugAssign) and "object_count" in _ast.unparse(x))]
        st.env = dict(info["env"])
        c = dict(ctx)
        c.update({"module": module, "owner": cname, "qual": QUAL, "fnode": fd, "selfname": "self"})
        return outcomes(I.exec_block(body, st, c))

    def post(I, info, st, oc):
        W = info["W"]
        init = st.heap[W.private.oid].fields.get("initialized")
        how = "the constructor fails" if isinstance(oc, Raise) else "the constructor returns"
        return [("the object is marked initialized when %s" % how, z3.BoolVal(isinstance(init, Conc) and init.py is True)),
                ("the keywords are handled", z3.BoolVal("Parameters._setup_params" in st.ghost.get("calls", [])))]
    c = FunctionContract("%s:%s" % (MOD, QUAL), PROP, setup, post, configure=configure,
                         name="Parameterized.__init__[from the keyword handling on; any step may fail]")
    c.runner = runner
    c.static_replay = INIT_REPLAY
    c.static_witness = "a constructor keyword is refused and the exception is caught by a subclass __init__"
    return c


_c14_base_init = contracts


def contracts():
    return _c14_base_init() + [init_block_contract()]


# the only writer of a linked constant is the delivery of a new source value, and it goes through
# edit_constant (`_sync_refs` is verified for C08)
_c14_base_sync = contracts


def contracts():
    from contracts import c08 as _c08
    c = _c08.sync_refs_contract(2)
    c.prop = PROP
    c.clause_prefixes = ["the update runs inside", "update called", "only an exception"]
    return _c14_base_sync() + [c]


# ---------------------------------------------------------------------------------------------
# concrete probe: a constant is pinned on the instance however the instance was made — also inside
# shared_parameters(), also on copies — so nothing done to the class later rebinds it
# ---------------------------------------------------------------------------------------------
PINNED_REPLAY = '''import sys, os, itertools, copy, pickle
sys.path.insert(0, os.environ.get('PYVC_REPO', '/repo'))
import param
bad = []
class K(param.Parameterized):
    c = param.Parameter(default='first', constant=True)
    lst = param.List(default=[1], constant=True)
    n = param.Number(default=1, constant=True)
def make(how):
    if how == 'plain':
        return K()
    if how == 'shared':
        with param.shared_parameters():
            return K()
    if how == 'shared-twice':
        with param.shared_parameters():
            K()
            return K()
    if how == 'deepcopy':
        return copy.deepcopy(K())
    if how == 'pickle':
        return pickle.loads(pickle.dumps(K()))
for how in ('plain', 'shared', 'shared-twice', 'deepcopy', 'pickle'):
    saved = {k: K.param[k].default for k in ('c', 'lst', 'n')}
    try:
        o = make(how)
        before = {k: getattr(o, k) for k in ('c', 'lst', 'n')}
        K.c = 'second'; K.lst = [2]; K.n = 2
        for k, v in before.items():
            now = getattr(o, k)
            if now is not v and now != v:
                bad.append('instance made by %s: after the class-level assignment K.%s = ... its constant %s reads %r (was %r)' % (how, k, k, now, v))
            try:
                setattr(o, k, {'c': 'third', 'lst': [9], 'n': 7}[k])
                bad.append('instance made by %s: constant %s can be assigned' % (how, k))
            except TypeError:
                pass
    finally:
        for k, v in saved.items():
            setattr(K, k, v)
if bad:
    print('REPRODUCED: ' + bad[0]); sys.exit(1)
print('NOT-REPRODUCED'); sys.exit(0)
'''

PROBES = PROBES + [("constants stay pinned on instances made inside shared_parameters() and on copies", PINNED_REPLAY)]
