"""C14 — constant / read-only parameters cannot be rebound after construction.

Deductive part so far: the `as_uninitialized` wrapper restores `initialized` on BOTH exits
(otherwise an object that survives a failing constructor step stays writable), and the guard
section of `Parameter.__set__` (see contracts/c02.py: constant/readonly clauses)."""
from contracts import c05 as _c05

PROP = "C14"

AS_UNINIT_REPLAY = '''import sys, os
sys.path.insert(0, os.environ.get('PYVC_REPO', '/repo'))
import param
class P(param.Parameterized):
    c = param.Number(1, constant=True)
    n = param.Number(0, bounds=(0, 1))
class Q(P):
    def __init__(self, **kw):
        try:
            super().__init__(**kw)
        except Exception as e:
            self.err = e
q = Q(n=5)            # a rejected constructor argument, swallowed by the subclass
print('initialized after the failing constructor:', q._param__private.initialized)
try:
    q.c = 7
    print('constant rebound: q.c =', q.c)
    print('REPRODUCED: C14 constant parameter rebound on an object that survived a failing constructor'); sys.exit(1)
except TypeError:
    pass
print('NOT-REPRODUCED'); sys.exit(0)
'''


def contracts():
    c = _c05.as_uninitialized_contract()
    c.static_replay = AS_UNINIT_REPLAY
    c.static_witness = "wrapped constructor step raises; error swallowed by subclass __init__"
    out = [c]
    from contracts import c02 as _c02
    out += _c02.all_set_contracts(["C14/"])
    from contracts import c12 as _c12
    out.append(_c12.setup_params_contract(["C14/"]))
    return out


ASSUMPTIONS = _c05.ASSUMPTIONS
