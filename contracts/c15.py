"""C15 — JSON serialization round-trips every serializable parameter value.

Contract shape: encode/decode pairs against spec functions; external codecs assumed.

The real per-type hooks `T.serialize` / `T.deserialize` are executed symbolically *in sequence*
(serialize, then the JSON text round trip `rt = loads∘dumps`, then deserialize) and the
obligation is  deserialize(rt(serialize(v))) == v  with equal Python type.

Assumed codecs (A-STRF, A-JSON): `strftime`/`strptime` are modelled as uninterpreted functions
keyed by the *literal format strings found in the source*: the round-trip axiom
`strptime(strftime(d, F), F) == d` exists only when serializer and deserializer use the same
format F and F renders the whole value (the full format for datetimes, the date format for
dates); `len(strftime(date,'%Y-%m-%d')) == 10`, `len(strftime(datetime, full)) == 26` (years >=
1000).  `rt` is the identity on str / list-of-str / None (JSON-native values).  Any other
format pair leaves the obligation refutable.
"""
import z3

from pyvc import spec as S
from pyvc import values as vm
from pyvc.engine import OutOfReach, Raise
from pyvc.values import BoolV, ClsV, Conc, FuncV, Ref, Sym, TupV
from pyvc.verify import FunctionContract

PROP = "C15"
MOD = "param.parameters"
FULL = "%Y-%m-%dT%H:%M:%S.%f"
DATE = "%Y-%m-%d"

strftime = z3.Function("strftime", vm.V, vm.V, vm.V)
strptime = z3.Function("strptime", vm.V, vm.V, vm.V)
date_of = z3.Function("date_of", vm.V, vm.V)     # datetime.date()


def install_codecs(I):
    U = I.U

    def vmethod(I, st, name, selfv, args, kwargs, ctx):
        if name == "strftime":
            t = I.term(selfv)
            f = I.term(args[0])
            out = []
            for (q, b) in I.branch(st, U.isdate(t)):
                if not b:
                    out.append((q, Raise("AttributeError")))
                    continue
                r = strftime(t, f)
                U.well_typed(r)
                q.pc += [vm.ty(r) == vm.TAG["str"]]
                # A-STRF lengths (years >= 1000) for the two whitelisted formats
                if isinstance(args[0], Conc) and args[0].py == DATE:
                    q.pc.append(vm.slen(r) == 10)
                elif isinstance(args[0], Conc) and args[0].py == FULL:
                    q.pc.append(vm.slen(r) == 26)
                out.append((q, Sym(r)))
            return out
        if name == "date":
            t = I.term(selfv)
            r = date_of(t)
            U.well_typed(r)
            return [(st, Sym(r))]
        if name == "astype":
            raise OutOfReach("numpy datetime64 (A-NONUMPY)")
        return None
    I.lib["$value_method"] = vmethod

    def h_strptime(I, st, fv, args, kwargs, ctx):
        s, f = I.term(args[0]), I.term(args[1])
        out = []
        for (q, b) in I.branch(st, vm.ty(s) == vm.TAG["str"]):
            if not b:
                out.append((q, Raise("TypeError")))
                continue
            r = strptime(s, f)
            U.well_typed(r)
            q.pc.append(vm.ty(r) == vm.TAG["datetime"])
            # may also raise ValueError on text that does not match the format
            q2 = q.fork()
            out.append((q, Sym(r)))
            out.append((q2, Raise("ValueError", origin="strptime")))
        return out
    I.lib["datetime.strptime"] = h_strptime


def codec_axioms(I, v, fmts):
    """A-STRF instantiated for value v: round trip for the whitelisted (type, format) pairs."""
    U = I.U
    ax = []
    full, date = U.lit(FULL), U.lit(DATE)
    # a datetime rendered with the full format parses back to itself
    ax.append(z3.Implies(vm.ty(v) == vm.TAG["datetime"], strptime(strftime(v, full), full) == v))
    # a date rendered with the date format parses back to its midnight, whose .date() is the date
    ax.append(z3.Implies(vm.ty(v) == vm.TAG["date"], date_of(strptime(strftime(v, date), date)) == v))
    return ax


def rt_identity(I, st, v):
    """JSON text round trip of a JSON-native value (A-JSON): str / None unchanged; a list of str comes
    back as an equal list (fresh object, same items)."""
    if isinstance(v, Ref) and st.heap[v.oid].kind == "list":
        h = st.heap[v.oid]
        r = I.alloc_list(st, h.seq)
        if h.fields.get("$items") is not None:
            st.heap[r.oid].fields["$items"] = list(h.fields["$items"])
        return r
    return v


def roundtrip_contract(cls, vtype, scope=None, name=None, n_items=None):
    """serialize -> rt -> deserialize on a value of builtin type `vtype` ('datetime', 'date', 'None',
    or ('tuple', item type, n))."""
    def configure(I):
        install_codecs(I)

    def setup(I, st):
        U = I.U
        info = {"symbols": {}}
        if vtype == "None":
            v = Conc(None)
            info["vt"] = U.NONE
        elif isinstance(vtype, tuple):
            _, ity, n = vtype
            items = []
            for k in range(n):
                it = Sym(U.fresh("item%d" % k))
                if ity == "same":
                    st.pc.append(U.isdate(it.t))
                    if k:
                        st.pc.append(vm.ty(it.t) == vm.ty(items[0].t))
                elif ity == "any-json":
                    st.pc.append(U.has_type(it.t, ["int", "float", "str", "bool", "NoneType"]))
                else:
                    st.pc.append(vm.ty(it.t) == vm.TAG[ity])
                st.pc += codec_axioms(I, it.t, None)
                items.append(it)
                info["symbols"]["item%d" % k] = it.t
            v = TupV(items)
            info["items"] = items
        else:
            v = Sym(U.fresh("value"))
            st.pc.append(vm.ty(v.t) == vm.TAG[vtype])
            st.pc += codec_axioms(I, v.t, None)
            info["symbols"]["value"] = v.t
        info["v"] = v
        return info

    def runner(I, st, info, ctx):
        cv = ClsV(cls)
        out = []
        ser = I.src.find_method(cls, "serialize")
        des = I.src.find_method(cls, "deserialize")
        if ser is None or des is None:
            raise OutOfReach("serialize/deserialize not found")

        def mk(found):
            c, m, fd = found
            return FuncV("repo", module=m, cls=c, node=fd, self=cv, qual="%s.%s" % (c, fd.name))
        for (q, sv) in I.call(mk(ser), [info["v"]], {}, st, ctx):
            if isinstance(sv, Raise):
                out.append((q, Raise(sv.cls, origin="serialize")))
                continue
            q.ghost["serialized"] = sv
            jv = rt_identity(I, q, sv)
            for (r, dv) in I.call(mk(des), [jv], {}, q, ctx):
                if isinstance(dv, Raise) and dv.origin == "strptime":
                    # parsing failure of a text that the matching strftime produced is excluded by A-STRF
                    r.notes.append("strptime rejects text (excluded by A-STRF when formats match)")
                    r.ghost["strptime_failed"] = True
                out.append((r, dv))
        return out

    def post(I, info, st, oc):
        U = I.U
        v = info["v"]
        if isinstance(oc, Raise):
            if st.ghost.get("strptime_failed"):
                # the failure is only admissible if the text was NOT produced by the matching format:
                # with matching formats A-STRF says the parse succeeds, so this path is assumed away
                return []
            return [("round-trip does not raise", z3.BoolVal(False))]
        sv = st.ghost.get("serialized")
        out = []
        if isinstance(v, Conc) and v.py is None:
            out.append(("None round-trips to None", I.term(oc) == U.NONE if not isinstance(oc, Conc) else z3.BoolVal(oc.py is None)))
            return out
        if isinstance(v, TupV):
            res = I.path_known_items(st, oc) if not isinstance(oc, TupV) else oc.items
            is_tuple = isinstance(oc, TupV) or (isinstance(oc, Sym) and I.valid(st, vm.ty(oc.t) == vm.TAG["tuple"]))
            out.append(("result is a tuple", z3.BoolVal(bool(is_tuple))))
            if res is None or len(res) != len(v.items):
                out.append(("same number of items", z3.BoolVal(False)))
            else:
                for k, (a, b) in enumerate(zip(res, v.items)):
                    out.append(("item %d round-trips (value and type)" % k, I.term(a) == b.t))
            # the serialized form is JSON-native: a list of strings / the items themselves
            return out
        out.append(("deserialize(rt(serialize(v))) == v (value and type)", I.term(oc) == v.t))
        if isinstance(sv, Sym) and vtype in ("datetime", "date"):
            out.append(("serialized form is a JSON string", vm.ty(sv.t) == vm.TAG["str"]))
        elif sv is not None and isinstance(vtype, str) and vtype in ("str", "int", "float", "bool"):
            out.append(("serialized form is JSON-native (the value itself)", I.term(sv) == v.t))
        return out
    c = FunctionContract("%s:%s.deserialize" % (MOD if cls not in ("Parameter", "String") else "param.parameterized", cls), PROP, setup, post,
                         configure=configure, name=name or "%s.serialize/deserialize[%s]" % (cls, vtype if isinstance(vtype, str) else "%s x%d" % (vtype[1], vtype[2])))
    c.runner = runner
    return c


def contracts():
    C = []
    C.append(roundtrip_contract("Date", "datetime"))
    C.append(roundtrip_contract("Date", "None"))
    C.append(roundtrip_contract("CalendarDate", "date"))
    C.append(roundtrip_contract("CalendarDate", "None"))
    C.append(roundtrip_contract("DateRange", ("tuple", "datetime", 2)))
    C.append(roundtrip_contract("DateRange", ("tuple", "date", 2)))
    C.append(roundtrip_contract("DateRange", "None"))
    C.append(roundtrip_contract("CalendarDateRange", ("tuple", "date", 2)))
    C.append(roundtrip_contract("CalendarDateRange", "None"))
    for n in (0, 1, 2, 3):
        C.append(roundtrip_contract("Tuple", ("tuple", "any-json", n)))
    C.append(roundtrip_contract("Tuple", "None"))
    C.append(roundtrip_contract("Parameter", ("tuple", "any-json", 0), name="Parameter.serialize/deserialize[identity hooks]"))
    # the remaining serializable types: whatever hook the type resolves to (today the identity hooks of
    # Parameter) must give back a JSON-native scalar value unchanged
    for cls, vt in (("String", "str"), ("Color", "str"), ("Integer", "int"), ("Number", "float"), ("Number", "int"),
                    ("Boolean", "bool"), ("Selector", "str"), ("Selector", "int"), ("Selector", "None"),
                    ("String", "None"), ("Integer", "None"), ("Number", "None")):
        C.append(roundtrip_contract(cls, vt))
    return C


ASSUMPTIONS = [
    "A-STRF: strptime(strftime(d, F), F) == d for datetimes with the full format and dates with the date format (years >= 1000); output lengths 26 / 10",
    "A-JSON: loads(dumps(x)) is the identity on str / None / lists of JSON-native scalars (a fresh equal list)",
    "A-NONUMPY: numpy datetime64 values (the .astype branch) are out of scope",
    "Tuple round trip proved for lengths 0..3 with JSON-native scalar items (the hooks are `list(value)` / `tuple(value)`: no per-length code); nested tuples are a known finding of the bounded layer",
    "the object-level loops (serialize_parameters / deserialize_parameters, subset=) are covered by the bounded layer only",
]


# ---------------------------------------------------------------------------------------------
# Object-level loops of param/serializer.py (JSONSerialization.serialize_parameters /
# deserialize_parameters): every parameter of the subset, and only those, goes through its own hook
# ---------------------------------------------------------------------------------------------
def object_loop_contract(direction, with_subset):
    from pyvc.loops import LoopSpec
    holder = {}
    valF = z3.Function("current_value", vm.V, vm.V)            # pobj.param.get_value_generator(name)
    serF = z3.Function("hook_serialize", vm.V, vm.V, vm.V)     # p.serialize(value)
    deserF = z3.Function("hook_deserialize", vm.V, vm.V, vm.V)  # p.deserialize(value)
    paramF = z3.Function("parameter_named", vm.V, vm.V)        # pobj.param[name]
    fname = "serialize_parameters" if direction == "ser" else "deserialize_parameters"

    def configure(I):
        def vmethod(I, st, name, selfv, args, kwargs, ctx):
            if name in ("serialize", "deserialize") and isinstance(selfv, Sym):
                f = serF if name == "serialize" else deserF
                r = f(I.term(selfv), I.term(args[0]))
                I.U.well_typed(r)
                return [(st, Sym(r))]
            return None
        I.lib["$value_method"] = vmethod

        def objects(I, st, fv, args, kwargs, ctx):
            return [(st, holder["P"])]
        I.contracts["Parameters.objects"] = objects

        def gvg(I, st, fv, args, kwargs, ctx):
            r = valF(I.term(args[0]))
            I.U.well_typed(r)
            return [(st, Sym(r))]
        I.contracts["Parameters.get_value_generator"] = gvg

        def getitem(I, st, fv, args, kwargs, ctx):
            r = paramF(I.term(args[0]))
            I.U.well_typed(r)
            return [(st, Sym(r))]
        I.contracts["Parameters.__getitem__"] = getitem

        def dumps(I, st, fv, args, kwargs, ctx):
            st.ghost["dumped"] = args[-1]
            return [(st, Sym(I.U.fresh("json_text")))]
        I.contracts["JSONSerialization.dumps"] = dumps

        def loads(I, st, fv, args, kwargs, ctx):
            return [(st, holder["D"])]
        I.contracts["JSONSerialization.loads"] = loads

    def setup(I, st):
        U = I.U
        pobj = I.alloc_obj(st, "Parameterized", lazy=True, label="pobj")
        par = I.alloc_obj(st, "Parameters", lazy=True, label="pobj.param")
        st.heap[pobj.oid].fields["param"] = par
        P = I.alloc_dict(st, keys=U.fresh_seq("parameter_names"), vals=z3.Const("parameters", z3.ArraySort(vm.V, vm.V)))
        D = I.alloc_dict(st, keys=U.fresh_seq("decoded_names"), vals=z3.Const("decoded_values", z3.ArraySort(vm.V, vm.V)))
        k = U.fresh("some_name")
        st.pc.append(vm.ty(k) == vm.TAG["str"])
        holder.update({"P": P, "D": D, "k": k})
        if with_subset:
            sub = I.alloc_list(st, U.fresh_seq("subset"))
            holder["allowed"] = I.seq_contains_eq(st.heap[sub.oid].seq, k)
        else:
            sub = Conc(None)
            holder["allowed"] = z3.BoolVal(True)
        cv = ClsV("JSONSerialization")
        fv = I.bound_method(cv, I.src.find_method("JSONSerialization", fname))
        args = [pobj] if direction == "ser" else [pobj, Sym(U.fresh("text"))]
        return fv, args, {"subset": sub}, {"symbols": {}}

    def comp(st):
        r = st.env.get("components")
        if not (isinstance(r, Ref) and st.heap[r.oid].kind == "dict"):
            raise OutOfReach("`components` is no longer one mapping updated in place: the loop invariant does not apply")
        return st.heap[r.oid]

    def expected(I, st, key):
        src = st.heap[(holder["P"] if direction == "ser" else holder["D"]).oid]
        if direction == "ser":
            return serF(z3.Select(src.vals, key), valF(key))
        return deserF(paramF(key), z3.Select(src.vals, key))

    def inv(I, st, pre):
        k = holder["k"]
        h = comp(st)
        seen = z3.Contains(pre.seq, z3.Unit(k))
        has = z3.Contains(h.keys, z3.Unit(k))
        return z3.And(has == z3.And(seen, holder["allowed"]), z3.Implies(has, z3.Select(h.vals, k) == expected(I, st, k)))

    def havoc(I, st):
        h = comp(st)
        h.keys = I.U.fresh_seq("component_names")
        h.vals = z3.Const("component_values!%d" % I.new_oid(), z3.ArraySort(vm.V, vm.V))
        h.ckeys = None
        h.fields.pop("$entries", None)
        for f in [f for f in h.fields if isinstance(f, tuple)]:
            h.fields.pop(f)

    def post(I, info, st, oc):
        if isinstance(oc, Raise):
            return [("does-not-raise", z3.BoolVal(False))]
        k = holder["k"]
        res = st.ghost.get("dumped") if direction == "ser" else oc
        if not (isinstance(res, Ref) and st.heap[res.oid].kind == "dict"):
            return [("the components mapping is what is encoded / returned", z3.BoolVal(False))]
        h = st.heap[res.oid]
        src = st.heap[(holder["P"] if direction == "ser" else holder["D"]).oid]
        has = z3.Contains(h.keys, z3.Unit(k))
        return [("a name is present exactly when it is a parameter of the object (an entry of the text) and in the subset",
                 has == z3.And(z3.Contains(src.keys, z3.Unit(k)), holder["allowed"])),
                ("each value went through the hook of its own parameter, with its own value",
                 z3.Implies(has, z3.Select(h.vals, k) == expected(I, st, k)))]
    hdr = "objects('existing')" if direction == "ser" else "deserialized.items()"
    loops = {("JSONSerialization.%s" % fname, hdr): LoopSpec(hdr, inv=inv, heap=havoc, name="every-parameter-of-the-subset")}
    c = FunctionContract("param.serializer:JSONSerialization.%s" % fname, PROP, setup, post, configure=configure, loops=loops,
                         name="JSONSerialization.%s[%s, arbitrary parameters]" % (fname, "subset" if with_subset else "no subset"))
    c.static_replay = OBJECT_LOOP_REPLAY
    c.static_witness = "serialize_parameters / deserialize_parameters with and without subset vs the per-parameter hooks"
    return c


OBJECT_LOOP_REPLAY = '''import sys, os, json, itertools
sys.path.insert(0, os.environ.get('PYVC_REPO', '/repo'))
import param, datetime as dt
bad = []
class P(param.Parameterized):
    i = param.Integer(3)
    t = param.Tuple((1, 2))
    d = param.Date(dt.datetime(2020, 1, 2, 3, 4, 5))
    s = param.String('x')
names = ['name', 'i', 't', 'd', 's']
for obj in (P, P(i=5, s='y')):
    for r in range(len(names) + 1):
        for subset in [None] + [list(c) for c in itertools.combinations(names, r)]:
            try:
                text = obj.param.serialize_parameters(subset=subset)
                got = json.loads(text)
            except Exception as e:
                bad.append('serialize_parameters(subset=%r) raised %s: %s' % (subset, type(e).__name__, e)); continue
            want_keys = set(names if subset is None else subset)
            if set(got) != want_keys:
                bad.append('serialize_parameters(subset=%r): keys %r' % (subset, sorted(got)))
                continue
            for n in got:
                if got[n] != json.loads(obj.param.serialize_value(n)):
                    bad.append('serialize_parameters(subset=%r)[%r] == %r, serialize_value gives %s' % (subset, n, got[n], obj.param.serialize_value(n)))
            try:
                full = obj.param.serialize_parameters()
                back = obj.param.deserialize_parameters(full, subset=subset)
            except Exception as e:
                bad.append('deserialize_parameters(subset=%r) raised %s: %s' % (subset, type(e).__name__, e)); continue
            if set(back) != want_keys:
                bad.append('deserialize_parameters(subset=%r): keys %r' % (subset, sorted(back)))
                continue
            for n in back:
                w = obj.param.deserialize_value(n, json.dumps(json.loads(full)[n]))
                if back[n] != w or type(back[n]) is not type(w):
                    bad.append('deserialize_parameters(subset=%r)[%r] == %r, deserialize_value gives %r' % (subset, n, back[n], w))
if bad:
    print('REPRODUCED: C15 object-level (de)serialization does not apply the hook of each parameter to exactly the subset:')
    for b in bad[:6]:
        print('  ', b)
    sys.exit(1)
print('NOT-REPRODUCED'); sys.exit(0)
'''


_c15_base = contracts


def contracts():
    return _c15_base() + [object_loop_contract(d, s) for d in ("ser", "deser") for s in (False, True)]


# the values serialized come from get_value_generator
_c15_base2 = contracts


def contracts():
    from contracts import c13 as _c13
    extra = [_c13.get_value_generator_dynamic_contract(), _c13.get_value_generator_contract("plain")]
    for c in extra:
        c.prop = PROP
    return _c15_base2() + extra


# the serialization entry points act on the instance whenever there is one, whatever its truth value
# (verified for C12)
_c15_base_soc = contracts


def contracts():
    from contracts import c12 as _c12
    c = _c12.self_or_cls_contract()
    c.prop = "C15"
    return _c15_base_soc() + [c]
