"""C16 — serialized state always validates against the generated JSON schema.

Contract shape: relation between two functions of the same Parameter (schema generator and
validator) through a spec interpretation ``accepts`` of the draft-07 keywords param emits.

Deductive part: the real schema builders of param/serializer.py are executed symbolically on a
parameter with symbolic constraint slots; the resulting schema object (a dict display with concrete
keys on every path) is interpreted by ``accepts_number`` / structural clauses:

  declare_numeric_bounds / number_schema / integer_schema
        for EVERY number j:  accepts(schema, j)  <=>  j lies inside the hard bounds with the declared
        inclusivity  (so every valid value validates, and a number outside the bounds is rejected —
        the converse clause of the statement); only JSON-Schema keywords; `type` is 'number' /
        'integer'
  tuple_schema / numerictuple_schema / range_schema
        type array, minItems == maxItems == length (when declared), item schema bounded like a Number
  date_schema / calendardate_schema / dict_schema     fixed well-formed schemas
  JSONNullable / param_schema      allow_None => anyOf[schema, {'type': 'null'}], dispatch by type name
"""
import z3

from contracts.c01 import inside, wf_bounds, wf_incl, bound_ok_num
from pyvc import spec as S
from pyvc import values as vm
from pyvc.engine import OutOfReach, Raise
from pyvc.values import BoolV, ClsV, Conc, FuncV, Ref, Sym, TupV
from pyvc.verify import FunctionContract

PROP = "C16"
MOD = "param.serializer"
KEYWORDS = {"type", "anyOf", "enum", "minimum", "maximum", "exclusiveMinimum", "exclusiveMaximum", "minItems",
            "maxItems", "items", "additionalItems", "properties", "format", "description", "title"}
JSON_TYPES = {"integer", "number", "string", "null", "array", "object", "boolean"}


def schema_dict(I, st, v):
    if not isinstance(v, Ref) or st.heap[v.oid].kind != "dict":
        return None
    return I.known_dict(st, v)


def accepts_number(I, d, j):
    """draft-07 meaning of the numeric keywords for a JSON number j (a term with exact value)."""
    U = I.U
    conj = []
    for k, cmp_ in (("minimum", lambda b: U.num_le(b, j)), ("exclusiveMinimum", lambda b: U.num_lt(b, j)),
                    ("maximum", lambda b: U.num_le(j, b)), ("exclusiveMaximum", lambda b: U.num_lt(j, b))):
        if k in d:
            conj.append(cmp_(I.term(d[k])))
    return z3.And(conj) if conj else z3.BoolVal(True)


def wellformed_clauses(I, st, d, name="schema"):
    out = [("%s/only-json-schema-keywords" % name, z3.BoolVal(all(k in KEYWORDS for k in d)))]
    if "type" in d:
        t = d["type"]
        out.append(("%s/type-is-a-json-type" % name, z3.BoolVal(isinstance(t, Conc) and t.py in JSON_TYPES)))
    return out


def bounds_setup(I, st):
    U = I.U
    b = Sym(U.fresh("bounds"))
    inc = Sym(U.fresh("inclusive_bounds"))
    st.pc += [wf_bounds(I, b.t, bound_ok_num), wf_incl(I, inc.t)]
    return b, inc


def declare_numeric_bounds_contract():
    def setup(I, st):
        b, inc = bounds_setup(I, st)
        schema = I.alloc_dict(st)
        I.dict_store(st, schema, Conc("type"), Conc("number"))
        cls = ClsV("JSONSerialization")
        found = I.src.find_method("JSONSerialization", "declare_numeric_bounds")
        c, m, fd = found
        fv = FuncV("repo", module=m, cls=c, node=fd, self=cls, qual="JSONSerialization.declare_numeric_bounds")
        j = Sym(I.U.fresh("j"))
        st.pc += [I.U.isnum(j.t), vm.kind(j.t) == vm.FINITE]
        return fv, [schema, b, inc], {}, {"b": b.t, "inc": inc.t, "j": j.t, "schema": schema,
                                           "symbols": {"bounds": b.t, "inclusive_bounds": inc.t, "j": j.t}}

    def post(I, info, st, oc):
        if isinstance(oc, Raise):
            return [("does-not-raise", z3.BoolVal(False))]
        d = schema_dict(I, st, oc)
        if d is None:
            return [("returns-a-schema-object", z3.BoolVal(False))]
        out = wellformed_clauses(I, st, d)
        out.append(("accepts(schema, j) <=> j inside hard bounds (all numbers j)",
                    accepts_number(I, d, info["j"]) == inside(I, info["b"], info["inc"], info["j"], I.U.num_le, I.U.num_lt)))
        out.append(("type-kept", z3.BoolVal(isinstance(d.get("type"), Conc) and d["type"].py == "number")))
        return out
    return FunctionContract("%s:JSONSerialization.declare_numeric_bounds" % MOD, PROP, setup, post,
                            concretise=bounds_concretiser("Number"), name="JSONSerialization.declare_numeric_bounds")


def bounds_concretiser(cls):
    from pyvc import concretise as cz

    def concretise(model, info, name, I, q):
        U = I.U
        b = cz.py_expr(model, info["b"], U=U)
        inc = cz.py_expr(model, info["inc"], U=U)
        j = cz.py_expr(model, info["j"], U=U)
        witness = "type=%s bounds=%s inclusive_bounds=%s number=%s" % (cls, b, inc, j)
        script = cz.PRELUDE + '''
# replay under python3-vt (needs jsonschema)
import json, jsonschema
class P(param.Parameterized):
    x = param.%s(default=None, allow_None=True, bounds=%s, inclusive_bounds=%s)
schema = P.param.schema()['x']
num = %s
lo, hi = %s
il, ih = %s
inside = (lo is None or (num >= lo if il else num > lo)) and (hi is None or (num <= hi if ih else num < hi))
try:
    jsonschema.Draft7Validator(schema).validate(json.loads(json.dumps(num)))
    ok = True
except jsonschema.ValidationError:
    ok = False
print('schema', schema, 'number', num, 'inside bounds:', inside, 'accepted by schema:', ok)
if ok != inside:
    print('REPRODUCED: C16 schema verdict differs from the declared hard bounds'); sys.exit(1)
print('NOT-REPRODUCED'); sys.exit(0)
''' % (cls, b, inc, j, b if b != "None" else "(None, None)", inc)
        return {"script": script, "witness": witness}
    return concretise


def param_with(I, st, cls, slots):
    p, T = S.param_obj(I, st, cls, slots, label="p")
    return p, T


def number_schema_contract(cls, want_type):
    def setup(I, st):
        b, inc = bounds_setup(I, st)
        p, T = param_with(I, st, cls, {"bounds": b, "inclusive_bounds": inc})
        found = I.src.find_method("JSONSerialization", "%s_schema" % want_type)
        c, m, fd = found
        fv = FuncV("repo", module=m, cls=c, node=fd, self=ClsV("JSONSerialization"),
                   qual="JSONSerialization.%s_schema" % want_type)
        j = Sym(I.U.fresh("j"))
        st.pc += [I.U.isnum(j.t), vm.kind(j.t) == vm.FINITE]
        return fv, [p], {}, {"b": b.t, "inc": inc.t, "j": j.t, "symbols": {"bounds": b.t, "inclusive_bounds": inc.t, "j": j.t}}

    def post(I, info, st, oc):
        if isinstance(oc, Raise):
            return [("does-not-raise", z3.BoolVal(False))]
        d = schema_dict(I, st, oc)
        if d is None:
            return [("returns-a-schema-object", z3.BoolVal(False))]
        out = wellformed_clauses(I, st, d)
        out.append(("type == %r" % want_type, z3.BoolVal(isinstance(d.get("type"), Conc) and d["type"].py == want_type)))
        out.append(("accepts(schema, j) <=> j inside hard bounds (all numbers j)",
                    accepts_number(I, d, info["j"]) == inside(I, info["b"], info["inc"], info["j"], I.U.num_le, I.U.num_lt)))
        return out
    return FunctionContract("%s:JSONSerialization.%s_schema" % (MOD, want_type), PROP, setup, post,
                            concretise=bounds_concretiser(cls), name="JSONSerialization.%s_schema[%s]" % (want_type, cls))


def tuple_schema_contract(kind):
    """kind: tuple | numerictuple | xycoordinates | range"""
    cls = {"tuple": "Tuple", "numerictuple": "NumericTuple", "xycoordinates": "XYCoordinates", "range": "Range"}[kind]

    def setup(I, st):
        U = I.U
        length = Sym(U.fresh("length"))
        st.pc.append(z3.Or(length.t == U.NONE, z3.And(vm.ty(length.t) == vm.TAG["int"], vm.rv(length.t) >= 0)))
        slots = {"length": length}
        info = {"length": length, "symbols": {"length": length.t}}
        if kind == "range":
            b, inc = bounds_setup(I, st)
            slots.update({"bounds": b, "inclusive_bounds": inc})
            j = Sym(U.fresh("j"))
            st.pc += [U.isnum(j.t), vm.kind(j.t) == vm.FINITE]
            info.update({"b": b.t, "inc": inc.t, "j": j.t})
        p, T = param_with(I, st, cls, slots)
        c, m, fd = I.src.find_method("JSONSerialization", "%s_schema" % kind)
        fv = FuncV("repo", module=m, cls=c, node=fd, self=ClsV("JSONSerialization"), qual="JSONSerialization.%s_schema" % kind)
        return fv, [p], {}, info

    def post(I, info, st, oc):
        U = I.U
        if isinstance(oc, Raise):
            return [("does-not-raise", z3.BoolVal(False))]
        d = schema_dict(I, st, oc)
        if d is None:
            return [("returns-a-schema-object", z3.BoolVal(False))]
        out = wellformed_clauses(I, st, d)
        L = info["length"].t
        out.append(("type == 'array'", z3.BoolVal(isinstance(d.get("type"), Conc) and d["type"].py == "array")))
        has = "minItems" in d and "maxItems" in d
        none = "minItems" not in d and "maxItems" not in d
        out.append(("length declared <=> minItems and maxItems present", z3.And(z3.Implies(L != U.NONE, z3.BoolVal(has)),
                                                                                  z3.Implies(L == U.NONE, z3.BoolVal(none)))))
        if has:
            out.append(("minItems == maxItems == length", z3.And(I.term(d["minItems"]) == L, I.term(d["maxItems"]) == L)))
        if kind != "tuple":
            item = schema_dict(I, st, d.get("additionalItems")) if "additionalItems" in d else None
            out.append(("item schema is a number schema", z3.BoolVal(item is not None and isinstance(item.get("type"), Conc)
                                                                       and item["type"].py == "number")))
            if item is not None:
                out += wellformed_clauses(I, st, item, "item-schema")
                if kind == "range":
                    out.append(("item bounds: accepts(item, j) <=> j inside hard bounds",
                                accepts_number(I, item, info["j"]) == inside(I, info["b"], info["inc"], info["j"], U.num_le, U.num_lt)))
                else:
                    out.append(("item schema unbounded", accepts_number(I, item, U.lit(0))))
        return out
    return FunctionContract("%s:JSONSerialization.%s_schema" % (MOD, kind), PROP, setup, post,
                            name="JSONSerialization.%s_schema" % kind)


def fixed_schema_contract(kind, cls, want):
    def setup(I, st):
        p, T = param_with(I, st, cls, {})
        c, m, fd = I.src.find_method("JSONSerialization", "%s_schema" % kind)
        fv = FuncV("repo", module=m, cls=c, node=fd, self=ClsV("JSONSerialization"), qual="JSONSerialization.%s_schema" % kind)
        return fv, [p], {}, {"symbols": {}}

    def post(I, info, st, oc):
        if isinstance(oc, Raise):
            return [("does-not-raise", z3.BoolVal(False))]
        d = schema_dict(I, st, oc)
        if d is None:
            return [("returns-a-schema-object", z3.BoolVal(False))]
        got = {k: (v.py if isinstance(v, Conc) else None) for k, v in d.items()}
        return wellformed_clauses(I, st, d) + [("schema == %r" % (want,), z3.BoolVal(got == want))]
    return FunctionContract("%s:JSONSerialization.%s_schema" % (MOD, kind), PROP, setup, post,
                            name="JSONSerialization.%s_schema" % kind)


def nullable_contract():
    def setup(I, st):
        inner = I.alloc_dict(st)
        I.dict_store(st, inner, Conc("type"), Conc("number"))
        m = I.src.modules[MOD]
        fd = m.functions["JSONNullable"]
        fv = FuncV("repo", module=m, cls=None, node=fd, self=None, qual="JSONNullable")
        return fv, [inner], {}, {"inner": inner, "symbols": {}}

    def post(I, info, st, oc):
        if isinstance(oc, Raise):
            return [("does-not-raise", z3.BoolVal(False))]
        d = schema_dict(I, st, oc)
        ok = False
        if d is not None and list(d) == ["anyOf"]:
            alts = I.known_items(st, d["anyOf"])
            if alts is not None and len(alts) == 2 and alts[0] == info["inner"]:
                n = schema_dict(I, st, alts[1])
                ok = n is not None and list(n) == ["type"] and isinstance(n["type"], Conc) and n["type"].py == "null"
        return [("nullable == anyOf[schema, {'type': 'null'}]", z3.BoolVal(ok))]
    return FunctionContract("%s:JSONNullable" % MOD, PROP, setup, post, name="JSONNullable")


def param_schema_contract(ptype, cls, inner_name):
    """param_schema dispatches to <ptype.lower()>_schema and wraps in JSONNullable iff allow_None."""
    def configure(I):
        def inner(I, st, fv, args, kwargs, ctx):
            r = I.alloc_dict(st)
            I.dict_store(st, r, Conc("type"), Conc("X-" + inner_name))
            st.ghost["dispatched"] = st.ghost.get("dispatched", []) + [inner_name]
            return [(st, r)]
        I.contracts["JSONSerialization.%s" % inner_name] = inner

    def setup(I, st):
        aN = Sym(I.U.fresh("allow_None"))
        st.pc.append(S.is_bool(I, aN.t))
        p, T = param_with(I, st, cls, {"allow_None": aN})
        c, m, fd = I.src.find_method("JSONSerialization", "param_schema")
        fv = FuncV("repo", module=m, cls=c, node=fd, self=ClsV("JSONSerialization"), qual="JSONSerialization.param_schema")
        return fv, [Conc(ptype), p], {}, {"aN": aN.t, "symbols": {"allow_None": aN.t}}

    def post(I, info, st, oc):
        U = I.U
        if isinstance(oc, Raise):
            return [("does-not-raise", z3.BoolVal(False))]
        d = schema_dict(I, st, oc)
        out = [("dispatches-to-%s" % inner_name, z3.BoolVal(st.ghost.get("dispatched") == [inner_name]))]
        if d is None:
            return out + [("returns-a-schema-object", z3.BoolVal(False))]
        wrapped = list(d) == ["anyOf"]
        out.append(("allow_None <=> nullable wrapper", z3.And(z3.Implies(info["aN"] == U.TRUE, z3.BoolVal(wrapped)),
                                                            z3.Implies(info["aN"] == U.FALSE, z3.BoolVal(not wrapped)))))
        if wrapped:
            alts = I.known_items(st, d["anyOf"])
            ok = False
            if alts is not None and len(alts) == 2:
                a0, a1 = schema_dict(I, st, alts[0]), schema_dict(I, st, alts[1])
                ok = (a0 is not None and isinstance(a0.get("type"), Conc) and a0["type"].py == "X-" + inner_name
                      and a1 is not None and isinstance(a1.get("type"), Conc) and a1["type"].py == "null")
            out.append(("wrapper == anyOf[dispatched schema, null]", z3.BoolVal(ok)))
        return out
    return FunctionContract("%s:JSONSerialization.param_schema" % MOD, PROP, setup, post, configure=configure,
                            name="JSONSerialization.param_schema[%s]" % ptype)

LITERAL = {"int": "integer", "float": "number", "str": "string", "NoneType": "null"}


def literal_objects(I, st, n):
    """n arbitrary JSON literals (int, float, str or None — the key types of json_schema_literal_types)."""
    U = I.U
    objs = []
    for k in range(n):
        o = Sym(U.fresh("obj%d" % k))
        st.pc.append(z3.Or(vm.ty(o.t) == vm.TAG["int"], vm.ty(o.t) == vm.TAG["float"], vm.ty(o.t) == vm.TAG["str"],
                           o.t == U.NONE))
        objs.append(o)
    return objs


def type_name_matches(I, tv, o):
    """tv: the Val stored under 'type' in an anyOf alternative; o: the object it was generated for."""
    U = I.U
    t = I.term(tv)
    return z3.And(z3.Implies(vm.ty(o.t) == vm.TAG["int"], t == U.lit("integer")),
                  z3.Implies(vm.ty(o.t) == vm.TAG["float"], t == U.lit("number")),
                  z3.Implies(vm.ty(o.t) == vm.TAG["str"], t == U.lit("string")),
                  z3.Implies(o.t == U.NONE, t == U.lit("null")))


def selector_schema_contract(kind, cls, n):
    """<kind>_schema on a Selector whose `objects` are n arbitrary JSON literals: the schema is
    {'anyOf': [one {'type': T} per listed object, T the JSON type of that object], 'enum': the objects}
    — so every listed object (the only values the validator admits) is accepted by it."""
    def setup(I, st):
        objs = literal_objects(I, st, n)
        lst = I.make_list(st, list(objs))
        p, T = param_with(I, st, cls, {"_objects": lst, "names": Conc(None)})
        c, m, fd = I.src.find_method("JSONSerialization", "%s_schema" % kind)
        fv = FuncV("repo", module=m, cls=c, node=fd, self=ClsV("JSONSerialization"), qual="JSONSerialization.%s_schema" % kind)
        return fv, [p], {}, {"objs": objs, "lst": lst, "symbols": {("obj%d" % k): o.t for k, o in enumerate(objs)}}

    def post(I, info, st, oc):
        if isinstance(oc, Raise):
            return [("does-not-raise", z3.BoolVal(False))]
        d = schema_dict(I, st, oc)
        if d is None:
            return [("returns-a-schema-object", z3.BoolVal(False))]
        out = wellformed_clauses(I, st, d)
        out.append(("schema has exactly anyOf and enum", z3.BoolVal(sorted(d) == ["anyOf", "enum"])))
        if sorted(d) != ["anyOf", "enum"]:
            return out
        en = I.known_items(st, d["enum"])
        out.append(("enum lists exactly the objects, in order",
                    z3.BoolVal(en is not None and len(en) == n) if en is None or len(en) != n else
                    z3.And([I.term(a) == o.t for a, o in zip(en, info["objs"])] + [z3.BoolVal(True)])))
        alts = I.known_items(st, d["anyOf"])
        if alts is None or len(alts) != n:
            out.append(("anyOf has one alternative per object", z3.BoolVal(False)))
            return out
        for k, (a, o) in enumerate(zip(alts, info["objs"])):
            ad = schema_dict(I, st, a)
            if ad is None or list(ad) != ["type"]:
                out.append(("anyOf[%d] == {'type': T}" % k, z3.BoolVal(False)))
            else:
                out.append(("anyOf[%d].type is the JSON type of objects[%d]" % (k, k), type_name_matches(I, ad["type"], o)))
        return out
    return FunctionContract("%s:JSONSerialization.%s_schema" % (MOD, kind), PROP, setup, post,
                            name="JSONSerialization.%s_schema[%d objects]" % (kind, n))


def listselector_schema_contract(n):
    """listselector_schema with n JSON-literal objects: {'type': 'array', 'items': {'enum': the objects}};
    with objects None: {'type': 'array'}."""
    def setup(I, st):
        if n is None:
            lst, objs = Conc(None), []
        else:
            objs = literal_objects(I, st, n)
            lst = I.make_list(st, list(objs))
        p, T = param_with(I, st, "ListSelector", {"_objects": lst, "names": Conc(None)})
        c, m, fd = I.src.find_method("JSONSerialization", "listselector_schema")
        fv = FuncV("repo", module=m, cls=c, node=fd, self=ClsV("JSONSerialization"), qual="JSONSerialization.listselector_schema")
        return fv, [p], {}, {"objs": objs, "symbols": {("obj%d" % k): o.t for k, o in enumerate(objs)}}

    def post(I, info, st, oc):
        if isinstance(oc, Raise):
            return [("does-not-raise", z3.BoolVal(False))]
        d = schema_dict(I, st, oc)
        if d is None:
            return [("returns-a-schema-object", z3.BoolVal(False))]
        out = wellformed_clauses(I, st, d)
        out.append(("type == 'array'", z3.BoolVal(isinstance(d.get("type"), Conc) and d["type"].py == "array")))
        if n is None:
            out.append(("no item constraint without declared objects", z3.BoolVal(sorted(d) == ["type"])))
            return out
        item = schema_dict(I, st, d.get("items")) if "items" in d else None
        out.append(("items == {'enum': ...}", z3.BoolVal(item is not None and list(item) == ["enum"] and sorted(d) == ["items", "type"])))
        if item is not None and "enum" in item:
            en = I.known_items(st, item["enum"])
            out.append(("items.enum lists exactly the objects, in order",
                        z3.BoolVal(False) if en is None or len(en) != n else
                        z3.And([I.term(a) == o.t for a, o in zip(en, info["objs"])] + [z3.BoolVal(True)])))
        return out
    return FunctionContract("%s:JSONSerialization.listselector_schema" % MOD, PROP, setup, post,
                            name="JSONSerialization.listselector_schema[%s objects]" % ("no" if n is None else n))


def list_schema_contract(case):
    """list_schema: 'plain' (no item class) -> {'type': 'array'}; 'safe-plain' -> refuses with
    UnsafeserializableException; 'int'/'float'/'str' item class -> items == {'type': T}."""
    def setup(I, st):
        it = Conc(None) if case in ("plain", "safe-plain") else ClsV(case)
        p, T = param_with(I, st, "List", {"class_": it, "item_type": it})
        c, m, fd = I.src.find_method("JSONSerialization", "list_schema")
        fv = FuncV("repo", module=m, cls=c, node=fd, self=ClsV("JSONSerialization"), qual="JSONSerialization.list_schema")
        return fv, [p], ({"safe": Conc(True)} if case == "safe-plain" else {}), {"symbols": {}}

    def post(I, info, st, oc):
        if case == "safe-plain":
            return [("refuses with UnsafeserializableException",
                     z3.BoolVal(isinstance(oc, Raise) and oc.cls == "UnsafeserializableException"))]
        if isinstance(oc, Raise):
            return [("does-not-raise", z3.BoolVal(False))]
        d = schema_dict(I, st, oc)
        if d is None:
            return [("returns-a-schema-object", z3.BoolVal(False))]
        out = wellformed_clauses(I, st, d)
        out.append(("type == 'array'", z3.BoolVal(isinstance(d.get("type"), Conc) and d["type"].py == "array")))
        if case == "plain":
            out.append(("no item constraint without an item class", z3.BoolVal(sorted(d) == ["type"])))
        else:
            item = schema_dict(I, st, d.get("items")) if "items" in d else None
            if item is None or list(item) != ["type"]:
                out.append(("items == {'type': %r}" % LITERAL[case], z3.BoolVal(False)))
            else:
                out.append(("items == {'type': %r}" % LITERAL[case], I.term(item["type"]) == I.U.lit(LITERAL[case])))
        return out
    return FunctionContract("%s:JSONSerialization.list_schema" % MOD, PROP, setup, post,
                            name="JSONSerialization.list_schema[%s]" % case)


def contracts():
    C = [declare_numeric_bounds_contract(),
         number_schema_contract("Number", "number"),
         number_schema_contract("Integer", "integer"),
         tuple_schema_contract("tuple"), tuple_schema_contract("numerictuple"), tuple_schema_contract("xycoordinates"),
         tuple_schema_contract("range"),
         fixed_schema_contract("date", "Date", {"type": "string", "format": "date-time"}),
         fixed_schema_contract("calendardate", "CalendarDate", {"type": "string", "format": "date"}),
         fixed_schema_contract("dict", "Dict", {"type": "object"}),
         nullable_contract()]
    for n in (0, 1, 2, 3):
        C.append(selector_schema_contract("selector", "Selector", n))
    C.append(selector_schema_contract("objectselector", "ObjectSelector", 2))
    for n in (0, 2):
        C.append(listselector_schema_contract(n))
    for case in ("plain", "safe-plain", "int", "float", "str"):
        C.append(list_schema_contract(case))
    for ptype, cls, inner in [("Number", "Number", "number_schema"), ("Integer", "Integer", "integer_schema"),
                              ("Tuple", "Tuple", "tuple_schema"), ("Range", "Range", "range_schema"),
                              ("Date", "Date", "date_schema"), ("List", "List", "list_schema"),
                              ("Selector", "Selector", "selector_schema"), ("ListSelector", "ListSelector", "listselector_schema"),
                              ("ClassSelector", "ClassSelector", "classselector_schema"), ("Dict", "Dict", "dict_schema")]:
        C.append(param_schema_contract(ptype, cls, inner))
    return C


ASSUMPTIONS = [
    "A-JSONSCHEMA: `accepts` is the draft-07 meaning of minimum/maximum/exclusiveMinimum/exclusiveMaximum/type/minItems/maxItems (cross-validated against the installed jsonschema validator in the bounded layer)",
    "selector/objectselector/listselector schemas are proved for 0..3 arbitrary JSON-literal objects (int, float, str, None; bounded in the NUMBER of objects only), list_schema for no item class and for the literal item classes; class__schema over tuples of classes and Parameterized item classes (recursion into another class's schema), classselector_schema, array/dataframe schemas and the object-level loop of schema() are covered by the bounded layer only",
]


# what is validated against the schema is the SERIALIZED state: for numbers (also NaN and the
# infinities, which json writes as bare tokens) the serialized form is the number itself — never null,
# which a non-nullable number schema refuses (the hooks are verified for C15)
_c16_base_ser = contracts


def contracts():
    from contracts import c15 as _c15
    extra = []
    for c in _c15.contracts():
        if c.name in ("Number.serialize/deserialize[float]", "Number.serialize/deserialize[int]",
                      "Integer.serialize/deserialize[int]", "String.serialize/deserialize[str]",
                      "Boolean.serialize/deserialize[bool]"):
            c.prop = PROP
            c.clause_prefixes = ["serialized form is JSON-native", "round-trip does not raise"]
            extra.append(c)
    return _c16_base_ser() + extra


# ---------------------------------------------------------------------------------------------
# concrete probe: text-valued parameters.  The validators of String (re.match: a match at the START of
# the value) and Color, and the serialized NaN / infinities of Number, against whatever the schema says
# — also for a schema builder that does not exist yet on this tree
# ---------------------------------------------------------------------------------------------
TEXT_SCHEMA_REPLAY = '''import sys, os, re, json, itertools
sys.path.insert(0, os.environ.get('PYVC_REPO', '/repo'))
import param
bad = []
def accepts(schema, v):
    """draft-07 meaning of the keywords param emits for scalars (unknown keywords constrain nothing)"""
    if 'anyOf' in schema:
        return any(accepts(s, v) for s in schema['anyOf'])
    t = schema.get('type')
    ok = {None: True, 'string': isinstance(v, str), 'null': v is None, 'boolean': isinstance(v, bool),
          'number': isinstance(v, (int, float)) and not isinstance(v, bool),
          'integer': isinstance(v, int) and not isinstance(v, bool), 'array': isinstance(v, list),
          'object': isinstance(v, dict)}.get(t, True)
    if not ok:
        return False
    if isinstance(v, str):
        if 'pattern' in schema and re.search(schema['pattern'], v) is None:
            return False
        if 'minLength' in schema and len(v) < schema['minLength']:
            return False
        if 'maxLength' in schema and len(v) > schema['maxLength']:
            return False
    if 'enum' in schema and v not in schema['enum']:
        return False
    if isinstance(v, (int, float)) and not isinstance(v, bool) and v == v:
        if 'minimum' in schema and not v >= schema['minimum']: return False
        if 'maximum' in schema and not v <= schema['maximum']: return False
        if 'exclusiveMinimum' in schema and not v > schema['exclusiveMinimum']: return False
        if 'exclusiveMaximum' in schema and not v < schema['exclusiveMaximum']: return False
    return True
STRINGS = [(None, ['', 'x', 'RUN-17']), ('[A-Z]+', ['RUN', 'RUN-17', 'Ab']), ('ms|s', ['s', 'ms', 'sec', 'msec']),
           ('^a', ['a', 'ab']), ('a$', ['a']), ('(ab)*', ['', 'abab', 'abx', 'x']), ('[0-9]{2}', ['12', '123x']), ('.', ['xy'])]
for (rx, vals), aN in itertools.product(STRINGS, (False, True)):
    for v in vals + ([None] if aN else []):
        class S(param.Parameterized):
            s = param.String(default=v, regex=rx, allow_None=aN)
        o = S()
        for holder, how in ((S, 'class'), (o, 'instance')):
            sv = json.loads(holder.param.serialize_parameters(subset=['s']))['s']
            schema = holder.param.schema(subset=['s'])['s']
            if not accepts(schema, sv):
                bad.append('String(regex=%r, allow_None=%r) holding %r (%s): serialized %r is refused by its schema %r' % (rx, aN, v, how, sv, schema))
for v, kw in itertools.product([float('inf'), float('-inf'), float('nan'), 0.5, 3], ({}, {'bounds': (0, None)}, {'bounds': (None, 10)}, {'allow_None': True})):
    if kw.get('bounds') == (0, None) and (v != v or v < 0): continue
    if kw.get('bounds') == (None, 10) and (v != v or v > 10): continue
    class N(param.Parameterized):
        n = param.Number(default=v, **kw)
    sv = json.loads(N.param.serialize_parameters(subset=['n']))['n']
    schema = N.param.schema(subset=['n'])['n']
    if not accepts(schema, sv):
        bad.append('Number(%s) holding %r: serialized %r is refused by its schema %r' % (kw, v, sv, schema))
for v in ('#fff', '#A1B2C3', 'abcdef', 'red'):
    class C(param.Parameterized):
        c = param.Color(default=v)
    sv = json.loads(C.param.serialize_parameters(subset=['c']))['c']
    schema = C.param.schema(subset=['c'])['c']
    if not accepts(schema, sv):
        bad.append('Color holding %r: serialized %r is refused by its schema %r' % (v, sv, schema))
if bad:
    print('REPRODUCED: ' + bad[0]); sys.exit(1)
print('NOT-REPRODUCED'); sys.exit(0)
'''

PROBES = globals().get("PROBES", []) + [("text-valued parameters and non-finite numbers: the serialized value is accepted by the schema", TEXT_SCHEMA_REPLAY)]
