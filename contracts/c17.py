"""C17 — copies and pickles are faithful and independent.

Deductive part: the state capture/restore pairs that `copy.deepcopy` and `pickle` drive
(A-DEEPCOPY/A-PICKLE: both rebuild the object from `__getstate__` / `__setstate__`):
`Parameter.__getstate__` captures every slot and `Parameter.__setstate__` restores exactly the
captured slots; `_InstancePrivate.__getstate__/__setstate__` likewise for the per-instance private
namespace (values, watchers, refs, per-instance Parameters, initialized, ...).  The re-binding of
watchers in `Parameterized.__setstate__` and end-to-end independence are covered by the bounded
layer only."""
import z3

from pyvc import spec as S
from pyvc import values as vm
from pyvc.engine import Raise
from pyvc.values import BoolV, ClsV, Conc, FuncV, Ref, Sym, TupV
from pyvc.verify import FunctionContract

PROP = "C17"
MOD = "param.parameterized"
PSLOTS = ["name", "default", "doc", "precedence", "instantiate", "constant", "readonly", "pickle_default_value",
          "allow_None", "per_instance", "watchers", "owner", "allow_refs", "nested_refs", "_label"]


def slots_hook(slots):
    def attr_hook(I, st, ov, attr, ctx):
        if attr == "_all_slots_" and isinstance(ov, ClsV):
            return [(st, TupV([Conc(s) for s in slots]))]
        return None
    return attr_hook


IDLE_REPLAY = '''import sys, os, copy, pickle, itertools
sys.path.insert(0, os.environ.get('PYVC_REPO', '/repo'))
import __main__
import param
bad = []
SNAP = []
MAKE = [None]
class Model(param.Parameterized):
    x = param.Number(default=0)
    y = param.Number(default=0)
    z = param.Number(default=0)
    log = param.List(default=[])
    def __init__(self, queued=True, snap_precedence=1, **params):
        super().__init__(**params)
        self.param.watch(self._derive_y, 'x', queued=queued, precedence=1)
        self.param.watch(self._snap, 'x', precedence=snap_precedence)
        self.param.watch(self._on, ['y', 'z'])
    def _derive_y(self, event):
        self.y = event.new * 10
    def _snap(self, event):
        if MAKE[0] is not None:
            SNAP.append(MAKE[0](self))
    def _on(self, *events):
        self.log.extend((e.name, e.old, e.new) for e in events)
__main__.Model = Model
def dispatch_state(o):
    p = o.param
    return (p._BATCH_WATCH, p._TRIGGER, list(p._events), list(p._state_watchers))
makers = [('deepcopy', copy.deepcopy)] + [('pickle%d' % k, (lambda k: lambda o: pickle.loads(pickle.dumps(o, k)))(k)) for k in (2, pickle.HIGHEST_PROTOCOL)]
for (how, make), queued, prec, where in itertools.product(makers, (True, False), (0, 2), ('watcher', 'batch', 'update', 'discard', 'plain')):
    del SNAP[:]
    m = Model(queued=queued, snap_precedence=prec)
    label = '%s queued=%s snapshot-precedence=%d taken-in=%s' % (how, queued, prec, where)
    try:
        if where == 'watcher':
            MAKE[0] = make; m.x = 1; MAKE[0] = None
        elif where == 'batch':
            with param.parameterized.batch_call_watchers(m):
                m.x = 1; SNAP.append(make(m))
        elif where == 'update':
            with m.param.update(x=1):
                SNAP.append(make(m))
        elif where == 'discard':
            with param.parameterized.discard_events(m):
                m.x = 1; SNAP.append(make(m))
        else:
            m.x = 1; SNAP.append(make(m))
    finally:
        MAKE[0] = None
    for snap in SNAP:
        st = dispatch_state(snap)
        if st != (False, False, [], []):
            bad.append('%s: the copy starts with dispatch state BATCH_WATCH=%r TRIGGER=%r %d queued events %d queued watchers'
                       % (label, st[0], st[1], len(st[2]), len(st[3])))
            continue
        before = list(snap.log)
        snap.z = 3
        new = snap.log[len(before):]
        if new != [('z', 0, 3)]:
            bad.append('%s: after the copy is assigned z=3 its watcher saw %r (only the z change happened to the copy)' % (label, new))
if bad:
    print('REPRODUCED: ' + bad[0]); sys.exit(1)
print('NOT-REPRODUCED'); sys.exit(0)
'''


def roundtrip_contract(cls, slots, use_hook, name):
    def configure(I):
        if use_hook:
            I.attr_hook = slots_hook(slots)

    def setup(I, st):
        fields = {s: None for s in slots}
        if cls == "_InstancePrivate" and "parameters_state" in fields:
            # the original may be in the middle of ANY operation: arbitrary flags, arbitrary queues
            ps = I.alloc_dict(st)
            for k_ in ("BATCH_WATCH", "TRIGGER"):
                b = I.U.fresh("state_" + k_)
                st.pc.append(S.is_bool(I, b))
                I.dict_store(st, ps, Conc(k_), Sym(b))
            I.dict_store(st, ps, Conc("events"), I.alloc_list(st, I.U.fresh_seq("queued_events")))
            I.dict_store(st, ps, Conc("watchers"), I.alloc_list(st, I.U.fresh_seq("queued_watchers")))
            fields["parameters_state"] = ps
        src, T = S.param_obj(I, st, cls, fields, label="original", lazy=False)
        dst = I.alloc_obj(st, cls, lazy=False, label="copy")      # created without __init__ (A-PICKLE)
        return {"src": src, "dst": dst, "T": T, "symbols": {}}

    def runner(I, st, info, ctx):
        gs = I.src.find_method(cls, "__getstate__")
        ss = I.src.find_method(cls, "__setstate__")
        out = []
        for (q, state) in I.call(I.bound_method(info["src"], gs), [], {}, st, ctx):
            if isinstance(state, Raise):
                out.append((q, state))
                continue
            q.ghost["state"] = state
            for (r, v) in I.call(I.bound_method(info["dst"], ss), [state], {}, q, ctx):
                out.append((r, v))
        return out

    def post(I, info, st, oc):
        if isinstance(oc, Raise):
            return [("getstate/setstate do not raise", z3.BoolVal(False))]
        state = st.ghost.get("state")
        d = I.known_dict(st, state) if isinstance(state, Ref) else None
        out = [("__getstate__ captures exactly the slots", z3.BoolVal(d is not None and sorted(d) == sorted(slots)))]
        f = st.heap[info["dst"].oid].fields
        for s_ in slots:
            if s_ == "parameters_state" and cls == "_InstancePrivate":
                # the dispatch state (open batch, trigger in progress, queued events and watchers) belongs
                # to the operation in progress on the original: the copy starts idle
                v = f.get(s_)
                idle = False
                if isinstance(v, Ref) and st.heap[v.oid].kind == "dict":
                    kd = I.known_dict(st, v)
                    if kd is not None and sorted(kd) == ["BATCH_WATCH", "TRIGGER", "events", "watchers"]:
                        ev_, ws_ = kd["events"], kd["watchers"]
                        idle = (isinstance(kd["BATCH_WATCH"], Conc) and kd["BATCH_WATCH"].py is False
                                and isinstance(kd["TRIGGER"], Conc) and kd["TRIGGER"].py is False
                                and I.known_items(st, ev_) == [] and I.known_items(st, ws_) == [])
                out.append(("the copy starts with an idle dispatch state (no open batch, no trigger, nothing queued)", z3.BoolVal(bool(idle))))
                continue
            out.append(("slot %s restored on the copy" % s_,
                        I.term(f[s_]) == info["T"][s_] if s_ in f else z3.BoolVal(False)))
        out.append(("the original is not modified", S.heap_unchanged(I, st, info["src"])))
        return out
    c = FunctionContract("%s:%s.__setstate__" % (MOD, cls), PROP, setup, post, configure=configure, name=name)
    c.runner = runner
    if cls == "_InstancePrivate":
        c.static_replay = IDLE_REPLAY
        c.static_witness = "a copy taken while the original is in the middle of a dispatch (inside a watcher, a batch, an update or discard_events)"
    return c


def contracts():
    import ast
    from pyvc import source
    src = source.Sources()
    m = src.modules[MOD]
    islots = ast.literal_eval(m.class_attr("_InstancePrivate", "__slots__"))
    return [roundtrip_contract("Parameter", PSLOTS, True, "Parameter.__getstate__/__setstate__"),
            roundtrip_contract("_InstancePrivate", islots, False, "_InstancePrivate.__getstate__/__setstate__")]


ASSUMPTIONS = [
    "A-DEEPCOPY / A-PICKLE: deepcopy and pickle rebuild an object created without __init__ from __getstate__/__setstate__, preserving aliasing and sharing only immutables",
    "the slot list of Parameter (_all_slots_, computed by the metaclass at run time) is supplied by the contract; subclasses add their own slots through the same comprehension",
]


# ---------------------------------------------------------------------------------------------
# Block contract: the tail of Parameterized.__setstate__ (everything saved is restored)
# ---------------------------------------------------------------------------------------------
SETSTATE_REPLAY = '''import sys, os, copy, pickle
sys.path.insert(0, os.environ.get('PYVC_REPO', '/repo'))
import param
bad = []
NAMES = ['initialized', '_param_watchers', '_dynamic_watchers', '_instance__params', '_parameters_state', 'values', 'refs',
         'watchers', 'note', '_private_note', 'params']
class P(param.Parameterized):
    x = param.Number(1)
    def __init__(self, **kw):
        super().__init__(**kw)
        for i, n in enumerate(NAMES):
            self.__dict__[n] = ['attr', i]
import __main__
__main__.P = P
p = P(x=2)
copies = [('deepcopy', copy.deepcopy(p))] + [('pickle protocol %d' % k, pickle.loads(pickle.dumps(p, k))) for k in range(pickle.HIGHEST_PROTOCOL + 1)]
for how, q in copies:
    for i, n in enumerate(NAMES):
        if q.__dict__.get(n) != ['attr', i]:
            bad.append('%s: ordinary attribute %r is %r on the copy' % (how, n, q.__dict__.get(n, '<missing>')))
    if q.x != 2:
        bad.append('%s: x == %r on the copy' % (how, q.x))
# ordinary attributes kept in __slots__, also when they currently hold None
class Slotted(param.Parameterized):
    __slots__ = ['cache', 'flag', 'never']
    x = param.Number(1)
    def __init__(self, **kw):
        super().__init__(**kw)
        self.cache = None
        self.flag = 0
__main__.Slotted = Slotted
s_ = Slotted(x=3)
for how, q in [('deepcopy', copy.deepcopy(s_))] + [('pickle protocol %d' % k, pickle.loads(pickle.dumps(s_, k))) for k in range(pickle.HIGHEST_PROTOCOL + 1)]:
    for slot, want in (('cache', None), ('flag', 0)):
        try:
            got = getattr(q, slot)
        except AttributeError:
            bad.append('%s: slot %r (holding %r on the original) is unassigned on the copy' % (how, slot, want)); continue
        if got != want or type(got) is not type(want):
            bad.append('%s: slot %r is %r on the copy' % (how, slot, got))
    if hasattr(q, 'never'):
        bad.append('%s: a slot that was never assigned exists on the copy' % how)
# a subclass that edits the state handed out by super().__getstate__() must not edit the object
class Guarded(param.Parameterized):
    x = param.Number(1)
    def __init__(self, **kw):
        super().__init__(**kw)
        self.handle = ['not picklable in real life']
        self.note = 'keep'
    def __getstate__(self):
        state = super().__getstate__()
        del state['handle']
        state['note'] = 'saved'
        return state
__main__.Guarded = Guarded
g = Guarded(x=2)
for how, mk in [('deepcopy', lambda: copy.deepcopy(g))] + [('pickle protocol %d' % k, (lambda k=k: pickle.loads(pickle.dumps(g, k)))) for k in range(pickle.HIGHEST_PROTOCOL + 1)]:
    mk()
    if 'handle' not in g.__dict__ or g.__dict__.get('note') != 'keep':
        bad.append('%s: copying changed the ORIGINAL (handle present: %r, note: %r)' % (how, 'handle' in g.__dict__, g.__dict__.get('note')))
        g.__dict__['handle'] = ['restored']; g.__dict__['note'] = 'keep'
# every restored object is a fully constructed one: whatever the state lacks, whenever the copy was taken
def makers(o):
    return [('deepcopy', lambda: copy.deepcopy(o))] + [('pickle protocol %d' % k, (lambda k=k: pickle.loads(pickle.dumps(o, k)))) for k in (2, pickle.HIGHEST_PROTOCOL)]
def is_constructed(label, c):
    try:
        c.k = 99
        bad.append('%s: the constant parameter of the copy can be rebound (the copy is not initialized)' % label)
    except TypeError:
        pass
    try:
        c.param.watch(lambda e: None, 'x')
    except RuntimeError as e:
        bad.append('%s: watching the copy raises %r (the copy is not initialized)' % (label, e))
    before = K.param.x.bounds
    c.param.x.bounds = (0, 123)
    if K.param.x.bounds != before:
        bad.append('%s: a per-instance bounds edit on the copy changed the class Parameter' % label)
        K.param.x.bounds = before
class K(param.Parameterized):
    x = param.Number(1, bounds=(0, 10))
    k = param.Number(5, constant=True)
class Lean(K):
    def __getstate__(self):
        state = super().__getstate__()
        return {n: v for n, v in state.items() if not n.startswith('_')}      # drops param's own bookkeeping
class Early(K):
    snapshots = []
    def __init__(self, **kw):
        self.note = 'set before construction'
        self.x = 4                              # a parameter assigned before construction
        for how, mk in makers(self):
            try:
                Early.snapshots.append((how, mk()))
            except Exception as e:
                Early.snapshots.append((how, e))
        super().__init__(**kw)
__main__.K = K; __main__.Lean = Lean; __main__.Early = Early
for how, mk in makers(Lean(x=2)):
    try:
        c = mk()
    except Exception as e:
        bad.append('%s of an object whose __getstate__ drops the underscore entries raised %r' % (how, e)); continue
    is_constructed('%s of an object whose __getstate__ drops the underscore entries' % how, c)
Early(x=3)
for how, c in Early.snapshots:
    if isinstance(c, Exception):
        continue                      # refusing to copy an object under construction is fine
    is_constructed('%s taken inside __init__ before super().__init__()' % how, c)
# falsy values of per-instance Parameter attributes survive as they are
class F(param.Parameterized):
    n = param.Number(1.5, step=0.5, bounds=(0, 3))
    i = param.Integer(2, step=2)
    s = param.String('t', doc='documented')
__main__.F = F
f = F()
f.param.n.step = 0; f.param.i.step = 0; f.param.n.softbounds = (0, 0); f.param.s.doc = ''; f.param.n.precedence = 0; f.param.s.label = ''
want = {('n', 'step'): 0, ('i', 'step'): 0, ('n', 'softbounds'): (0, 0), ('s', 'doc'): '', ('n', 'precedence'): 0}
for how, mk in makers(f):
    c = mk()
    for (pn, attr), v in want.items():
        got = getattr(c.param[pn], attr)
        if got != v or type(got) is not type(v):
            bad.append('%s: per-instance %s.%s == %r on the original, %r on the copy' % (how, pn, attr, v, got))
if bad:
    print('REPRODUCED: C17 an ordinary attribute does not survive the copy:')
    for b in bad[:8]:
        print('  ', b)
    sys.exit(1)
print('NOT-REPRODUCED'); sys.exit(0)
'''


def setstate_tail_contract():
    """Tail of `Parameterized.__setstate__` (from `state.pop('param', None)` to the end) on an
    ARBITRARY state dictionary, for an arbitrary attribute name: every saved attribute other than the
    accessor entry 'param' is set on the new object with its saved value, and the object ends up
    initialized."""
    import ast as _ast
    import z3
    from pyvc import spec as S
    from pyvc import values as vm
    from pyvc.engine import OutOfReach, Raise
    from pyvc.loops import LoopSpec
    from pyvc.values import Conc, Ref, Sym
    from pyvc.verify import FunctionContract
    holder = {}
    QUAL = "Parameterized.__setstate__"

    def configure(I):
        def setattr_sym(I, st, x, n, v, ctx):
            st.ghost["set_attr"] = z3.Store(st.ghost["set_attr"], I.term(n), I.term(v))
            st.ghost["was_set"] = z3.Store(st.ghost["was_set"], I.term(n), True)
            return [(st, Conc(None))]
        I.lib["$setattr_symbolic"] = setattr_sym

    def setup(I, st):
        U = I.U
        obj = I.alloc_obj(st, "Parameterized", lazy=True, label="self")
        priv = I.alloc_obj(st, "_InstancePrivate", lazy=True, label="self._param__private")
        st.heap[obj.oid].fields["_param__private"] = priv
        state = I.alloc_dict(st, keys=U.fresh_seq("saved_names"), vals=z3.Const("saved_values", z3.ArraySort(vm.V, vm.V)))
        k = U.fresh("some_attribute")
        st.pc += [vm.ty(k) == vm.TAG["str"], k != U.lit("param")]
        holder.update({"k": k, "state": state})
        st.ghost["set_attr"] = z3.K(vm.V, U.NONE)
        st.ghost["was_set"] = z3.K(vm.V, False)
        hs = st.heap[state.oid]
        holder["keys0"], holder["vals0"] = hs.keys, hs.vals
        return {"env": {"self": obj, "state": state}, "priv": priv, "symbols": {}}

    def runner(I, st, info, ctx):
        from contracts.c05 import outcomes
        module, cname, fd = I.src.locate("%s:%s" % (MOD, QUAL))
        # everything after the re-binding of the saved watchers (`if _param__private.watchers: …`)
        idx = [i + 1 for i, x in enumerate(fd.body) if isinstance(x, _ast.If) and "_param__private.watchers" in _ast.unparse(x.test)]
        if len(idx) != 1 or idx[0] >= len(fd.body):
            raise OutOfReach("the tail after the watcher re-binding was not found in Parameterized.__setstate__")
        st.env = dict(info["env"])
        c = dict(ctx)
        c.update({"module": module, "owner": cname, "qual": QUAL, "fnode": fd, "selfname": "self"})
        return outcomes(I.exec_block(fd.body[idx[0]:], st, c))

    def inv(I, st, pre):
        k = holder["k"]
        return z3.Implies(z3.Contains(pre.seq, z3.Unit(k)),
                          z3.And(z3.Select(st.ghost["was_set"], k), z3.Select(st.ghost["set_attr"], k) == z3.Select(holder["vals0"], k)))

    def havoc(I, st):
        st.ghost["set_attr"] = z3.Const("set_attr!%d" % I.new_oid(), z3.ArraySort(vm.V, vm.V))
        st.ghost["was_set"] = z3.Const("was_set!%d" % I.new_oid(), z3.ArraySort(vm.V, z3.BoolSort()))

    def post(I, info, st, oc):
        if isinstance(oc, Raise):
            return [("does-not-raise", z3.BoolVal(False))]
        k = holder["k"]
        saved = z3.Contains(holder["keys0"], z3.Unit(k))
        init = st.heap[info["priv"].oid].fields.get("initialized")
        goal = z3.Implies(saved, z3.And(z3.Select(st.ghost["was_set"], k), z3.Select(st.ghost["set_attr"], k) == z3.Select(holder["vals0"], k)))
        out = []
        rem = st.ghost.get("$dict_removed:%d" % holder["state"].oid)
        if rem is not None:
            # membership in a concatenation, for the split made by `state.pop('param')` (two instances
            # of a sequence-theory theorem, each discharged as its own obligation, then used)
            pre_, k_, post_ = rem
            u = z3.Unit(k)
            l1 = z3.Contains(z3.Concat(pre_, post_), u) == z3.Or(z3.Contains(pre_, u), z3.Contains(post_, u))
            l2 = z3.Contains(z3.Concat(pre_, z3.Unit(k_), post_), u) == z3.Or(z3.Contains(pre_, u), k_ == k, z3.Contains(post_, u))
            out += [("seq-lemma: membership in pre ++ post", l1), ("seq-lemma: membership in pre ++ [k] ++ post", l2)]
            goal = z3.Implies(z3.And(l1, l2), goal)
        out += [("every saved attribute (other than the accessor entry 'param') is restored with its saved value", goal),
                ("the restored object is initialized", z3.BoolVal(isinstance(init, Conc) and init.py is True))]
        return out
    loops = {(QUAL, "state.items()"): LoopSpec("state.items()", inv=inv, heap=havoc, name="restore-every-attribute")}
    c = FunctionContract("%s:%s" % (MOD, QUAL), PROP, setup, post, configure=configure, loops=loops,
                         name="Parameterized.__setstate__[restore loop, arbitrary saved attributes]")
    c.runner = runner
    c.static_replay = SETSTATE_REPLAY
    c.static_witness = "ordinary attributes named like param's own bookkeeping, deepcopy and every pickle protocol"
    return c


_c17_base = contracts


def contracts():
    return _c17_base() + [setstate_tail_contract()]


def getstate_fresh_contract():
    """`Parameterized.__getstate__` hands out a NEW mapping (subclasses edit what `super().__getstate__()`
    returns: removing an unpicklable entry there must not remove the attribute from the object)."""
    import z3
    from pyvc.engine import Raise
    from pyvc.values import Ref
    from pyvc.verify import FunctionContract

    def configure(I):
        def occupied(I, st, fv, args, kwargs, ctx):
            return [(st, I.make_list(st, []))]
        I.contracts["get_occupied_slots"] = occupied

    def setup(I, st):
        U = I.U
        obj = I.alloc_obj(st, "Parameterized", lazy=True, label="self")
        import z3 as _z3
        from pyvc import values as vm
        d = I.alloc_dict(st, keys=U.fresh_seq("attribute_names"), vals=_z3.Const("attribute_values", _z3.ArraySort(vm.V, vm.V)))
        st.heap[obj.oid].fields["__dict__"] = d
        fv = I.bound_method(obj, I.src.find_method("Parameterized", "__getstate__"))
        return fv, [], {}, {"d": d, "keys0": st.heap[d.oid].keys, "vals0": st.heap[d.oid].vals, "symbols": {}}

    def post(I, info, st, oc):
        if isinstance(oc, Raise):
            return [("does-not-raise", z3.BoolVal(False))]
        h = st.heap[info["d"].oid]
        return [("the state handed out is a new mapping, not the object's own attribute dictionary",
                 z3.BoolVal(isinstance(oc, Ref) and oc.oid != info["d"].oid)),
                ("the object's attribute dictionary is untouched", z3.And(h.keys == info["keys0"], h.vals == info["vals0"]))]
    return FunctionContract("%s:Parameterized.__getstate__" % MOD, PROP, setup, post, configure=configure,
                            name="Parameterized.__getstate__[fresh mapping]")


_c17_base2 = contracts


def contracts():
    return _c17_base2() + [getstate_fresh_contract()]
