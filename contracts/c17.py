"""C17 — copies and pickles are faithful and independent.

Deductive part: the state capture/restore pairs that `copy.deepcopy` and `pickle` drive
(A-DEEPCOPY/A-PICKLE: both rebuild the object from `__getstate__` / `__setstate__`):
`Parameter.__getstate__` captures every slot and `Parameter.__setstate__` restores exactly the
captured slots; `_InstancePrivate.__getstate__/__setstate__` likewise for the per-instance private
namespace (values, watchers, refs, per-instance Parameters, initialized, ...).  The re-binding of
watchers in `Parameterized.__setstate__` and end-to-end independence are covered by the bounded
layer only."""
import z3

from pyvc import spec as S
from pyvc import values as vm
from pyvc.engine import Raise
from pyvc.values import BoolV, ClsV, Conc, FuncV, Ref, Sym, TupV
from pyvc.verify import FunctionContract

PROP = "C17"
MOD = "param.parameterized"
PSLOTS = ["name", "default", "doc", "precedence", "instantiate", "constant", "readonly", "pickle_default_value",
          "allow_None", "per_instance", "watchers", "owner", "allow_refs", "nested_refs", "_label"]


def slots_hook(slots):
    def attr_hook(I, st, ov, attr, ctx):
        if attr == "_all_slots_" and isinstance(ov, ClsV):
            return [(st, TupV([Conc(s) for s in slots]))]
        return None
    return attr_hook


def roundtrip_contract(cls, slots, use_hook, name):
    def configure(I):
        if use_hook:
            I.attr_hook = slots_hook(slots)

    def setup(I, st):
        src, T = S.param_obj(I, st, cls, {s: None for s in slots}, label="original", lazy=False)
        dst = I.alloc_obj(st, cls, lazy=False, label="copy")      # created without __init__ (A-PICKLE)
        return {"src": src, "dst": dst, "T": T, "symbols": {}}

    def runner(I, st, info, ctx):
        gs = I.src.find_method(cls, "__getstate__")
        ss = I.src.find_method(cls, "__setstate__")
        out = []
        for (q, state) in I.call(I.bound_method(info["src"], gs), [], {}, st, ctx):
            if isinstance(state, Raise):
                out.append((q, state))
                continue
            q.ghost["state"] = state
            for (r, v) in I.call(I.bound_method(info["dst"], ss), [state], {}, q, ctx):
                out.append((r, v))
        return out

    def post(I, info, st, oc):
        if isinstance(oc, Raise):
            return [("getstate/setstate do not raise", z3.BoolVal(False))]
        state = st.ghost.get("state")
        d = I.known_dict(st, state) if isinstance(state, Ref) else None
        out = [("__getstate__ captures exactly the slots", z3.BoolVal(d is not None and sorted(d) == sorted(slots)))]
        f = st.heap[info["dst"].oid].fields
        for s_ in slots:
            out.append(("slot %s restored on the copy" % s_,
                        I.term(f[s_]) == info["T"][s_] if s_ in f else z3.BoolVal(False)))
        out.append(("the original is not modified", S.heap_unchanged(I, st, info["src"])))
        return out
    c = FunctionContract("%s:%s.__setstate__" % (MOD, cls), PROP, setup, post, configure=configure, name=name)
    c.runner = runner
    return c


def contracts():
    import ast
    from pyvc import source
    src = source.Sources()
    m = src.modules[MOD]
    islots = ast.literal_eval(m.class_attr("_InstancePrivate", "__slots__"))
    return [roundtrip_contract("Parameter", PSLOTS, True, "Parameter.__getstate__/__setstate__"),
            roundtrip_contract("_InstancePrivate", islots, False, "_InstancePrivate.__getstate__/__setstate__")]


ASSUMPTIONS = [
    "A-DEEPCOPY / A-PICKLE: deepcopy and pickle rebuild an object created without __init__ from __getstate__/__setstate__, preserving aliasing and sharing only immutables",
    "the slot list of Parameter (_all_slots_, computed by the metaclass at run time) is supplied by the contract; subclasses add their own slots through the same comprehension",
]
