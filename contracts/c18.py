"""C18 — a Selector's objects list, names and range stay consistent under mutation.

Contract shape: data structure against an abstract view; every mutator's postcondition is stated
over the WHOLE view (proxy list, `_objects`, `names`), not just the touched element.

The real `ListProxy` methods are executed symbolically on a Selector whose `objects` hold n ≤ 3
*arbitrary, pairwise distinct* objects (list-declared: no names; dict-declared: n arbitrary objects
under n distinct keys); every index / key position is covered.  After the call the three stores are
compared with an independent view model written from the statement:

    pop(i) / pop()     returns objs[i]; removes it from the list view, `_objects` and its name
    pop(key)           returns names[key]; removes the key and the object
    remove(o), clear(), append(o), insert(i, o), extend(os), item / key assignment, update(pairs)
    reads              __getitem__, get, keys, values, items, copy agree with the view

and `objects` watchers are notified exactly once per mutation (with the old and new view).
Bounded in ONE dimension (length ≤ 3) and unbounded in the objects, keys and positions; longer
lists and arbitrary histories: bounded layer.
"""
import itertools

import z3

from pyvc import spec as S
from pyvc import values as vm
from pyvc.engine import OutOfReach, Raise
from pyvc.values import BoolV, ClsV, Conc, FuncV, Ref, Sym, TupV
from pyvc.verify import FunctionContract

PROP = "C18"
MOD = "param.parameters"


class View:
    """Independent model of the statement: ordered objects + ordered name->object mapping."""

    def __init__(self, objs, names):
        self.objs = list(objs)
        self.names = list(names)      # [(key, obj)] or [] when declared as a list

    def copy(self):
        return View(self.objs, self.names)


def model_apply(v, op):
    """-> (new view, result marker) ; result marker: ('obj', o) | ('none',) | ('any',)"""
    v = v.copy()
    kind = op[0]
    if kind == "append":
        v.objs.append(op[1])
        return v, ("none",)
    if kind == "insert":
        v.objs.insert(op[1], op[2])
        return v, ("none",)
    if kind == "extend":
        v.objs += list(op[1])
        return v, ("none",)
    if kind == "setidx":
        v.objs[op[1]] = op[2]
        return v, ("none",)
    if kind == "setkey":
        k, o = op[1], op[2]
        keys = [kk for kk, _ in v.names]
        if k in keys:
            old = dict(v.names)[k]
            i = next(j for j, x in enumerate(v.objs) if x is old)
            v.objs[i] = o
            v.names = [(kk, o if kk == k else oo) for kk, oo in v.names]
        else:
            v.objs.append(o)
            v.names.append((k, o))
        return v, ("none",)
    if kind == "popidx":
        i = op[1]
        o = v.objs[i]
        v.objs.pop(i)
        v.names = [(kk, oo) for kk, oo in v.names if oo is not o]
        return v, ("obj", o)
    if kind == "popkey":
        k = op[1]
        o = dict(v.names)[k]
        v.names = [(kk, oo) for kk, oo in v.names if kk != k]
        v.objs = [x for x in v.objs if x is not o]
        return v, ("obj", o)
    if kind == "remove":
        o = op[1]
        i = next(j for j, x in enumerate(v.objs) if x is o)
        v.objs.pop(i)
        v.names = [(kk, oo) for kk, oo in v.names if oo is not o]
        return v, ("none",)
    if kind == "clear":
        return View([], []), ("none",)
    if kind == "refused":
        # an operation that cannot be carried out (absent object, unknown key, position out of range)
        return v, ("raise",)
    if kind == "update":
        for k, o in op[1]:
            v, _ = model_apply(v, ("setkey", k, o))
        return v, ("none",)
    raise ValueError(kind)


class I_list:
    """A list argument built on the heap at setup time."""

    def __init__(self, items):
        self.items = items


def mutator_contract(style, n, op_name, op_builder, watched, stale=0, ghosts=0, unnamed_at=None):
    """op_builder(objs, keys, extra) -> (method name, call args as Vals, model op)"""
    def setup(I, st):
        U = I.U
        objs = [Sym(U.fresh("obj%d" % k)) for k in range(n)]
        extra = [Sym(U.fresh("new%d" % k)) for k in range(2)]
        allv = [o.t for o in objs + extra]
        if len(allv) > 1:
            st.pc.append(z3.Distinct(*allv))
        for t in allv:
            st.pc += [t != U.NONE, vm.ty(t) == vm.TAG["object"]]
        keys = ["k%d" % k for k in range(n)]
        named = list(objs)
        if unnamed_at is not None:
            # an object admitted by a value assignment (check_on_set=False): listed, but without a name
            extra_obj = Sym(U.fresh("admitted_unnamed"))
            st.pc += [extra_obj.t != U.NONE, vm.ty(extra_obj.t) == vm.TAG["object"], z3.Distinct(*(allv + [extra_obj.t]))]
            objs = objs[:unnamed_at] + [extra_obj] + objs[unnamed_at:]
        backing = I.make_list(st, objs)
        names = I.alloc_dict(st)
        if style == "dict":
            for k, o in zip(keys, named):
                I.dict_store(st, names, Conc(k), o)
        watchers = I.alloc_dict(st)
        if watched:
            I.dict_store(st, watchers, Conc("objects"), I.make_list(st, [Sym(U.fresh("watcher"))]))
        p, T = S.param_obj(I, st, "Selector", {"_objects": backing, "names": names, "watchers": watchers}, label="p", lazy=False)
        # a handle obtained earlier may lag behind: it misses the last `stale` objects
        # … or still hold objects that have been removed since (`ghosts`)
        gh = [Sym(U.fresh("removed_since%d" % k)) for k in range(ghosts)]
        for g in gh:
            st.pc += [g.t != U.NONE, vm.ty(g.t) == vm.TAG["object"]]
        if gh:
            st.pc.append(z3.Distinct(*(allv + [g.t for g in gh])))
        proxy = I.make_list(st, (objs[:len(objs) - stale] if stale else objs) + gh, cls="ListProxy")
        st.heap[proxy.oid].fields["_parameter"] = p

        def trigger_event(I, st2, fv, args, kwargs, ctx):
            st2.ghost["notified"] = st2.ghost.get("notified", []) + [list(args)]
            return [(st2, Conc(None))]
        I.contracts["Parameter._trigger_event"] = trigger_event
        I.lib["value._warn"] = lambda *a, **k: None
        I.contracts["ListProxy._warn"] = lambda I, st2, fv, args, kwargs, ctx: [(st2, Conc(None))]

        def named_objs(I, st2, fv, args, kwargs, ctx):
            # `_named_objs(objs)`: one (generated, pairwise distinct) name per object, in order
            its = I.known_items(st2, args[0])
            if its is None:
                raise OutOfReach("_named_objs over a list of unknown length")
            d = I.alloc_dict(st2)
            for j, o in enumerate(its):
                I.dict_store(st2, d, Conc("<generated name %d>" % j), o)
            return [(st2, d)]
        I.contracts["_named_objs"] = named_objs
        mname, args, mop = op_builder(named, keys, extra)
        args = [I.make_list(st, a.items) if isinstance(a, I_list) else a for a in args]
        found = I.src.find_method("ListProxy", mname)
        fv = I.bound_method(proxy, found)
        v0 = View(objs, list(zip(keys, named)) if style == "dict" else [])
        return fv, args, {}, {"proxy": proxy, "p": p, "backing": backing, "names": names, "v0": v0, "mop": mop,
                              "symbols": {}}

    def same(I, a, b):
        r = I.is_same(a, b)
        return z3.BoolVal(r) if isinstance(r, bool) else r

    def post(I, info, st, oc):
        want, res = model_apply(info["v0"], info["mop"])
        if res[0] == "raise":
            if not isinstance(oc, Raise):
                return [("an operation that cannot be carried out raises", z3.BoolVal(False))]
        elif isinstance(oc, Raise):
            return [("style-consistent operation does not raise", z3.BoolVal(False))]
        out = []
        ph = st.heap[info["p"].oid].fields
        pits = st.heap[info["proxy"].oid].fields.get("$items")
        bref = ph["_objects"]
        bits = st.heap[bref.oid].fields.get("$items") if isinstance(bref, Ref) else None
        nref = ph["names"]
        nd = I.known_dict(st, nref) if isinstance(nref, Ref) else None

        def seq_eq(items, objs):
            if items is None or len(items) != len(objs):
                return z3.BoolVal(False)
            return z3.And([same(I, a, b) for a, b in zip(items, objs)]) if objs else z3.BoolVal(True)
        if not stale and not ghosts:
            out.append(("list view == expected objects, in order", seq_eq(pits, want.objs)))
        out.append(("`_objects` == expected objects, in order", seq_eq(bits, want.objs)))
        if nd is None:
            out.append(("names is a mapping", z3.BoolVal(False)))
        else:
            ok_keys = list(nd) == [k for k, _ in want.names]
            out.append(("names keys == expected keys, in order", z3.BoolVal(ok_keys)))
            if ok_keys:
                out.append(("names values == expected objects", seq_eq([nd[k] for k, _ in want.names], [o for _, o in want.names])))
        if res[0] == "obj":
            out.append(("returns the object it removed", same(I, oc, res[1])))
        elif res[0] == "none":
            out.append(("returns None", z3.BoolVal(isinstance(oc, Conc) and oc.py is None)))
        notes = st.ghost.get("notified", [])
        if res[0] == "raise":
            out.append(("a mutation that did not happen is not announced", z3.BoolVal(len(notes) == 0)))
            return out
        out.append(("objects watchers notified exactly once per mutation (iff registered)",
                    z3.BoolVal(len(notes) == (1 if watched else 0))))
        if watched and len(notes) == 1:
            out.append(("notification is for 'objects'", z3.BoolVal(isinstance(notes[0][0], Conc) and notes[0][0].py == "objects")))
        return out
    c_ = _mk_contract(style, n, op_name, op_builder, watched, stale, ghosts, setup, post, unnamed_at)
    if ghosts:
        c_.static_replay = GHOST_REPLAY
        c_.static_witness = "key assignment / update through a handle obtained before the objects were emptied"
    return c_


GHOST_REPLAY = '''import sys, os
sys.path.insert(0, os.environ.get('PYVC_REPO', '/repo'))
import param
bad = []
class P(param.Parameterized):
    x = param.Selector(objects={'k0': 1, 'k1': 2, 'k2': 3})
def fresh(p):
    return dict(p.param.x.names), list(p.param.x.objects)
p = P(); h = p.param.x.objects; p.param.x.objects.clear(); h['n0'] = 1
if fresh(p) != ({'n0': 1}, [1]):
    bad.append("clear() then h['n0'] = 1 through the earlier handle: names, objects == %r" % (fresh(p),))
p = P(); h = p.param.x.objects; p.param.x.objects.clear(); h.update({})
if fresh(p) != ({}, []):
    bad.append("clear() then h.update({}) through the earlier handle: names, objects == %r" % (fresh(p),))
p = P(); h = p.param.x.objects; p.param.x.objects = {}; h['n0'] = 1
if fresh(p) != ({'n0': 1}, [1]):
    bad.append("objects = {} then h['n0'] = 1 through the earlier handle: names, objects == %r" % (fresh(p),))
if bad:
    print('REPRODUCED: C18 names no longer describe the objects of the list view:')
    for b in bad:
        print('  ', b)
    sys.exit(1)
print('NOT-REPRODUCED'); sys.exit(0)
'''


def _mk_contract(style, n, op_name, op_builder, watched, stale, ghosts, setup, post, unnamed_at=None):
    return FunctionContract("%s:ListProxy.%s" % (MOD, op_builder(["?"] * n, ["k%d" % k for k in range(n)], ["?", "?"])[0]), PROP,
                            setup, post, name="ListProxy.%s[%s-declared, %d objects%s%s]" % (
                                op_name, style, n, ", watched" if watched else "", ", handle obtained %d mutation(s) earlier" % stale if stale else
                                (", handle still holding %d object(s) removed since" % ghosts if ghosts else "")
                                + (", one unnamed admitted object at position %d" % unnamed_at if unnamed_at is not None else "")))


def contracts():
    C = []
    for n in (0, 1, 2, 3):
        for watched in (False, True):
            if watched and n not in (1, 2):
                continue
            # list-declared
            C.append(mutator_contract("list", n, "append", lambda o, k, x: ("append", [x[0]], ("append", x[0])), watched))
            C.append(mutator_contract("list", n, "clear", lambda o, k, x: ("clear", [], ("clear",)), watched))
            C.append(mutator_contract("list", n, "extend", lambda o, k, x: ("extend", [TupV([x[0], x[1]])], ("extend", [x[0], x[1]])), watched))
            for i in range(n + 1):
                C.append(mutator_contract("list", n, "insert(%d)" % i, lambda o, k, x, i=i: ("insert", [Conc(i), x[0]], ("insert", i, x[0])), watched))
            if n:
                C.append(mutator_contract("list", n, "pop()", lambda o, k, x: ("pop", [], ("popidx", len(o) - 1)), watched))
            for i in range(n):
                C.append(mutator_contract("list", n, "pop(%d)" % i, lambda o, k, x, i=i: ("pop", [Conc(i)], ("popidx", i)), watched))
                C.append(mutator_contract("list", n, "remove(obj%d)" % i, lambda o, k, x, i=i: ("remove", [o[i]], ("remove", o[i])), watched))
                C.append(mutator_contract("list", n, "[%d]=" % i, lambda o, k, x, i=i: ("__setitem__", [Conc(i), x[0]], ("setidx", i, x[0])), watched))
            # dict-declared
            if n:
                C.append(mutator_contract("dict", n, "[newkey]=", lambda o, k, x: ("__setitem__", [Conc("knew"), x[0]], ("setkey", "knew", x[0])), watched))
                C.append(mutator_contract("dict", n, "clear", lambda o, k, x: ("clear", [], ("clear",)), watched))
                C.append(mutator_contract("dict", n, "pop()", lambda o, k, x: ("pop", [], ("popidx", len(o) - 1)), watched))
                for i in range(n):
                    C.append(mutator_contract("dict", n, "[k%d]=" % i, lambda o, k, x, i=i: ("__setitem__", [Conc(k[i]), x[0]], ("setkey", k[i], x[0])), watched))
                    C.append(mutator_contract("dict", n, "pop(k%d)" % i, lambda o, k, x, i=i: ("pop", [Conc(k[i])], ("popkey", k[i])), watched))
                    C.append(mutator_contract("dict", n, "pop(%d)" % i, lambda o, k, x, i=i: ("pop", [Conc(i)], ("popidx", i)), watched))
                    C.append(mutator_contract("dict", n, "remove(obj%d)" % i, lambda o, k, x, i=i: ("remove", [o[i]], ("remove", o[i])), watched))
    # mutations through a handle obtained earlier (the parameter's own stores are the truth)
    for n in (1, 2, 3):
        C.append(mutator_contract("list", n, "append", lambda o, k, x: ("append", [x[0]], ("append", x[0])), False, stale=1))
        C.append(mutator_contract("list", n, "extend", lambda o, k, x: ("extend", [TupV([x[0], x[1]])], ("extend", [x[0], x[1]])), False, stale=1))
    for (n, g) in ((0, 2), (2, 1)):
        C.append(mutator_contract("dict", n, "[newkey]=", lambda o, k, x: ("__setitem__", [Conc("knew"), x[0]], ("setkey", "knew", x[0])), False, ghosts=g))
    C.append(mutator_contract("list", 1, "append", lambda o, k, x: ("append", [x[0]], ("append", x[0])), False, ghosts=1))
    # dict-declared objects with an unnamed object admitted by a value assignment (names and list out of step)
    for n in (1, 2):
        for j in range(n + 1):
            for i in range(n):
                C.append(mutator_contract("dict", n, "[k%d]=" % i, lambda o, k, x, i=i: ("__setitem__", [Conc(k[i]), x[0]], ("setkey", k[i], x[0])), False, unnamed_at=j))
                C.append(mutator_contract("dict", n, "pop(k%d)" % i, lambda o, k, x, i=i: ("pop", [Conc(k[i])], ("popkey", k[i])), False, unnamed_at=j))
            C.append(mutator_contract("dict", n, "[newkey]=", lambda o, k, x: ("__setitem__", [Conc("knew"), x[0]], ("setkey", "knew", x[0])), False, unnamed_at=j))
    # positions counted from the end
    for n in (1, 2, 3):
        for watched in ((False, True) if n < 3 else (False,)):
            for i in range(1, n + 1):
                C.append(mutator_contract("list", n, "insert(-%d)" % i, lambda o, k, x, i=i: ("insert", [Conc(-i), x[0]], ("insert", -i, x[0])), watched))
    # operations that cannot be carried out: nothing changes, nothing is announced
    for n in (0, 1, 2):
        C.append(mutator_contract("list", n, "remove(absent object)", lambda o, k, x: ("remove", [x[0]], ("refused",)), True))
        C.append(mutator_contract("list", n, "pop(%d) out of range" % n, lambda o, k, x, n=n: ("pop", [Conc(n)], ("refused",)), True))
    for n in (1, 2):
        C.append(mutator_contract("dict", n, "pop(unknown key)", lambda o, k, x: ("pop", [Conc("nokey")], ("refused",)), True))
        C.append(mutator_contract("dict", n, "remove(absent object)", lambda o, k, x: ("remove", [x[0]], ("refused",)), True))
    # dict-style update(...) on dict-declared objects: pairs in order, then keyword items
    for n in (1, 2):
        for watched in (False, True):
            C.append(mutator_contract("dict", n, "update([(newkey, v)])",
                                      lambda o, k, x: ("update", [I_list([TupV([Conc("knew"), x[0]])])], ("update", [("knew", x[0])])), watched))
            C.append(mutator_contract("dict", n, "update([(k0, v)])",
                                      lambda o, k, x: ("update", [I_list([TupV([Conc(k[0]), x[0]])])], ("update", [(k[0], x[0])])), watched))
            C.append(mutator_contract("dict", n, "update([(newkey, v), (k%d, w)])" % (n - 1),
                                      lambda o, k, x, n=n: ("update", [I_list([TupV([Conc("knew"), x[0]]), TupV([Conc(k[n - 1]), x[1]])])],
                                                            ("update", [("knew", x[0]), (k[n - 1], x[1])])), watched))
    return C


ASSUMPTIONS = [
    "objects are pairwise distinct, non-None, hashable opaque objects (scope of the statement: unique hashable objects, style-consistent operations)",
    "list lengths 0..3 (bounded in this one dimension; objects, keys and positions are arbitrary); `update` is proved for sequences of one and two pairs on dict-declared objects; `_named_objs`, `get_range`, `update` with a mapping or keyword items are covered by the bounded layer only",
    "callee contracts: Parameter._trigger_event (records the notification), ListProxy._warn (logging, no effect)",
]


# values admitted by an unchecked ListSelector become objects of the list view: each exactly once
_c18_base = contracts


def contracts():
    from contracts import c01 as _c01
    c = _c01.listselector_unchecked_contract()
    c.prop = PROP
    return _c18_base() + [c]


# "membership of assigned values is always checked against the current objects": the validators (C01)
_c18_base2 = contracts


def contracts():
    from contracts import c01 as _c01
    extra = [c for c in _c01._c01_validators() if c.name.split(".")[0] in ("Selector", "ObjectSelector", "ListSelector")]
    for c in extra:
        c.prop = PROP
    have = {c.name for c in _c18_base2()}
    return _c18_base2() + [c for c in extra if c.name not in have]


# ---------------------------------------------------------------------------------------------
# Every holder of a Selector (class, instances, subclasses) owns its objects list AND its name mapping,
# whatever mapping type the objects were declared with — concrete probe, not a proof
# ---------------------------------------------------------------------------------------------
HOLDERS_REPLAY = '''import sys, os, collections, itertools
sys.path.insert(0, os.environ.get('PYVC_REPO', '/repo'))
import logging
logging.disable(logging.WARNING)
import param
bad = []
class MyDict(dict):
    pass
def consistent(label, sel):
    lst = list(sel.objects)
    items = list(sel.objects.items()) if sel.names else None
    if items is not None and [v for _, v in items] != lst:
        bad.append('%s: the name mapping %r does not describe the list view %r' % (label, items, lst))
    rng = sel.get_range()
    if list(rng.values()) != lst:
        bad.append('%s: get_range() %r does not describe the list view %r' % (label, dict(rng), lst))
MAPPINGS = {'dict': dict, 'OrderedDict': collections.OrderedDict, 'dict subclass': MyDict,
            'defaultdict': lambda pairs: collections.defaultdict(int, pairs)}
OPS = {'setitem-new': lambda o: o.__setitem__('four', 4), 'setitem-existing': lambda o: o.__setitem__('two', 22),
       'pop-key': lambda o: o.pop('one'), 'remove': lambda o: o.remove(3), 'update': lambda o: o.update({'five': 5}),
       'clear': lambda o: o.clear()}
for (mname, mk), (oname, op), via in itertools.product(MAPPINGS.items(), OPS.items(), ('instance', 'subclass')):
    P = type('P', (param.Parameterized,), {'s': param.Selector(objects=mk([('one', 1), ('two', 2), ('three', 3)]))})
    Q = type('Q', (P,), {})
    a, b = P(), P()
    if via == 'subclass':
        Q.s = 2                       # Q gets its own copy of the Selector
        target = Q.param.s
    else:
        target = a.param.s
    before = {k: (list(h.param.s.objects), dict(h.param.s.names)) for k, h in (('class P', P), ('instance b', b))}
    try:
        op(target.objects)
    except Exception as e:
        bad.append('%s declared objects, %s through the %s: raised %r' % (mname, oname, via, e)); continue
    label = '%s-declared objects, %s through the %s' % (mname, oname, via)
    consistent(label + ' / edited holder', target)
    for k, h in (('class P', P), ('instance b', b)):
        consistent(label + ' / ' + k, h.param.s)
        now = (list(h.param.s.objects), dict(h.param.s.names))
        if now != before[k]:
            bad.append('%s: %s now reports objects %r names %r (was %r)' % (label, k, now[0], now[1], before[k]))
if bad:
    print('REPRODUCED: ' + bad[0]); sys.exit(1)
print('NOT-REPRODUCED'); sys.exit(0)
'''

PROBES = [("every holder of a Selector owns its objects and names, whatever mapping type declared them", HOLDERS_REPLAY)]
