"""C19 — time-dependent dynamic values are a pure function of time.

Contract shape: cache invariant making a stateful read a function of time; stack discipline for
the time context; purity frames.

Spec `G(gen, t)`: the value generator `gen` produces when called at time `t` (uninterpreted; the
generator call is the callback contract: it returns G(gen, now)).  Invariant

    DynCache(gen):   is_time(gen._Dynamic_time)  =>  gen._Dynamic_last == G(gen, gen._Dynamic_time)

for EVERY value a time function can return (times are numbers): it must be *established* by
`_initialize_generator` (so the "never produced" marker must not be a possible time) and
*preserved* by `_produce_value`, whose result then equals G(gen, now) whatever was read before —
repeated reads agree and the order in which times are visited is irrelevant.
"""
import z3

from pyvc import spec as S
from pyvc import values as vm
from pyvc.engine import OutOfReach, Raise
from pyvc.values import BoolV, ClsV, Conc, FuncV, Ref, Sym, TupV
from pyvc.verify import FunctionContract

PROP = "C19"
MOD = "param.parameters"

G = z3.Function("G", vm.V, vm.V, vm.V)


def is_time(I, t):
    return I.U.isnum(t)


def dyncache(I, gen_fields_last, gen_fields_time, gen_t):
    return z3.Implies(is_time(I, gen_fields_time), gen_fields_last == G(gen_t, gen_fields_time))


def gen_obj(I, st, with_cache=True):
    g = I.alloc_obj(st, None, lazy=True, label="gen")
    h = st.heap[g.oid]
    if with_cache:
        for f in ("_Dynamic_last", "_Dynamic_time"):
            v = Sym(I.U.fresh("gen." + f))
            h.fields[f] = v
            h.init[f] = v
    h.fields["$hasattr__Dynamic_time_fn"] = Conc(False)
    return g


def initialize_generator_contract():
    def setup(I, st):
        self, T = S.param_obj(I, st, "Dynamic", {}, label="self")
        gen = gen_obj(I, st, with_cache=False)
        fv = I.bound_method(self, I.src.find_method("Dynamic", "_initialize_generator"))
        return fv, [gen], {}, {"gen": gen, "symbols": {}}

    def post(I, info, st, oc):
        if isinstance(oc, Raise):
            return [("does-not-raise", z3.BoolVal(False))]
        h = st.heap[info["gen"].oid].fields
        if "_Dynamic_last" not in h or "_Dynamic_time" not in h:
            return [("initialises-the-cache-fields", z3.BoolVal(False))]
        last, tm = I.term(h["_Dynamic_last"]), I.term(h["_Dynamic_time"])
        gt = I.term(info["gen"])
        return [("establishes DynCache: the never-produced marker is not a possible time value",
                 dyncache(I, last, tm, gt))]
    c = FunctionContract("%s:Dynamic._initialize_generator" % MOD, PROP, setup, post, name="Dynamic._initialize_generator")
    c.static_witness = "first read at the time value equal to the never-produced marker"
    c.static_replay = INIT_REPLAY
    return c


INIT_REPLAY = '''import sys, os
sys.path.insert(0, os.environ.get('PYVC_REPO', '/repo'))
import param
import param.parameters as pp
state = (param.Dynamic.time_fn, param.Dynamic.time_dependent)
try:
    t = param.Time(time_type=int)
    param.Dynamic.time_fn = t
    param.Dynamic.time_dependent = True
    class Gen:
        def __call__(self):
            return 100 + t()
    class P(param.Parameterized):
        x = param.Dynamic(default=Gen())
    marker = P.param['x'].default._Dynamic_time
    print('never-produced marker:', repr(marker))
    bad = None
    if isinstance(marker, (int, float)):
        t(marker)
        p = P()
        got = p.x
        print('first read at time', marker, '->', got, '(generator gives', 100 + marker, ')')
        if got != 100 + marker:
            bad = 'first read at time %r returned the uninitialised cache %r' % (marker, got)
finally:
    param.Dynamic.time_fn, param.Dynamic.time_dependent = state
if bad:
    print('REPRODUCED: C19 ' + bad); sys.exit(1)
print('NOT-REPRODUCED'); sys.exit(0)
'''


def produce_value_contract(force, entry=None):
    def configure(I):
        if entry is not None:
            # the stored value of the parameter is the generator
            I.contracts["Parameter.__get__"] = lambda I, st, fv, args, kwargs, ctx: [(st, st.ghost["gen"])]
        def produce(I, st, fv, args, kwargs, ctx):
            # _utils._produce_value(gen): calls the generator once (callback contract: returns G(gen, now))
            st.ghost["gen_calls"] = st.ghost.get("gen_calls", 0) + 1
            now = st.ghost["now"]
            r = G(I.term(args[0]), now)
            I.U.well_typed(r)
            # user code: the generator may also fail
            q = st.fork()
            return [(st, Sym(r)), (q, Raise("$User", origin="generator"))]
        I.contracts["_produce_value"] = produce

        def time_fn(I, st, fv, args, kwargs, ctx):
            st.ghost["time_reads"] = st.ghost.get("time_reads", 0) + 1
            return [(st, Sym(st.ghost["now"]))]
        I.lib["$sym_call"] = time_fn

    def setup(I, st):
        U = I.U
        tf = Sym(U.fresh("time_fn"))
        U.axioms.append(vm.ty(tf.t) == vm.TAG["function"])
        self, T = S.param_obj(I, st, "Dynamic", {"time_fn": tf, "time_dependent": Conc(True)}, label="self")
        gen = gen_obj(I, st)
        h = st.heap[gen.oid]
        last0, time0 = h.fields["_Dynamic_last"].t, h.fields["_Dynamic_time"].t
        now = U.fresh("now")
        st.ghost["now"] = now
        gt = I.term(gen)
        st.pc += [is_time(I, now), dyncache(I, last0, time0, gt),
                  # well-formed generator: the cached time is a time value or the never-produced marker None
                  z3.Or(is_time(I, time0), time0 == U.NONE),
                  # G is a function of the *numeric* time value
                  z3.Implies(z3.And(is_time(I, time0), U.num_eq(now, time0)), G(gt, now) == G(gt, time0))]
        if entry is not None:
            st.ghost["gen"] = gen
            fv = I.bound_method(self, I.src.find_method("Dynamic", entry))
            obj = Sym(U.fresh("obj"))
            return fv, [obj, Sym(U.fresh("objtype"))], {}, {"gen": gen, "last0": last0, "time0": time0, "now": now,
                                                             "symbols": {"now": now, "cached_time": time0}}
        fv = I.bound_method(self, I.src.find_method("Dynamic", "_produce_value"))
        return fv, [gen], ({"force": Conc(True)} if force else {}), {"gen": gen, "last0": last0, "time0": time0, "now": now,
                                                                    "symbols": {"now": now, "cached_time": time0}}

    def post(I, info, st, oc):
        U = I.U
        h = st.heap[info["gen"].oid].fields
        gt = I.term(info["gen"])
        last, tm = I.term(h["_Dynamic_last"]), I.term(h["_Dynamic_time"])
        now = info["now"]
        if isinstance(oc, Raise):
            # a failing generator must not leave a cache that claims a value for the new time
            return [("only the generator's own exception escapes", z3.BoolVal(oc.cls == "$User")),
                    ("a failing generator leaves DynCache intact (the next read at that time produces the value)", dyncache(I, last, tm, gt))]
        out = [("value == G(gen, now): same time, same value, whatever was read before", I.term(oc) == G(gt, now)),
               ("preserves DynCache", dyncache(I, last, tm, gt)),
               ("time function read exactly once", z3.BoolVal(st.ghost.get("time_reads", 0) == 1))]
        if entry is not None:
            out.pop()      # how often an entry point consults the clock is not part of the statement
        calls = st.ghost.get("gen_calls", 0)
        same = z3.And(is_time(I, info["time0"]), U.num_eq(now, info["time0"]))
        if not force:
            out.append(("same time => generator not called again and cache untouched",
                        z3.Implies(same, z3.And(z3.BoolVal(calls == 0), last == info["last0"], tm == info["time0"]))))
            out.append(("new time => generator called exactly once", z3.Implies(z3.Not(same), z3.BoolVal(calls == 1))))
        else:
            out.append(("force => generator called exactly once", z3.BoolVal(calls == 1)))
        return out
    if entry is not None:
        return FunctionContract("%s:Dynamic.%s" % (MOD, entry), PROP, setup, post, configure=configure,
                                name="Dynamic.%s[dynamic value, time-dependent]" % entry)
    return FunctionContract("%s:Dynamic._produce_value" % MOD, PROP, setup, post, configure=configure,
                            name="Dynamic._produce_value[%s]" % ("force" if force else "time-dependent"))


def inspect_contract():
    def configure(I):
        def pget(I, st, fv, args, kwargs, ctx):
            return [(st, st.ghost["gen"])]
        I.contracts["Parameter.__get__"] = pget

    def setup(I, st):
        self, T = S.param_obj(I, st, "Dynamic", {}, label="self")
        gen = gen_obj(I, st)
        st.ghost["gen"] = gen
        fv = I.bound_method(self, I.src.find_method("Dynamic", "_inspect"))
        obj = Sym(I.U.fresh("obj"))
        h = st.heap[gen.oid]
        return fv, [obj], {}, {"gen": gen, "self": self, "last0": h.fields["_Dynamic_last"].t, "symbols": {}}

    def post(I, info, st, oc):
        if isinstance(oc, Raise):
            return [("does-not-raise", z3.BoolVal(False))]
        return [("returns the last generated value", I.term(oc) == info["last0"]),
                ("inspection never advances: generator state unchanged", S.heap_unchanged(I, st, info["gen"])),
                ("parameter unchanged", S.heap_unchanged(I, st, info["self"]))]
    return FunctionContract("%s:Dynamic._inspect" % MOD, PROP, setup, post, configure=configure, name="Dynamic._inspect")


def time_enter_exit_contract():
    """`with time_obj:` around an arbitrary body that may change time/timestep/until and raise:
    the state at entry is restored exactly on both exits and the stack is as before."""
    def setup(I, st):
        U = I.U
        self = I.alloc_obj(st, "Time", lazy=True, label="time")
        h = st.heap[self.oid]
        t0, ts0, u0 = (Sym(U.fresh(n)) for n in ("time0", "timestep0", "until0"))
        stack0 = U.fresh_seq("pushed0")
        stack = I.alloc_list(st, stack0)
        for k, v in (("_time", t0), ("timestep", ts0), ("until", u0), ("_pushed_state", stack)):
            h.fields[k] = v
            h.init[k] = v

        def body(I, st2, fv, args, kwargs, ctx):
            hh = st2.heap[self.oid]
            hh.fields["_time"] = Sym(U.fresh("time_in_body"))
            hh.fields["timestep"] = Sym(U.fresh("timestep_in_body"))
            hh.fields["until"] = Sym(U.fresh("until_in_body"))
            st2.ghost["stack_in_body"] = st2.heap[stack.oid].seq
            q = st2.fork()
            return [(st2, Conc(None)), (q, Raise("$User", origin="body"))]
        I.lib["__BODY__"] = body
        return {"self": self, "t0": t0.t, "ts0": ts0.t, "u0": u0.t, "stack": stack, "stack0": stack0,
                "env": {"t": self, "__BODY__": FuncV("builtin", name="__BODY__", self=None)}, "symbols": {}}

    def runner(I, st, info, ctx):
        import ast
        from contracts.c05 import outcomes
        stmt = ast.parse("with t:\n    __BODY__()\n").body[0]
        st.env = dict(info["env"])
        c = dict(ctx)
        c["module"] = I.src.modules[MOD]
        c["qual"] = "<harness>"
        return outcomes(I.exec_stmt(stmt, st, c))

    def post(I, info, st, oc):
        h = st.heap[info["self"].oid].fields
        how = "raise" if isinstance(oc, Raise) else "return"
        out = [("exit restores the time exactly[%s]" % how, I.term(h["_time"]) == info["t0"]),
               ("exit restores timestep and until[%s]" % how, z3.And(I.term(h["timestep"]) == info["ts0"], I.term(h["until"]) == info["u0"])),
               ("stack is as before (LIFO)[%s]" % how, st.heap[info["stack"].oid].seq == info["stack0"]),
               ("body ran with exactly one more saved state", z3.Length(st.ghost["stack_in_body"]) == z3.Length(info["stack0"]) + 1
                if "stack_in_body" in st.ghost else z3.BoolVal(False))]
        if isinstance(oc, Raise):
            out.append(("exception propagates", z3.BoolVal(oc.cls == "$User")))
        return out
    c = FunctionContract("%s:Time.__exit__" % MOD, PROP, setup, post, name="Time.__enter__/__exit__")
    c.runner = runner
    return c


def contracts():
    return [initialize_generator_contract(), produce_value_contract(False), produce_value_contract(True),
            produce_value_contract(False, entry="__get__"), produce_value_contract(True, entry="_force"),
            inspect_contract(), time_enter_exit_contract()]


ASSUMPTIONS = [
    "callback contract: calling a generator at time `now` returns G(gen, now) — that the numbergen generators really are functions of (name, seed, time) (hash-seeded random state, A-RANDOM) is covered by the bounded layer only",
    "times are numbers (is_time = numeric type); G depends on the numeric value of the time",
    "Time's `timestep`/`until` Parameters are modelled as plain fields of the Time object",
    "_state_push ; reads ; _state_pop: distinct parameters hold distinct generator objects; reads in between and nested objects leave the save stacks of this object's generators alone (rely); save stacks are modelled as values with push/top/rest",
]


# ---------------------------------------------------------------------------------------------
# Parameters._state_push ; <arbitrary reads> ; Parameters._state_pop   (param/parameterized.py)
# ---------------------------------------------------------------------------------------------
PUSHPOP_REPLAY = '''import sys, os
sys.path.insert(0, os.environ.get('PYVC_REPO', '/repo'))
import param, numbergen as ng
bad = []
for nparams in (1, 2):
    param.Dynamic.time_dependent = True
    t = param.Dynamic.time_fn
    class P(param.Parameterized):
        a = param.Dynamic(default=ng.UniformRandom(name='ra', seed=1, time_dependent=True))
        b = param.Dynamic(default=ng.UniformRandom(name='rb', seed=2, time_dependent=True))
    p = P()
    names = ['a', 'b'][:nparams]
    t(1)
    before = {n: getattr(p, n) for n in names}
    gens = {n: p.param.get_value_generator(n) for n in names}
    snap = lambda g: (g._Dynamic_last, g._Dynamic_time, list(getattr(g, '_saved_Dynamic_last', ())), list(getattr(g, '_saved_Dynamic_time', ())))
    cache0 = {n: snap(gens[n]) for n in names}
    p.param._state_push()
    t(5)
    for n in names:
        getattr(p, n)                      # reads in between move the caches
    p.param._state_pop()
    cache1 = {n: snap(gens[n]) for n in names}
    for n in names:
        if cache1[n] != cache0[n]:
            bad.append('%d parameter(s): generator cache of %s (last, time, saved_last, saved_time) %r -> %r' % (nparams, n, cache0[n], cache1[n]))
    t(1)
    after = {n: getattr(p, n) for n in names}
    if after != before:
        bad.append('%d parameter(s): values at time 1 before push %r, after pop %r' % (nparams, before, after))
    param.Dynamic.time_dependent = False
    t(0)
if bad:
    print('REPRODUCED: C19 state push/pop does not restore the cached values:')
    for b in bad:
        print('  ', b)
    sys.exit(1)
print('NOT-REPRODUCED'); sys.exit(0)
'''


def push_pop_contract():
    """`_state_push()`, arbitrary reads in between, `_state_pop()` on an object with an ARBITRARY
    table of parameters (loop invariants, Skolem parameter name): the cache (`_Dynamic_last`,
    `_Dynamic_time`) of every dynamic value generator is what it was at the push, and the save
    stacks are what they were before the push."""
    from pyvc.loops import LoopSpec
    from pyvc.objects import sym_field
    from pyvc import builtins_lib as bl
    holder = {}
    genF = z3.Function("value_generator_of", vm.V, vm.V)
    snoc = z3.Function("stack_push", vm.V, vm.V, vm.V)
    top = z3.Function("stack_top", vm.V, vm.V)
    rest = z3.Function("stack_rest", vm.V, vm.V)
    FIELDS = ("_Dynamic_last", "_Dynamic_time", "_saved_Dynamic_last", "_saved_Dynamic_time")

    def configure(I):
        I.sym_fields = set(FIELDS)

        def vmethod(I, st, name, selfv, args, kwargs, ctx):
            t = I.term(selfv)
            if name in ("append", "pop") and z3.is_app(t) and t.decl().kind() == z3.Z3_OP_SELECT:
                # a save stack held in a field of a generator: functional update of the field map
                fmap, g = t.arg(0), t.arg(1)
                key = [k for k in st.ghost if isinstance(k, str) and k.startswith("F_") and st.ghost[k].eq(fmap)]
                if len(key) != 1:
                    raise OutOfReach("append/pop on a value that is not a field of a generator")
                if name == "append":
                    new = snoc(t, I.term(args[0]))
                    I.U.axioms += [top(new) == I.term(args[0]), rest(new) == t]
                    st.ghost[key[0]] = z3.Store(fmap, g, new)
                    return [(st, Conc(None))]
                r = top(t)
                I.U.well_typed(r)
                st.ghost[key[0]] = z3.Store(fmap, g, rest(t))
                return [(st, Sym(r))]
            if name in ("_state_push", "_state_pop"):
                st.ghost["nested"] = st.ghost.get("nested", []) + [(name, t)]
                return [(st, Conc(None))]
            return None
        I.lib["$value_method"] = vmethod

        def objects(I, st, fv, args, kwargs, ctx):
            return [(st, holder["P"])]
        I.contracts["Parameters.objects"] = objects

        def gvg(I, st, fv, args, kwargs, ctx):
            r = genF(I.term(args[0]))
            I.U.well_typed(r)
            return [(st, Sym(r))]
        I.contracts["Parameters.get_value_generator"] = gvg

    def dyn(g):
        return bl.hasattr_fn("_Dynamic_last")(g)

    def setup(I, st):
        U = I.U
        obj = I.alloc_obj(st, "Parameterized", lazy=True, label="obj")
        par = I.alloc_obj(st, "Parameters", lazy=False, label="obj.param")
        st.heap[par.oid].fields.update({"self": obj, "cls": ClsV("Parameterized"), "self_or_cls": obj})
        st.heap[obj.oid].fields["param"] = par
        P = I.alloc_dict(st, keys=U.fresh_seq("parameter_names"), vals=z3.Const("parameters", z3.ArraySort(vm.V, vm.V)))
        k = U.fresh("some_name")
        holder.update({"P": P, "k": k, "par": par})
        F0 = {f: sym_field(I, st, f) for f in FIELDS}
        holder["F0"] = F0
        # stack axioms at the Skolem generator's own pushes
        g = genF(k)
        for sv, cur in (("_saved_Dynamic_last", "_Dynamic_last"), ("_saved_Dynamic_time", "_Dynamic_time")):
            l0, x0 = z3.Select(F0[sv], g), z3.Select(F0[cur], g)
            U.axioms += [top(snoc(l0, x0)) == x0, rest(snoc(l0, x0)) == l0]
        return {"obj": obj, "par": par, "symbols": {}}

    def other_facts(I, st, x):
        # distinct parameters hold distinct generator objects (assumption, listed)
        k = holder["k"]
        return [z3.Implies(x != k, genF(x) != genF(k))]

    def runner(I, st, info, ctx):
        U = I.U
        push = I.bound_method(info["par"], I.src.find_method("Parameters", "_state_push"))
        pop = I.bound_method(info["par"], I.src.find_method("Parameters", "_state_pop"))
        out = []
        holder["phase"] = "push"
        for (q, oc) in I.call(push, [], {}, st, ctx):
            if isinstance(oc, Raise):
                out.append((q, oc))
                continue
            # arbitrary reads in between: the caches move, the save stacks are left alone (rely)
            q.ghost["mid"] = {f: sym_field(I, q, f) for f in FIELDS}
            for f in ("_Dynamic_last", "_Dynamic_time"):
                q.ghost["F_" + f] = z3.Const("F_%s!between%d" % (f, I.new_oid()), z3.ArraySort(vm.V, vm.V))
            holder["phase"] = "pop"
            holder["mid"] = q.ghost["mid"]
            out += I.call(pop, [], {}, q, ctx)
        return out

    def inv(I, st, pre):
        k = holder["k"]
        g = genF(k)
        seen = z3.Contains(pre.seq, z3.Unit(k))
        F0 = holder["F0"]
        F = {f: sym_field(I, st, f) for f in FIELDS}
        sel = lambda m, f: z3.Select(m[f], g)
        if holder["phase"] == "push":
            return z3.Implies(dyn(g), z3.And(
                sel(F, "_Dynamic_last") == sel(F0, "_Dynamic_last"), sel(F, "_Dynamic_time") == sel(F0, "_Dynamic_time"),
                sel(F, "_saved_Dynamic_last") == z3.If(seen, snoc(sel(F0, "_saved_Dynamic_last"), sel(F0, "_Dynamic_last")), sel(F0, "_saved_Dynamic_last")),
                sel(F, "_saved_Dynamic_time") == z3.If(seen, snoc(sel(F0, "_saved_Dynamic_time"), sel(F0, "_Dynamic_time")), sel(F0, "_saved_Dynamic_time"))))
        M = holder["mid"]
        return z3.Implies(dyn(g), z3.And(
            z3.Implies(seen, z3.And(sel(F, "_Dynamic_last") == top(sel(M, "_saved_Dynamic_last")), sel(F, "_Dynamic_time") == top(sel(M, "_saved_Dynamic_time")),
                                    sel(F, "_saved_Dynamic_last") == rest(sel(M, "_saved_Dynamic_last")), sel(F, "_saved_Dynamic_time") == rest(sel(M, "_saved_Dynamic_time")))),
            z3.Implies(z3.Not(seen), z3.And(sel(F, "_saved_Dynamic_last") == sel(M, "_saved_Dynamic_last"), sel(F, "_saved_Dynamic_time") == sel(M, "_saved_Dynamic_time")))))

    def havoc(I, st):
        for f in FIELDS:
            st.ghost["F_" + f] = z3.Const("F_%s!%d" % (f, I.new_oid()), z3.ArraySort(vm.V, vm.V))

    def post(I, info, st, oc):
        if isinstance(oc, Raise):
            return [("does-not-raise", z3.BoolVal(False))]
        k = holder["k"]
        g = genF(k)
        F0 = holder["F0"]
        F = {f: sym_field(I, st, f) for f in FIELDS}
        hp = st.heap[holder["P"].oid]
        cond = z3.And(z3.Contains(hp.keys, z3.Unit(k)), dyn(g))
        return [("pop restores the cached value of every dynamic generator to what it was at the push",
                 z3.Implies(cond, z3.Select(F["_Dynamic_last"], g) == z3.Select(F0["_Dynamic_last"], g))),
                ("pop restores the cache time of every dynamic generator to what it was at the push",
                 z3.Implies(cond, z3.Select(F["_Dynamic_time"], g) == z3.Select(F0["_Dynamic_time"], g))),
                ("the save stacks are what they were before the push (balanced)",
                 z3.Implies(cond, z3.And(z3.Select(F["_saved_Dynamic_last"], g) == z3.Select(F0["_saved_Dynamic_last"], g),
                                         z3.Select(F["_saved_Dynamic_time"], g) == z3.Select(F0["_saved_Dynamic_time"], g))))]
    loops = {("Parameters._state_push", "objects('existing')"): LoopSpec("objects('existing')", inv=inv, heap=havoc, name="save-every-generator", elem_facts=other_facts),
             ("Parameters._state_pop", "objects('existing')"): LoopSpec("objects('existing')", inv=inv, heap=havoc, name="restore-every-generator", elem_facts=other_facts)}
    c = FunctionContract("param.parameterized:Parameters._state_pop", PROP, setup, post, configure=configure, loops=loops,
                         name="Parameters._state_push ; reads ; _state_pop [arbitrary parameter table]")
    c.runner = runner
    c.static_replay = PUSHPOP_REPLAY
    c.static_witness = "time-dependent random generators on 1 and 2 parameters: push at t=1, reads at t=5, pop"
    return c


_c19_base = contracts


def contracts():
    return _c19_base() + [push_pop_contract()]


# _state_push/_state_pop and every read go through get_value_generator / the class parameter table
_c19_base2 = contracts


def contracts():
    from contracts import c13 as _c13
    extra = [_c13.get_value_generator_dynamic_contract(), _c13.get_value_generator_contract("plain")]
    for c in extra:
        c.prop = PROP
    return _c19_base2() + extra


# ---------------------------------------------------------------------------------------------
# concrete probe: every random number generator of numbergen, at the corner values of its own
# parameters, is a function of (name, seed, time) when time-dependent — whatever was drawn before
# ---------------------------------------------------------------------------------------------
CORNERS_REPLAY = '''import sys, os, itertools
sys.path.insert(0, os.environ.get('PYVC_REPO', '/repo'))
import param, numbergen as ng
bad = []
CASES = [('UniformRandom', dict(lbound=0.0, ubound=1.0)), ('UniformRandom', dict(lbound=2.0, ubound=2.0)),
         ('UniformRandomOffset', dict(mean=0.0, range=0.0)), ('UniformRandomOffset', dict(mean=1.0, range=2.0)),
         ('UniformRandomInt', dict(lbound=3, ubound=3)), ('UniformRandomInt', dict(lbound=0, ubound=10)),
         ('Choice', dict(choices=[7])), ('Choice', dict(choices=[1, 2, 3])),
         ('NormalRandom', dict(mu=0.0, sigma=0.0)), ('NormalRandom', dict(mu=1.0, sigma=2.0)),
         ('VonMisesRandom', dict(mu=0.0, kappa=0.0)), ('VonMisesRandom', dict(mu=1.0, kappa=1.0)), ('VonMisesRandom', dict(mu=0.0, kappa=1e-9))]
tm = param.Time(time_type=int)
param.Dynamic.time_dependent = True
param.Dynamic.time_fn = tm
ng.TimeAware.time_dependent = True
ng.TimeAware.time_fn = tm
for cname, kw in CASES:
    cls = getattr(ng, cname, None)
    if cls is None:
        continue
    def gen():
        return cls(name='g', seed=11, **kw)
    if True:
        ref = {}
        g = gen()
        for now in (0, 1, 2, 3):
            tm(now); ref[now] = g()
        for order in ((3, 1, 1, 0, 2, 3), (2, 2, 0), (1, 3)):
            h = gen()
            for now in order:
                tm(now)
                for rep in range(2):
                    got = h()
                    if got != ref[now]:
                        bad.append('%s(%s): at time %r, visited in order %r (draw %d at that time): %r; a first visit in order 0,1,2,3 gave %r'
                                   % (cname, kw, now, order, rep, got, ref[now]))
if bad:
    print('REPRODUCED: ' + bad[0]); sys.exit(1)
print('NOT-REPRODUCED'); sys.exit(0)
'''

PROBES = globals().get("PROBES", []) + [("numbergen generators at the corner values of their parameters are functions of time", CORNERS_REPLAY)]
