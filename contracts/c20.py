"""C20 — pprint / script_repr output rebuilds an equal object.

Contract shape: printer against an evaluation spec function with syntax axioms.

Deductive part: the real `container_script_repr` is executed symbolically on lists and tuples of
0..3 arbitrary elements; the text it builds is kept as a *structured term* (literal pieces and
the element texts returned by `pprint`, whose contract is `pyeval(pprint(x)) == x`) and read back
with A-PYSYNTAX:  '[' t1 ',' … ']' evaluates to the list of the element values; '(' … ')' to () for
no element, to the ELEMENT ITSELF for one element without trailing comma, to the 1-tuple for
'(t,)', to the tuple for two or more.  Obligation: pyeval(text) == container, with equal type.
The signature-driven printer `Parameters._pprint` is covered by the bounded layer only."""
import ast

import z3

from pyvc import spec as S
from pyvc import values as vm
from pyvc.engine import OutOfReach, Raise
from pyvc.values import BoolV, ClsV, Conc, FuncV, Ref, StrCat, Sym, TupV
from pyvc.verify import FunctionContract

PROP = "C20"
MOD = "param.parameterized"


def pyeval_parts(parts, texts):
    """A-PYSYNTAX reading of a bracketed, comma-separated text.  `texts` maps id(part) -> element
    index.  Returns ('list', [idx…]) / ('tuple', [idx…]) / ('value', idx) / None when the text is
    not of that shape."""
    if not parts:
        return None
    toks = []
    for p in parts:
        if isinstance(p, str):
            toks += list(p)
        else:
            toks.append(p)
    if not toks or toks[0] not in ("[", "("):
        return None
    open_, close = toks[0], toks[-1]
    if (open_, close) not in (("[", "]"), ("(", ")")):
        return None
    inner = toks[1:-1]
    elems, trailing, expect_elem = [], False, True
    for t in inner:
        if isinstance(t, str):
            if t == "," and not expect_elem:
                expect_elem = True
                trailing = True
            elif t == " ":
                continue
            else:
                return None
        else:
            if not expect_elem or id(t) not in texts:
                return None
            elems.append(texts[id(t)])
            expect_elem = False
            trailing = False
    if open_ == "[":
        return ("list", elems)
    if len(elems) == 0:
        return ("tuple", []) if not trailing else None
    if len(elems) == 1 and not trailing:
        return ("value", elems[0])        # a parenthesised expression, not a tuple
    return ("tuple", elems)


def container_contract(kind, n):
    def configure(I):
        def pprint_c(I, st, fv, args, kwargs, ctx):
            t = Sym(I.U.fresh("text_of"))
            I.U.axioms.append(vm.ty(t.t) == vm.TAG["str"])
            st.ghost["texts"] = st.ghost.get("texts", []) + [(t, args[0])]
            return [(st, t)]
        I.contracts["pprint"] = pprint_c

        def binop_first(I, st, op, a, b, ctx, node):
            if isinstance(op, ast.Add):
                def strlike(x):
                    return isinstance(x, StrCat) or (isinstance(x, Conc) and isinstance(x.py, str)) or \
                        (isinstance(x, Sym) and I.valid(st, vm.ty(x.t) == vm.TAG["str"]))
                if strlike(a) and strlike(b):
                    return [(st, StrCat([a, b]))]
            return None
        I.lib["$binop_first"] = binop_first

        def vmethod(I, st, name, selfv, args, kwargs, ctx):
            if name == "join" and isinstance(selfv, Conc) and isinstance(selfv.py, str):
                its = I.known_items(st, args[0])
                if its is None:
                    raise OutOfReach("join over a list of unknown length")
                parts = []
                for k, it in enumerate(its):
                    if k:
                        parts.append(selfv)
                    parts.append(it)
                return [(st, StrCat(parts))]
            return None
        I.lib["$value_method"] = vmethod

    def setup(I, st):
        U = I.U
        items = [Sym(U.fresh("elem%d" % k)) for k in range(n)]
        container = I.make_list(st, items) if kind == "list" else TupV(items)
        m = I.src.modules[MOD]
        fd = m.functions["container_script_repr"]
        fv = FuncV("repo", module=m, cls=None, node=fd, self=None, qual="container_script_repr")
        args = [container] + [Sym(U.fresh(a)) for a in ("imports", "prefix", "settings")]
        return fv, args, {}, {"items": items, "symbols": {}}

    def post(I, info, st, oc):
        if isinstance(oc, Raise):
            return [("does-not-raise", z3.BoolVal(False))]
        texts = st.ghost.get("texts", [])
        ok_calls = len(texts) == n and all(texts[k][1] is info["items"][k] for k in range(n))
        out = [("every element printed exactly once, in order", z3.BoolVal(ok_calls))]
        if isinstance(oc, StrCat):
            parts = oc.parts
        elif isinstance(oc, Conc) and isinstance(oc.py, str):
            parts = [oc.py]
        else:
            return out + [("result is the constructed text", z3.BoolVal(False))]
        tmap = {id(t): k for k, (t, _) in enumerate(texts)}
        # the same Sym object flows from pprint's result into the parts
        val = pyeval_parts(parts, tmap)
        want = (kind, list(range(n)))
        shown = "".join(p if isinstance(p, str) else "<e%d>" % tmap.get(id(p), -1) for p in parts)
        out.append(("pyeval(%s) is the %s of the %d element values (same type, same order)" % (shown, kind, n),
                    z3.BoolVal(val == want)))
        return out
    c = FunctionContract("%s:container_script_repr" % MOD, PROP, setup, post, configure=configure,
                         name="container_script_repr[%s of %d]" % (kind, n))
    c.static_witness = "%s of %d element(s)" % (kind, n)
    c.static_replay = REPLAY % {"mk": ("[%s]" if kind == "list" else ("(%s,)" if n == 1 else "(%s)")) % ", ".join(str(k + 5) for k in range(n))}
    return c


REPLAY = '''import sys, os
sys.path.insert(0, os.environ.get('PYVC_REPO', '/repo'))
import param
class Box(param.Parameterized):
    p = param.Parameter()
v = %(mk)s
text = Box(p=v).param.pprint()
print('value', repr(v), '->', text)
back = eval(text, {'Box': Box})
print('rebuilt p =', repr(back.p))
if back.p != v or type(back.p) is not type(v):
    print('REPRODUCED: C20 container text does not evaluate back to the container'); sys.exit(1)
print('NOT-REPRODUCED'); sys.exit(0)
'''


def contracts():
    return [container_contract(k, n) for k in ("list", "tuple") for n in (0, 1, 2, 3)]


ASSUMPTIONS = [
    "A-PYSYNTAX: evaluation of bracketed comma-separated texts as stated in the module docstring; pyeval(pprint(x)) == x for the elements (callee contract of pprint)",
    "container_script_repr is verified for 0..3 elements (the code has no per-length branch other than the 1-tuple case; longer containers: bounded layer)",
]


# values(onlychanged=True) — which decides what pprint/script_repr print — compares each value with
# the default through Comparator: its container rules are part of this check as well (C03 contracts)
_c20_base = contracts


def contracts():
    from contracts import c03 as _c03
    extra = [_c03.compare_iterator_contract(), _c03.compare_mapping_contract()]
    for c in extra:
        c.prop = PROP
    return _c20_base() + extra


# what is printed comes from values(): get_value_generator and the class parameter table
_c20_base2 = contracts


def contracts():
    from contracts import c13 as _c13
    extra = [_c13.get_value_generator_dynamic_contract(), _c13.get_value_generator_contract("plain"), _c13.cls_parameters_contract()]
    for c in extra:
        c.prop = PROP
    return _c20_base2() + extra


# the table behind values()/pprint is invalidated for every descendant (verified for C13)
_c20_base3 = contracts


def contracts():
    from contracts import c13 as _c13
    c = _c13.clear_cache_contract()
    c.prop = PROP
    return _c20_base3() + [c]


NAME_REPLAY = '''import sys, os
sys.path.insert(0, os.environ.get('PYVC_REPO', '/repo'))
import param
bad = []
class Unit(param.Parameterized):
    gain = param.Number(1.0)
auto = Unit()
# explicit names that merely CONTAIN an auto-style name (class name + five digits) are not auto-generated
names = [auto.name + '_copy', auto.name + 'x', 'X' + auto.name, auto.name + ' ', 'my unit', 'Unit_00001', 'unit00001', 'Unit-00001',
         'Unit1', 'Unit42', 'Unit1234', 'Unit0']      # fewer than five digits: never generated
for n in names:
    u = Unit(name=n, gain=2.0)
    text = u.param.pprint()
    try:
        v = eval(text, {'Unit': Unit, 'param': param})
    except Exception as e:
        bad.append('pprint of name=%r: %r does not evaluate (%s)' % (n, text, e)); continue
    if v.name != n or v.gain != 2.0:
        bad.append('pprint of Unit(name=%r, gain=2.0) rebuilds name=%r gain=%r  (text: %s)' % (n, v.name, v.gain, text))
    if dict(u.param.values(onlychanged=True)).get('name') != n:
        bad.append('values(onlychanged=True) of Unit(name=%r) drops the explicit name' % (n,))
if bad:
    print('REPRODUCED: C20 an explicitly given name is not reproduced by the printed text:')
    for b in bad[:8]:
        print('  ', b)
    sys.exit(1)
print('NOT-REPRODUCED'); sys.exit(0)
'''

# probes that are not tied to one contract (run by the probe layer like the contracts' own scripts)
PROBES = [("explicit names that extend an auto-generated name", NAME_REPLAY)]


# the printed text follows the constructor signature of the object's OWN class, also when another class
# of the same name (re-definition in a session, classes made by a factory) was printed before
SIGNATURE_REPLAY = '''import sys, os, itertools
sys.path.insert(0, os.environ.get('PYVC_REPO', '/repo'))
import param
bad = []
def values_of(o):
    v = dict(o.param.values()); v.pop('name'); return v
def make(order, wdefault):
    # classes with positional constructor arguments in a given order and a keyword default
    src = ("""
class Point(param.Parameterized):
    x = param.Number(default=0)
    y = param.Number(default=0)
    w = param.Integer(default=3)
    tag = param.String(default='')
    def __init__(self, %s, %s, w=%d, **params):
        super().__init__(x=x, y=y, w=w, **params)
""") % (order[0], order[1], wdefault)
    ns = {'param': param, '__name__': 'pointmod'}
    exec(src, ns)
    return ns['Point']
made = []
for order, wdefault in itertools.product((('x', 'y'), ('y', 'x')), (3, 8)):
    made.append((order, wdefault, make(order, wdefault)))
for rounds in range(2):
    for order, wdefault, Point in made:
        for kw in ({}, {'w': 3}, {'w': 8}, {'tag': 'a\\\\b'}):
            o = Point(**dict({'x': 1, 'y': -2}, **kw))
            for how, text in (('pprint', o.param.pprint()), ('script_repr', param.script_repr(o, show_imports=False))):
                try:
                    import types; r = eval(text, {'Point': Point, 'param': param, 'pointmod': types.SimpleNamespace(Point=Point)})
                except Exception as e:
                    bad.append('%s of Point%r(w default %d) %r: %r does not evaluate (%r)' % (how, order, wdefault, kw, text, e)); continue
                if values_of(r) != values_of(o):
                    bad.append('%s of a Point with constructor (%s, %s, w=%d): %r rebuilds %r, the original holds %r'
                               % (how, order[0], order[1], wdefault, text, values_of(r), values_of(o)))
if bad:
    print('REPRODUCED: ' + bad[0]); sys.exit(1)
print('NOT-REPRODUCED'); sys.exit(0)
'''

PROBES = PROBES + [("the text follows the constructor signature of the object's own class", SIGNATURE_REPLAY)]


NAME_IS_CLASS_REPLAY = '''import sys, os
sys.path.insert(0, os.environ.get('PYVC_REPO', '/repo'))
import param
class Unit(param.Parameterized):
    gain = param.Number(1.0)
u = Unit(name='Unit', gain=2.0)
text = u.param.pprint()
v = eval(text, {'Unit': Unit})
if v.name != 'Unit':
    print("an explicit name equal to the class name is not printed: %s rebuilds name=%r" % (text, v.name))
    print('REPRODUCED'); sys.exit(1)
print('NOT-REPRODUCED'); sys.exit(0)
'''

PROBES = PROBES + [("an explicit name equal to the class name", NAME_IS_CLASS_REPLAY)]



# ---------------------------------------------------------------------------------------------
# concrete probe: constructors with keyword-only arguments
# ---------------------------------------------------------------------------------------------
KWONLY_REPLAY = '''import sys, os, itertools
sys.path.insert(0, os.environ.get('PYVC_REPO', '/repo'))
import param
bad = []
def values_of(o):
    v = dict(o.param.values()); v.pop('name'); return v
SIGS = {'gain=1, *, channel': "gain=gain, channel=channel", 'gain=1, *, channel, mode=0': "gain=gain, channel=channel, mode=mode",
        '*, channel, gain=1': "gain=gain, channel=channel", 'channel, *, gain=1, mode=1': "gain=gain, channel=channel, mode=mode"}
for sig, fwd in SIGS.items():
    src = ("""
class Probe(param.Parameterized):
    gain = param.Number(default=0)
    channel = param.Integer(default=0)
    mode = param.Integer(default=0)
    def __init__(self, %s, **params):
        super().__init__(%s, **params)
""") % (sig, fwd)
    ns = {'param': param, '__name__': 'probemod'}
    exec(src, ns)
    Probe = ns['Probe']
    import inspect
    kwonly = inspect.getfullargspec(Probe.__init__).kwonlyargs
    for gain, channel, mode in itertools.product((1, -2, 0), (1, 0, 5), (0, 1)):
        kw = {'gain': gain, 'channel': channel}
        if 'mode' in sig: kw['mode'] = mode
        elif mode: continue
        o = Probe(**kw)
        # class of the case: some keyword-only argument holds exactly its Parameter's default (then the text
        # leaves it out like any unchanged Parameter — the known weakness), or none does
        tag = 'keyword-only argument at its Parameter default' if any(kw[a] == Probe.param[a].default for a in kwonly) else 'no keyword-only argument at its Parameter default'
        for how, text in (('pprint', o.param.pprint()), ('script_repr', param.script_repr(o, show_imports=False))):
            try:
                import types; r = eval(text, {'Probe': Probe, 'param': param, 'probemod': types.SimpleNamespace(Probe=Probe)})
            except Exception as e:
                bad.append('[%s] %s of Probe(%s) built with %r: %r does not evaluate (%r)' % (tag, how, sig, kw, text, e)); continue
            if values_of(r) != values_of(o):
                bad.append('[%s] %s of Probe(%s) built with %r: %r rebuilds %r, the original holds %r' % (tag, how, sig, kw, text, values_of(r), values_of(o)))
if bad:
    bad.sort(key=lambda b: b.startswith('[keyword-only argument at'))
    print('REPRODUCED:'); print(bad[0]); sys.exit(1)
print('NOT-REPRODUCED'); sys.exit(0)
'''

PROBES = PROBES + [("constructors with keyword-only arguments", KWONLY_REPLAY)]
