"""Shared heap model of the watcher-dispatch state for the contracts of C03–C05 and C14.

A Parameterized object ``o`` is a heap object with ``_param__private`` (initialized, values, refs,
watchers, …, ``parameters_state`` = {'BATCH_WATCH', 'TRIGGER', 'events', 'watchers'}) and the
``.param`` accessor (a real ``Parameters`` object: its four state properties and ``self_or_cls`` are
*executed from /repo*, not assumed).

User code (bodies of ``with`` blocks, watcher callbacks) is a havoc under the **rely** of
DESIGN.md §3.4: BATCH_WATCH and TRIGGER are unchanged across it, the queues only grow (and are
untouched when no batch is open); it may raise.
"""
import ast

import z3

from pyvc import spec as S
from pyvc import values as vm
from pyvc.engine import Raise
from pyvc.values import BoolV, ClsV, Conc, FuncV, Ref, Sym, TupV


class World:
    """Symbolic Parameterized object with dispatcher state."""

    def __init__(self, I, st, label="o", initialized=None, cls="Parameterized"):
        U = I.U
        self.I = I
        self.obj = I.alloc_obj(st, cls, lazy=True, label=label)
        self.private = I.alloc_obj(st, "_InstancePrivate", lazy=True, label=label + ".private")
        h = st.heap[self.obj.oid]
        h.fields["_param__private"] = self.private
        h.init["_param__private"] = self.private
        self.bw0 = Sym(U.fresh("BATCH_WATCH0"))
        self.tr0 = Sym(U.fresh("TRIGGER0"))
        st.pc += [S.is_bool(I, self.bw0.t), S.is_bool(I, self.tr0.t)]
        self.ev_seq0 = U.fresh_seq("events0")
        self.ws_seq0 = U.fresh_seq("watchers0")
        self.events = I.alloc_list(st, self.ev_seq0)
        self.watchers = I.alloc_list(st, self.ws_seq0)
        self.state = I.alloc_dict(st)
        for k, v in (("BATCH_WATCH", self.bw0), ("TRIGGER", self.tr0), ("events", self.events),
                     ("watchers", self.watchers)):
            I.dict_store(st, self.state, Conc(k), v)
        p = st.heap[self.private.oid]
        p.fields["parameters_state"] = self.state
        p.init["parameters_state"] = self.state
        self.init0 = Sym(U.fresh("initialized0")) if initialized is None else initialized
        if initialized is None:
            st.pc.append(S.is_bool(I, self.init0.t))
        p.fields["initialized"] = self.init0
        p.init["initialized"] = self.init0
        # the `.param` accessor: a real Parameters object
        self.param = I.alloc_obj(st, "Parameters", lazy=False, label=label + ".param")
        ph = st.heap[self.param.oid]
        ph.fields["cls"] = ClsV(cls)
        ph.fields["self"] = self.obj
        h.fields["param"] = self.param
        h.init["param"] = self.param

    # -- reading the current state -------------------------------------------------------
    def get(self, st, key):
        return self.I.dict_load_c(st, self.state, key)

    def bw(self, st):
        return self.I.term(self.get(st, "BATCH_WATCH"))

    def tr(self, st):
        return self.I.term(self.get(st, "TRIGGER"))

    def ev_seq(self, st):
        v = self.get(st, "events")
        return st.heap[v.oid].seq if isinstance(v, Ref) else None

    def ws_seq(self, st):
        v = self.get(st, "watchers")
        return st.heap[v.oid].seq if isinstance(v, Ref) else None

    def initialized(self, st):
        return self.I.term(st.heap[self.private.oid].fields["initialized"])


def install_flush_contract(I, world, may_raise=True):
    """Contract of Parameters._batch_call_watchers (the flush) as seen by its callers: records the
    call (with the BATCH_WATCH value at call time), empties both queues, may propagate a watcher's
    exception.  (The flush itself is verified by its own contract.)"""
    def flush(I, st, fv, args, kwargs, ctx):
        rec = st.ghost.setdefault("flushes", [])
        st.ghost["flushes"] = rec + [(world.bw(st), world.ev_seq(st))]
        e = I.alloc_list(st, z3.Empty(vm.SeqV))
        w = I.alloc_list(st, z3.Empty(vm.SeqV))
        I.dict_store(st, world.state, Conc("events"), e)
        I.dict_store(st, world.state, Conc("watchers"), w)
        out = [(st, Conc(None))]
        if may_raise:
            q = st.fork()
            # a raising watcher: the queues were taken over by the flush before the call
            out.append((q, Raise("$User", origin="flush")))
        return out
    I.contracts["Parameters._batch_call_watchers"] = flush


def install_body(I, world, name="__BODY__", grows=True):
    """The body of a `with` block / a user callback: havoc under the rely."""
    def body(I, st, fv, args, kwargs, ctx):
        U = I.U
        ev, ws = world.get(st, "events"), world.get(st, "watchers")
        if grows and isinstance(ev, Ref) and isinstance(ws, Ref):
            more_e, more_w = U.fresh_seq("body_events"), U.fresh_seq("body_watchers")
            bw = world.bw(st) == U.TRUE
            he, hw = st.heap[ev.oid], st.heap[ws.oid]
            he.seq = z3.If(bw, z3.Concat(he.seq, more_e), he.seq)
            hw.seq = z3.If(bw, z3.Concat(hw.seq, more_w), hw.seq)
            he.fields.pop("$items", None)
            hw.fields.pop("$items", None)
        st.ghost["body_runs"] = st.ghost.get("body_runs", 0) + 1
        st.ghost["bw_in_body"] = st.ghost.get("bw_in_body", []) + [world.bw(st)]
        q = st.fork()
        return [(st, Conc(None)), (q, Raise("$User", origin="body"))]
    I.lib[name] = body
    return FuncV("builtin", name=name, self=None)


def with_stmt(call_src, body_name="__BODY__"):
    """AST of  `with <call_src>: __BODY__()`"""
    mod = ast.parse("with %s:\n    %s()\n" % (call_src, body_name))
    return mod.body[0]


def run_with(I, st, stmt, env, module, loops=None, obligations=None):
    """Execute a synthesized with-statement in `env`; -> [(state, outcome)]"""
    st.env = dict(env)
    ctx = {"module": module, "owner": None, "selfname": None, "qual": "<harness>", "verifying": None,
           "loops": loops or {}, "opts": {}, "obligations": obligations, "fnode": None}
    return I.exec_stmt(stmt, st, ctx)
