import param, warnings, datetime as dt, json, math
warnings.simplefilter('ignore')
def t(label, f):
    try:
        r = f()
        print(f"{label}: OK -> {r!r}")
    except Exception as e:
        print(f"{label}: RAISE {type(e).__name__}: {str(e)[:150]}")

# C01 Bytes allow_None dropped
t("Bytes(allow_None=True).allow_None", lambda: param.Bytes(default=b'', allow_None=True).allow_None)
class B(param.Parameterized):
    b = param.Bytes(default=b'x', allow_None=True)
t("set Bytes None", lambda: setattr(B(), 'b', None))
# Tuple length ignored
t("Tuple((1,2),length=3)", lambda: param.Tuple(default=(1,2), length=3).length)
# CalendarDateRange accepts list
class C(param.Parameterized):
    r = param.CalendarDateRange(default=(dt.date(2020,1,1), dt.date(2020,1,2)))
    dr = param.DateRange(default=(dt.date(2020,1,1), dt.date(2020,1,2)))
    n = param.Number(default=1, bounds=(0,10), inclusive_bounds=(True, False))
    i = param.Integer(default=1, bounds=(0,10))
    rg = param.Range(default=(1,2), bounds=(0,10), inclusive_bounds=(False,True))
c = C()
t("CDR list", lambda: setattr(c, 'r', [dt.date(2020,1,1), dt.date(2020,1,2)]))
t("CDR datetime", lambda: setattr(c, 'r', (dt.datetime(2020,1,1), dt.datetime(2020,1,2))))
t("CDR len3", lambda: setattr(c, 'r', (dt.date(2020,1,1), dt.date(2020,1,2), dt.date(2020,1,3))))
t("Number nan", lambda: setattr(c, 'n', float('nan')))
t("Number 10 excl", lambda: setattr(c, 'n', 10))
t("Number True", lambda: setattr(c, 'n', True))
t("Integer True", lambda: setattr(c, 'i', True))
t("Range nan", lambda: setattr(c, 'rg', (float('nan'), 5)))
t("Range (0,5) excl low", lambda: setattr(c, 'rg', (0, 5)))
t("Range (5,1)", lambda: setattr(c, 'rg', (5, 1)))
t("Range (None,1)", lambda: setattr(c, 'rg', (None, 1)))
class D(param.Parameterized):
    n = param.Number(default=1, bounds=(0,10))
t("Number nan incl", lambda: setattr(D(), 'n', float('nan')))
class E(param.Parameterized):
    rg = param.Range(default=(1,2), bounds=(0,10))
t("Range nan incl", lambda: setattr(E(), 'rg', (float('nan'), 5)))
t("Range inf incl", lambda: setattr(E(), 'rg', (1, float('inf'))))
