import sys
sys.path.insert(0,'/repo')
import param, warnings, json, datetime as dt, copy, pickle
warnings.simplefilter('ignore')
def t(label, f):
    try:
        r = f(); print(f"{label}: OK -> {r!r}")
    except Exception as e:
        print(f"{label}: RAISE {type(e).__name__}: {str(e)[:160]}")
print("== C17")
calls=[]
class Sub(param.Parameterized):
    x = param.Number(0)
class Par(param.Parameterized):
    a = param.ClassSelector(class_=Sub, allow_None=True)
    n = param.Number(1, bounds=(0,10))
    l = param.List([1])
    @param.depends('a.x', watch=True)
    def cb(self): calls.append(('cb', self.name, self.a.x))
    @param.depends('n', watch=True)
    def cn(self): calls.append(('cn', self.name, self.n))
p=Par(a=Sub(x=1), name='orig'); p.param.n.bounds=(0,5); p.extra=[1]
for how,fn in [('deepcopy',copy.deepcopy),('pickle',lambda o: pickle.loads(pickle.dumps(o)))]:
    calls.clear()
    try:
        q=fn(p)
    except Exception as e:
        print(how,'RAISE',type(e).__name__,str(e)[:200]); continue
    with param.edit_constant(q): q.name='copy'
    print(how,'values eq:', q.n==p.n, q.l==p.l, q.a.x==p.a.x, 'bounds', q.param.n.bounds, 'extra', q.extra, q.extra is p.extra, 'sub shared?', q.a is p.a, 'l shared', q.l is p.l)
    q.n=3; print('  after q.n=3:', calls, 'p.n', p.n); calls.clear()
    q.a.x=5; print('  after q.a.x=5:', calls, 'p.a.x', p.a.x); calls.clear()
    p.a.x=7; print('  after p.a.x=7:', calls, 'q.a.x', q.a.x); calls.clear()
    q.param.n.bounds=(0,9); print('  bounds indep:', p.param.n.bounds)
    print('  watchers on q.a:', {k:[(w.inst.name if w.inst is not None else None, getattr(getattr(w.fn,'keywords',{}).get('function',None),'__self__',None) and getattr(w.fn,'keywords',{}).get('function').__self__.name) for w in v.get('value',[])] for k,v in q.a._param__private.watchers.items()})
print("== C18")
class S(param.Parameterized):
    sel = param.Selector(objects={'a':1,'b':2,'c':3})
    lsel = param.Selector(objects=[1,2,3])
s=S()
o=s.param.sel.objects
print(' pop(0) returns:', o.pop(0), ' names:', s.param.sel.names, ' objs:', s.param.sel._objects, 'range', s.param.sel.get_range())
s=S(); print(" pop('a'):", s.param.sel.objects.pop('a'), s.param.sel.names, s.param.sel._objects)
s=S(); print(' list pop():', s.param.lsel.objects.pop(), s.param.lsel._objects)
s=S(); s.param.sel.objects.remove(2); print(' remove:', s.param.sel.names, s.param.sel._objects)
s=S(); s.param.sel.objects.append(4); print(' append on dict:', s.param.sel.names, s.param.sel._objects, s.param.sel.get_range())
s=S(); s.param.sel.objects.insert(0, 0); print(' insert on dict:', s.param.sel.names, s.param.sel._objects)
s=S(); s.param.sel.objects[0] = 9; print(' setitem idx on dict:', s.param.sel.names, s.param.sel._objects)
s=S(); s.param.sel.objects['a'] = 9; print(" setitem key:", s.param.sel.names, s.param.sel._objects); t(' accepts 9', lambda: setattr(s,'sel',9)); t(' rejects 1', lambda: setattr(s,'sel',1))
s=S(); s.param.sel.objects.update({'z':26}); print(" update:", s.param.sel.names, s.param.sel._objects)
s=S(); s.param.sel.objects.clear(); print(" clear:", s.param.sel.names, s.param.sel._objects)
s=S(); s.param.sel.objects.extend([7,8]); print(" extend on dict:", s.param.sel.names, s.param.sel._objects, s.param.sel.get_range())
s=S(); s.param.lsel.objects['k'] = 5; print(" list-declared setitem key:", s.param.lsel.names, s.param.lsel._objects)
s=S(); ev=[]; s.param.watch(lambda e: ev.append((e.old,e.new)), 'sel', what='objects'); s.param.sel.objects.append(4); s.param.sel.objects['q']=5; s.param.sel.objects.update({'u':1,'v':2}); print(' objects watcher events:', len(ev))
s=S(); s.param.sel.objects = [5,6]; print(" wholesale:", s.param.sel.names, s.param.sel._objects); t(' accepts 5', lambda: setattr(s,'sel',5))
