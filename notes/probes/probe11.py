import sys
sys.path.insert(0,'/repo')
import param, warnings, numbergen
warnings.simplefilter('ignore')
def t(label, f):
    try:
        r = f(); print(f"{label}: OK -> {r!r}")
    except Exception as e:
        print(f"{label}: RAISE {type(e).__name__}: {str(e)[:160]}")
print("== C19")
param.Dynamic.time_dependent = True
tm = param.Dynamic.time_fn
class G(param.Parameterized):
    v = param.Number(default=numbergen.UniformRandom(name='u', seed=3, time_dependent=True))
g1=G(); g2=G()
tm(0)
table={}
for tt in [0,1,2,1,0,5,-1,3,-1,0]:
    tm(tt); a=g1.v; b=g1.v; c=g2.v; i=g1.param.inspect_value('v')
    table.setdefault(tt,set()).add((a,b,c,i))
print({k:len(v) for k,v in table.items()})
print(table[-1])
# fresh instance first read at time -1
tm(-1); g3=G(); t(' first read at t=-1', lambda: g3.v); tm(0); g3.v; tm(-1); t(' second visit at t=-1', lambda: g3.v)
tm(5)
with tm as tcx:
    tcx(9); x=g1.v
print(' time restored:', tm(), ' value at 5 consistent:', g1.v in {a for (a,b,c,i) in table[5]})
g1.param._state_push(); tm(7); g1.v; g1.param._state_pop(); tm(5) ; print(' after pop inspect:', g1.param.inspect_value('v') in {a for (a,b,c,i) in table[5]})
# inspect does not advance
tm(11); i1=g1.param.inspect_value('v'); v=g1.v; print(' inspect before read at new time returns old value (no advance):', i1!=v)
param.Dynamic.time_dependent = False
print("== C20")
class Q(param.Parameterized):
    s = param.String('x'); n=param.Number(1.0); l=param.List([]); t=param.Tuple((1,2)); d=param.Dict({}); b=param.Boolean(False)
    sub = param.ClassSelector(class_=param.Parameterized, default=None)
import math
def rt(o, fn):
    txt = fn(o)
    new = eval(txt, {'Q':Q,'inf':math.inf,'nan':math.nan,'__main__':sys.modules['__main__'], 'R':globals().get('R')})
    return txt, {k:(v, new.param.values()[k]) for k,v in o.param.values().items() if k!='name' and repr(v)!=repr(new.param.values()[k])}
for kw in [dict(s="a'b\"c\n\\"), dict(n=-1.5), dict(n=float('inf')), dict(l=[1,'a',[2]]), dict(t=(3,4)), dict(d={'k':(1,)}), dict(name='explicit'), dict(sub=Q(s='inner')), dict(l=[Q(n=2)])]:
    t(f" pprint {kw}", lambda: rt(Q(**kw), lambda o:o.param.pprint()))
class R(param.Parameterized):
    a = param.Number(1); b=param.String('z'); c=param.Number(3)
    def __init__(self, a, b='z', **params):
        super().__init__(a=a, b=b, **params)
t(" positional ctor", lambda: rt(R(5, c=4), lambda o:o.param.pprint()))
t(" positional ctor b changed", lambda: rt(R(5, 'q'), lambda o:o.param.pprint()))
t(" script_repr", lambda: param.script_repr(Q(n=2, l=[1])))
