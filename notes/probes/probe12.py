import sys
sys.path.insert(0,'/repo')
import param, warnings
warnings.simplefilter('ignore')
def t(label, f):
    try:
        r = f(); print(f"{label}: OK -> {r!r}")
    except Exception as e:
        print(f"{label}: RAISE {type(e).__name__}: {str(e)[:200]}")
print("== C20 1-tuple")
class Q(param.Parameterized):
    t1 = param.Tuple((1,)); l=param.List([]); p = param.Parameter(None)
    neg = param.Number(1, precedence=-1)
q=Q(t1=(5,)); txt=q.param.pprint(); print(txt); t(' eval', lambda: eval(txt).t1)
q=Q(l=[(5,)]); txt=q.param.pprint(); print(txt); t(' eval', lambda: eval(txt).l)
q=Q(p=()); txt=q.param.pprint(); print(txt); t(' eval', lambda: eval(txt).p)
q=Q(p={1,2}); txt=q.param.pprint(); print(txt); t(' eval', lambda: eval(txt).p)
q=Q(neg=5); txt=q.param.pprint(); print(txt)
print("== C11")
class A(param.Parameterized):
    x = param.Number(5, bounds=(0,10), doc='A doc', step=2)
class B(A):
    x = param.Number(bounds=(0,20))
class C(A):
    x = param.Number(default=7, doc='C doc')
class D(B, C):
    x = param.Number(softbounds=(1,2))
p=D.param.x; print(' D:', p.default, p.bounds, p.doc, p.step, p.softbounds, [k.__name__ for k in D.__mro__[:4]])
def mk():
    class E(A):
        x = param.Number(bounds=(6,10))   # inherited default 5 violates
    return E
t(' conflicting bounds', mk)
def mk2():
    class E(A):
        x = param.Integer()   # type change; inherited default 5 ok
    return E.param.x.default
t(' type change ok', mk2)
def mk3():
    class A3(param.Parameterized):
        x = param.Number(5.5)
    class E(A3):
        x = param.Integer()
    return E.param.x.default
t(' type change invalid default', mk3)
def mk4():
    class A4(param.Parameterized):
        x = param.Number(None, allow_None=True)
    class E(A4):
        x = param.Number(bounds=(0,1))   # default None inherited, allow_None recomputed?
    return E.param.x.default, E.param.x.allow_None
t(' None default inherited + allow_None', mk4)
def mk5():
    class A5(param.Parameterized):
        x = param.List([1], instantiate=True)
    class M(A5): pass
    class E(M):
        x = param.List(instantiate=False)
    return E.param.x.instantiate, E.param.x.default
t(' instantiate inherited', mk5)
def mk6():
    class A6(param.Parameterized):
        x = param.Number(5)
    A6.param.add_parameter('y', param.Number(50, bounds=(0,10)))
t(' add_parameter invalid', mk6)
def mk7():
    class A7(param.Parameterized):
        x = param.Number(5, bounds=(0,10))
    class E(A7): pass
    E.param.add_parameter('x', param.Number(bounds=(6,7)))
    return E.param.x.default
t(' add_parameter override invalid merged', mk7)
def mk8():
    class A8(param.Parameterized):
        x = param.Number(5, bounds=(0,10))
    class E(A8):
        x = param.Number(default=50, bounds=None)
    return E.param.x.bounds
t(' explicit None bounds (None is a value or unspecified?)', mk8)
def mk9():
    class A9(param.Parameterized):
        x = param.String('abc', regex='^a')
    class E(A9):
        x = param.String(regex='^b')
    return E.param.x.default
t(' regex conflict', mk9)
def mk10():
    class A10(param.Parameterized):
        x = param.Selector(objects=[1,2,3], default=2)
    class E(A10):
        x = param.Selector(objects=[5,6])
    return E.param.x.default, E.param.x.objects
t(' selector objects conflict', mk10)
def mk11():
    class A11(param.Parameterized):
        x = param.Number(5, bounds=(0,10))
    class M(A11):
        x = param.Number(bounds=(0,10))
    class E(M):
        x = param.Number(default=50)
    return E.param.x.bounds
t(' default conflicts with inherited bounds (equal tuples different identity)', mk11)
