import sys
sys.path.insert(0,'/repo')
import param, warnings
warnings.simplefilter('ignore')
calls=[]
class A(param.Parameterized):
    x = param.Number(0); y=param.Number(0)
    @param.depends('x', watch=True)
    def m(self): calls.append('A.m')
class P1(A): pass
class P2(A):
    @param.depends('y', watch=True)
    def m(self): calls.append('P2.m')
class D(P1, P2): pass
print([k.__name__ for k in D.__mro__], D.m.__qualname__, [ (d[0], [p.name for p in d[3]]) for d in D.param._depends['watch']])
d=D(); d.x=1; print(' after x (expect none, P2.m depends on y):', calls); d.y=1; print(' after y (expect P2.m):', calls)
print(' method_dependencies:', [p.name for p in d.param.method_dependencies('m')])
# intermediate undecorated override then re-decorated
calls.clear()
class U(A):
    def m(self): calls.append('U.m')
class V(U):
    @param.depends('y', watch=True)
    def m(self): calls.append('V.m')
v=V(); v.x=1; v.y=1; print(' V:', calls)
calls.clear()
class W(U): pass
w=W(); w.x=1; print(' W (undecorated inherited, expect none):', calls)
# two watchers for same method through multiple inheritance duplicates?
calls.clear()
class Q1(A):
    @param.depends('x', watch=True)
    def m(self): calls.append('Q1.m')
class Q2(A):
    @param.depends('x', watch=True)
    def m(self): calls.append('Q2.m')
class Q(Q1,Q2): pass
q=Q(); q.x=1; print(' Q:', calls)
# function form
calls.clear()
a=A()
@param.depends(a.param.x, a.param.y, watch=True)
def fn(x,y): calls.append(('fn',x,y))
a.param.update(x=3,y=3); print(' fn both:', calls); a.x=3; print(' same value:', calls)
