import sys
sys.path.insert(0,'/repo')
import param, warnings
warnings.simplefilter('ignore')
import logging; logging.disable(logging.CRITICAL)
class S(param.Parameterized):
    sel = param.Selector(objects={'a':1,'b':2,'c':3})
    lsel = param.Selector(objects=[1,2,3])
for label, op in [("['q']=5", lambda o: o.__setitem__('q',5)), ("update", lambda o: o.update({'u':7,'v':8})), ("pop('a')", lambda o:o.pop('a')), ("remove(2)", lambda o:o.remove(2)), ("clear", lambda o:o.clear())]:
    s=S(); ev=[]; s.param.watch(lambda e: ev.append((e.old,e.new)), 'sel', what='objects'); op(s.param.sel.objects); print(label, len(ev), ev[:1])
for label, op in [("append", lambda o: o.append(5)), ("insert", lambda o: o.insert(0,9)), ("extend", lambda o:o.extend([7,8])), ("pop()", lambda o:o.pop()), ("[0]=9", lambda o:o.__setitem__(0,9)), ("remove", lambda o:o.remove(2)), ("clear", lambda o:o.clear())]:
    s=S(); ev=[]; s.param.watch(lambda e: ev.append((e.old,e.new)), 'lsel', what='objects'); op(s.param.lsel.objects); print('list', label, len(ev), ev[:1])
# class-level watcher
ev=[]; S.param.watch(lambda e: ev.append(1), 'lsel', what='objects'); S.param.lsel.objects.append(4); print('class-level', len(ev))
# C12: subclass copy-on-write sharing
class A(param.Parameterized):
    sel = param.Selector(objects=[1,2])
class B(A): pass
B.sel = 2
B.param.sel  # stale cache? use static
import inspect
inspect.getattr_static(B,'sel').objects.append(3)
print('A objects after B mutation:', list(A.param.sel.objects))
