import sys
sys.path.insert(0,'/repo')
import param, warnings
warnings.simplefilter('ignore')
print("== C02 class route copy-on-write before validation")
class A(param.Parameterized):
    x = param.Number(1, bounds=(0,10))
class B(A): pass
A.x = 2; print(' B follows A:', B.x)
try: B.x = 99
except ValueError: print(' rejected')
A.x = 3; print(' B.x after A.x=3 (expect 3 if no effect):', B.x, "'x' in B.__dict__:", 'x' in B.__dict__)
print("== C04 mixed onlychanged in batch")
class P(param.Parameterized):
    a = param.Number(0); b=param.Number(0)
log=[]
p=P()
p.param.watch(lambda *ev: log.append(('w1',[(e.name,e.old,e.new,e.type) for e in ev])), ['a','b'], onlychanged=True)
p.param.watch(lambda *ev: log.append(('w2',[(e.name,e.old,e.new,e.type) for e in ev])), ['b'], onlychanged=False)
with param.parameterized.batch_call_watchers(p):
    p.a=1; p.b=0
print(' ', log)
log.clear()
print("== C04 repeated assignment returning to original value in batch (onlychanged)")
p=P(); p.param.watch(lambda *ev: log.append(('w',[(e.name,e.old,e.new,e.type) for e in ev])), ['a'], onlychanged=True)
with param.parameterized.batch_call_watchers(p):
    p.a=1; p.a=0
print(' ', log)
log.clear()
print("== C14 as_uninitialized leak")
class K(param.Parameterized):
    c = param.Number(1, constant=True); n=param.Number(1, bounds=(0,5))
    def __init__(self, **kw):
        try: super().__init__(**kw)
        except ValueError: self.failed=True
k=K(n=99); print(' initialized:', k._param__private.initialized)
try: k.c = 5; print(' constant set allowed! c=', k.c)
except TypeError as e: print(' protected')
print("== C05 queued watcher raising after inner set")
p=P()
def qcb(*ev):
    p.b = 5
    raise RuntimeError('x')
p.param.watch(qcb, ['a'], queued=True)
p.param.watch(lambda *ev: log.append(('wb',[(e.name,e.old,e.new) for e in ev])), ['b'])
try: p.a=1
except RuntimeError: pass
print(' after raise: BATCH', p.param._BATCH_WATCH, 'queued events', len(p.param._events), log)
p.a=2 if False else None
