import sys
sys.path.insert(0,'/repo')
import param, warnings
warnings.simplefilter('ignore')
class K(param.Parameterized):
    s = param.Selector(objects=[1,2], check_on_set=False, constant=True)
k=K()
try: k.s = 99
except TypeError as e: print('rejected:', e)
print('objects after rejected assignment:', list(k.param.s.objects), 'class:', list(K.param.s.objects), 'value', k.s)
