import param, warnings, datetime as dt, json, math
warnings.simplefilter('ignore')
def t(label, f):
    try:
        r = f()
        print(f"{label}: OK -> {r!r}")
    except Exception as e:
        print(f"{label}: RAISE {type(e).__name__}: {str(e)[:150]}")

print("== C02")
class S(param.Parameterized):
    v = param.Parameter(default='a')
    w = param.Number(default=1)
class T(param.Parameterized):
    x = param.Number(default=1, bounds=(0,10), allow_refs=True)
    y = param.Number(default=2, allow_refs=True)
s = S(); s2 = S(w=3)
tt = T(x=s2.param.w)
print("linked x:", tt.x, tt._param__private.refs.keys())
# reject plain invalid value -> link must survive
t("set invalid plain", lambda: setattr(tt, 'x', 'bad'))
print("refs after rejected plain:", list(tt._param__private.refs))
s2.w = 4
print("x after source update (should be 4 if link survived):", tt.x)
# reject invalid-valued ref
tt2 = T(x=s2.param.w)
s3 = S(w=99)
t("set invalid-valued ref", lambda: setattr(tt2, 'x', s3.param.w))
print("refs after rejected ref is old?:", tt2._param__private.refs.get('x') is s2.param.w, "x=", tt2.x)
s3.w = 5
print("x after new-source update (should remain 4):", tt2.x)
s2.w = 6
print("x after old-source update (should be 6):", tt2.x)
print("watchers on s3:", s3._param__private.watchers)

print("== C03 sets")
from param.parameterized import Comparator
print("is_equal({0,8},{8,0})", Comparator.is_equal({0,8},{8,0}), {0,8}=={8,0}, list({0,8}), list({8,0}))
print("is_equal(1,True)", Comparator.is_equal(1,True))
print("is_equal(date, datetime)", Comparator.is_equal(dt.date(2020,1,1), dt.datetime(2020,1,1)))
print("is_equal((1,),[1])", Comparator.is_equal((1,),[1]))
print("is_equal({'a':1},{'a':1})", Comparator.is_equal({'a':1},{'a':1}))
import collections
print("is_equal(OrderedDict, dict)", Comparator.is_equal(collections.OrderedDict(a=1),{'a':1}))
print("is_equal(frozenset)", Comparator.is_equal(frozenset([1]),frozenset([1])))
print("is_equal(b'a',b'a')", Comparator.is_equal(b'a',b'a'))
print("is_equal(1.0, 1)", Comparator.is_equal(1.0,1), "nan", Comparator.is_equal(float('nan'),float('nan')))
