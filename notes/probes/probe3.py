import param, warnings
warnings.simplefilter('ignore')
class P(param.Parameterized):
    a = param.Number(default=0, bounds=(0,10))
    b = param.Number(default=0, bounds=(0,10))
    e = param.Event()
log=[]
def mk(name):
    def cb(*events): log.append((name,[(e.name,e.old,e.new,e.type) for e in events]))
    return cb
print("== C05: update with rejected value inside outer batch")
p=P(); p.param.watch(mk('w'), ['a','b'])
with param.parameterized.batch_call_watchers(p):
    try: p.param.update(a=1, b=99)
    except ValueError as ex: print('raised')
    print(" BATCH flag inside outer batch after failed update:", p.param._BATCH_WATCH)
    p.a = 2
    print(" log inside batch (should be empty):", log)
print(" log after:", log, "BATCH:", p.param._BATCH_WATCH)
print("== C05: update rejected, no outer batch: is a=1 announced by the time it raises?")
log.clear(); p=P(); p.param.watch(mk('w'), ['a','b'])
try: p.param.update(a=1, b=99)
except ValueError: pass
print(" log at raise:", log, "queued events:", p.param._events)
p.b = 3
print(" log after unrelated set:", log)
print("== C05: watcher raises during trigger")
log.clear(); p=P()
def boom(*ev): raise RuntimeError('boom')
w=p.param.watch(boom, ['a'])
try: p.param.trigger('a')
except RuntimeError: print(' raised')
print(" TRIGGER flag:", p.param._TRIGGER, "BATCH:", p.param._BATCH_WATCH)
p.param.unwatch(w)
p.param.watch(mk('oc'), ['a'], onlychanged=True)
p.a = p.a
print(" same-value set w/ onlychanged watcher (should be empty):", log)
print("== C05: watcher raises in batch flush")
log.clear(); p=P(); p.param.watch(boom, ['a'], precedence=0); p.param.watch(mk('w2'), ['b'], precedence=1)
try:
    with param.parameterized.batch_call_watchers(p):
        p.a=1; p.b=1
except RuntimeError: print(' raised')
print(" state after:", p.param._BATCH_WATCH, p.param._events, p.param._state_watchers, log)
p.b=2
print(" log after b=2:", log)
print("== C05: Event param mode after failing update")
log.clear(); p=P(); p.param.watch(mk('ev'), ['e'])
try: p.param.update(e=True, a=99)
except ValueError: print(' raised')
print(" e value:", p.e, "mode:", p.param.e._mode, "BATCH", p.param._BATCH_WATCH, log)
p.e = True
print(" e after set True:", p.e, log)
print("== C04: discard_events drops only inside")
log.clear(); p=P(); p.param.watch(mk('w'), ['a','b'])
with param.parameterized.batch_call_watchers(p):
    p.a=1
    with param.parameterized.discard_events(p):
        p.b=1
    p.a=2
print(" log:", log)
print("== C04: trigger inside batch")
log.clear(); p=P(); p.param.watch(mk('w'), ['a','b'])
with param.parameterized.batch_call_watchers(p):
    p.a=1
    p.param.trigger('b')
    print(" inside:", log)
print(" after:", log)
print("== C04 update ctx restore")
log.clear(); p=P(a=1)
with p.param.update(a=5):
    pass
print(" a restored:", p.a)
