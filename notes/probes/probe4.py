import param, warnings
warnings.simplefilter('ignore')
print("== C06 override duplicates?")
calls=[]
class A(param.Parameterized):
    x = param.Number(0); y = param.Number(0)
    @param.depends('x', watch=True)
    def m(self): calls.append('A.m')
class B(A):
    @param.depends('y', watch=True)
    def m(self): calls.append('B.m')
b=B(); b.x=1; print(" after x:", calls); b.y=1; print(" after y:", calls)
calls.clear()
class C(A):
    def m(self): calls.append('C.m')   # undecorated override
c=C(); c.x=1; print(" undecorated override called?:", calls)
calls.clear()
class D(A):
    @param.depends('x', 'y', watch=True)
    def m(self): calls.append('D.m')
d=D(); d.param.update(x=5,y=5); print(" D update both:", calls)
calls.clear()
# method depending on another method
class M(param.Parameterized):
    x = param.Number(0); y=param.Number(0)
    @param.depends('x')
    def f(self): pass
    @param.depends('f','y', watch=True)
    def g(self): calls.append('g')
m=M(); m.x=1; print(" g via f:", calls); m.param.update(x=2,y=2); print(" g after update both:", calls)
calls.clear()
# diamond
class X1(A):
    @param.depends('x', watch=True)
    def m(self): calls.append('X1.m')
class X2(A):
    pass
class X3(X1, X2): pass
x3=X3(); x3.x=1; print(" diamond:", calls)
calls.clear()
class Slot(param.Parameterized):
    p = param.Number(1, bounds=(0,10))
    @param.depends('p:bounds', watch=True)
    def s(self): calls.append('s')
s=Slot(); s.param.p.bounds=(0,5); print(" slot dep:", calls); s.param.p.bounds=(0,5); print(" same again:", calls)
calls.clear()
class OI(param.Parameterized):
    x = param.Number(0)
    @param.depends('x', watch=True, on_init=True)
    def i(self): calls.append('i')
class OI2(OI):
    @param.depends('x', watch=True, on_init=True)
    def i(self): calls.append('i2')
OI2(); print(" on_init override:", calls)

print("== C07 subobject")
calls.clear()
class Sub(param.Parameterized):
    x = param.Number(0); y=param.Number(0)
class Par(param.Parameterized):
    a = param.ClassSelector(class_=Sub, allow_None=True)
    @param.depends('a.x', 'a.y', watch=True)
    def cb(self): calls.append(('cb', self.a.x if self.a else None, self.a.y if self.a else None))
s1=Sub(x=1,y=1); p=Par(a=s1)
s1.x=2; print(" leaf x:", calls); calls.clear()
s2=Sub(x=2,y=5)
p.a=s2; print(" replace with same x, different y (expect 1 call):", calls); calls.clear()
s1.x=9; print(" detached change (expect none):", calls); calls.clear()
print(" watchers left on detached s1:", {k:len(v.get('value',[])) for k,v in s1._param__private.watchers.items()})
s3=Sub(x=2,y=5); p.a=s3; print(" replace with equal (expect none):", calls); calls.clear()
s3.y=6; print(" leaf y on attached:", calls); calls.clear()
p.a=None; print(" detach to None:", calls); calls.clear()
s3.y=7; print(" change on detached s3:", calls); calls.clear()
p.a=Sub(x=0,y=0); print(" attach from None:", calls)
