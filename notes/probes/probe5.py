import param, warnings, asyncio
warnings.simplefilter('ignore')
from param import rx, bind
print("== C08")
class Src(param.Parameterized):
    v = param.Number(1); w=param.Number(10)
class Tgt(param.Parameterized):
    p = param.Parameter(allow_refs=True)
    q = param.Parameter(allow_refs=True)
    n = param.Parameter(allow_refs=True, nested_refs=True)
s=Src(); s2=Src()
t=Tgt(p=s.param.v, q=s2.param.w)
s.v=2; s2.w=20; print(" ctor links:", t.p, t.q)
t.p = s2.param.v   # relink later
s2.v=5; print(" after relink p follows s2.v:", t.p); s2.w=30; print(" q still follows:", t.q)
s.v=99; print(" old source no effect:", t.p)
print(" watchers on old source s:", {k:len(v.get('value',[])) for k,v in s._param__private.watchers.items()})
t.p = 7; s2.v=6; print(" after override p:", t.p, " q link alive:", (s2.param.update(w=31), t.q)[1])
print(" watchers on s2:", {k:len(v.get('value',[])) for k,v in s2._param__private.watchers.items()})
# link made later with a bound function depending on function (recursive deps)
f = bind(lambda a: a*2, s.param.v)
g = bind(lambda b: b+1, f)
t2=Tgt(); t2.p = g
s.v=10; print(" later link via nested bind (expect 21):", t2.p)
t3=Tgt(p=g); s.v=11; print(" ctor link via nested bind (expect 23):", t3.p)
# rx reference assigned later
r = rx(1); e = r+1
t4=Tgt(); t4.p = e; r.rx.value=5; print(" later rx link (expect 6):", t4.p)
# nested refs later
t5=Tgt(); t5.n=[s.param.v, 3]; s.v=12; print(" nested later (expect [12,3]):", t5.n)
t6=Tgt(n={'k': s.param.v}); s.v=13; print(" nested ctor:", t6.n)
# update ctx restores links
t7=Tgt(p=s.param.v)
with t7.param.update(p=100): pass
s.v=14; print(" link restored after update ctx (expect 14):", t7.p)
print("== C09 reflected ops")
a=rx(2)
for name,fn in [('1<<a',lambda:(1<<a).rx.value),('16>>a',lambda:(16>>a).rx.value),('3-a',lambda:(3-a).rx.value),('2**a',lambda:(2**a).rx.value),('7%a',lambda:(7%a).rx.value),('7//a',lambda:(7//a).rx.value),('divmod(7,a)',lambda:divmod(7,a).rx.value),('5&a',lambda:(5&a).rx.value),('5|a',lambda:(5|a).rx.value),('5^a',lambda:(5^a).rx.value),('a<<1',lambda:(a<<1).rx.value)]:
    try: print(' ',name, fn())
    except Exception as ex: print(' ',name,'RAISE',type(ex).__name__, ex)
class MM:
    def __init__(s,v): s.v=v
    def __matmul__(s,o): return ('mm', s.v, getattr(o,'v',o))
    def __rmatmul__(s,o): return ('rmm', getattr(o,'v',o), s.v)
try: print('  MM@rx', (rx(MM(1)) @ MM(2)).rx.value)
except Exception as ex: print('  rx@MM RAISE', ex)
try: print('  obj@rx', (5 @ rx(MM(2))).rx.value)
except Exception as ex: print('  5@rx RAISE', type(ex).__name__, ex)
print("== C09 cache coherence")
x=rx(1); y=rx(10)
e=(x+y)*x
print(' ',e.rx.value); x.rx.value=2; print('  expect 24:', e.rx.value); y.rx.value=0; print('  expect 4:', e.rx.value)
c=rx(True); w=c.rx.where(x, y)
print('  where:', w.rx.value); x.rx.value=3; print('  expect 3:', w.rx.value); c.rx.value=False; print('  expect 0:', w.rx.value); y.rx.value=8; print('  expect 8:', w.rx.value); x.rx.value=4; c.rx.value=True; print('  expect 4:', w.rx.value)
# where with expression args
w2 = c.rx.where(x+1, y+1); print('  where expr', w2.rx.value); x.rx.value=10; print('  expect 11:', w2.rx.value)
# error recovery
d=rx(1); q = 10/d
print('  ', q.rx.value); d.rx.value=0
try: q.rx.value
except ZeroDivisionError: print('  raised')
d.rx.value=5; print('  recovered expect 2.0:', q.rx.value)
# input used both as root and arg
z=rx(3); zz = z + z; print('  ', zz.rx.value); z.rx.value=4; print('  expect 8', zz.rx.value)
# Parameter-based
class P(param.Parameterized):
    a = param.Number(1)
p=P(); pe = p.param.a.rx() + x; print('  ', pe.rx.value); p.a=5; print('  expect 15:', pe.rx.value)
seen=[]
pe.rx.watch(seen.append); p.a=6; x.rx.value=11; print('  watch seen (expect [16,17]):', seen)
bb = bind(lambda a,b: a-b, x, p.param.a); be = rx(bb)*2; print('  ', be.rx.value); p.a=1; print('  expect 20:', be.rx.value)
