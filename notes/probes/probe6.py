import param, warnings, asyncio
warnings.simplefilter('ignore')
class T(param.Parameterized):
    p = param.Parameter(allow_refs=True)
async def main(order, n=3, plain_at=None):
    loop = asyncio.get_running_loop()
    futs=[loop.create_future() for _ in range(n)]
    def mk(i):
        async def co():
            return await futs[i]
        return co
    t=T()
    seen=[]
    t.param.watch(lambda e: seen.append(e.new), 'p')
    for i in range(n):
        t.p = mk(i)
        if plain_at == i:
            await asyncio.sleep(0)
            t.p = 'plain'
    await asyncio.sleep(0); await asyncio.sleep(0)
    for i in order:
        futs[i].done() or futs[i].set_result(f'r{i}')
        for _ in range(5): await asyncio.sleep(0)
    return t.p, seen
import itertools
for order in itertools.permutations(range(3)):
    print(order, asyncio.run(main(order)))
print("yield between assignments:")
async def main2(order, n=3):
    loop = asyncio.get_running_loop()
    futs=[loop.create_future() for _ in range(n)]
    def mk(i):
        async def co(): return await futs[i]
        return co
    t=T(); seen=[]
    t.param.watch(lambda e: seen.append(e.new), 'p')
    for i in range(n):
        t.p = mk(i)
        for _ in range(3): await asyncio.sleep(0)
    for i in order:
        futs[i].done() or futs[i].set_result(f'r{i}')
        for _ in range(5): await asyncio.sleep(0)
    return t.p, seen
for order in itertools.permutations(range(3)):
    print(order, asyncio.run(main2(order)))
print("plain while pending:")
print(asyncio.run(main((0,), n=1, plain_at=0)))
# rx pipe through coroutine
from param import rx
async def main3(order):
    loop = asyncio.get_running_loop()
    futs={}
    async def slow(v):
        f=loop.create_future(); futs[v]=f
        return await f
    r=rx(0); e=r.rx.pipe(slow)
    vals=[]
    e.rx.watch(vals.append)
    e.rx.value
    for v in (1,2):
        r.rx.value=v
        e.rx.value
        for _ in range(3): await asyncio.sleep(0)
    for v in order:
        futs[v].done() or futs[v].set_result(f'res{v}')
        for _ in range(5): await asyncio.sleep(0)
    return e.rx.value, vals
for order in itertools.permutations(range(3)):
    try: print(order, asyncio.run(main3(order)))
    except Exception as ex: print(order, 'RAISE', type(ex).__name__, ex)
