import param, warnings, inspect, copy, pickle, datetime as dt, json
warnings.simplefilter('ignore')
def t(label, f):
    try:
        r = f(); print(f"{label}: OK -> {r!r}")
    except Exception as e:
        print(f"{label}: RAISE {type(e).__name__}: {str(e)[:120]}")
print("== C13")
class A(param.Parameterized):
    x = param.Number(1)
class B(A): pass
list(B.param); list(A.param)
A.param.add_parameter('q', param.Number(5))
print(" hasattr(B,'q'):", hasattr(B,'q'), " 'q' in B.param:", 'q' in B.param, " 'q' in A.param:", 'q' in A.param)
b=B(); print(" 'q' in b.param.values():", 'q' in b.param.values())
class A2(param.Parameterized):
    x = param.Number(1)
class B2(A2): pass
list(B2.param)
B2.x = 7
print(" B2.x:", B2.x, " B2.param['x'].default:", B2.param['x'].default, " same obj as static:", B2.param['x'] is inspect.getattr_static(B2,'x'), "A2.x", A2.x)
b2=B2(); print(" b2.x", b2.x, "b2.param.values()['x']", b2.param.values()['x'], "b2.param.x.default", b2.param.x.default)
print("== C12")
class C(param.Parameterized):
    l = param.List([1,2])                 # instantiate True
    s = param.Parameter([1,2])            # instantiate False
    n = param.Number(1, bounds=(0,10))
    k = param.Parameter([0], constant=True)
c1=C(); c2=C()
c1.l.append(3); print(" l private:", c2.l, C.l)
print(" s shared by identity:", c1.s is C.s)
c1.param.n.bounds=(0,5); print(" bounds leak:", C.param.n.bounds, c2.param.n.bounds)
C.n = 3; print(" follows class default:", c2.n); c1.n=2; C.n=4; print(" own value kept:", c1.n, " c2 follows:", c2.n)
old=c1.k; C.k=[9]; print(" constant keeps object:", c1.k is old, c1.k)
c1.param.n.bounds[:] if False else None
# mutable Parameter attribute mutated in place on instance
class S(param.Parameterized):
    sel = param.Selector(objects=[1,2,3])
s1=S(); s1.param.sel.objects.append(4); print(" objects leak to class?:", S.param.sel.objects, list(S().param.sel.objects))
# class-level objects change after instance param copy exists
s2=S(); s2.param.sel; S.param.sel.objects.append(5); print(" s2 sees class change (copy existed):", list(s2.param.sel.objects), " fresh:", list(S().param.sel.objects))
print("== C14")
class K(param.Parameterized):
    c = param.Parameter(1, constant=True)
    r = param.Parameter(1, readonly=True)
class K2(K): pass
k=K2(c=5); t(" set const", lambda: setattr(k,'c',6)); t(" set readonly inst", lambda: setattr(k,'r',6)); t(" set readonly cls", lambda: setattr(K,'r',6))
t(" set readonly subcls", lambda: setattr(K2,'r',6)); print(" K2.r", K2.r, K.r)
K2.c = 9; print(" after class set on subclass: k.c", k.c); t(" set const after cls set", lambda: setattr(k,'c',7))
try:
    with param.edit_constant(k):
        k.c=10; raise RuntimeError
except RuntimeError: pass
t(" set const after failing edit_constant", lambda: setattr(k,'c',11)); print(" flags:", k.param.c.constant, K2.param.c.constant, K.param.c.constant)
t(" name const", lambda: setattr(k,'name','zz'))
t(" update const", lambda: k.param.update(c=12))
k3=K2(); 
with param.edit_constant(k3):
    with param.edit_constant(k3):
        k3.c=2
    t(" inner exit re-locks? set inside outer", lambda: setattr(k3,'c',3))
t(" after nested", lambda: setattr(k3,'c',4))
