import param, warnings, inspect, copy, pickle, datetime as dt, json
warnings.simplefilter('ignore')
print(param.__file__)
def t(label, f):
    try:
        r = f(); print(f"{label}: OK -> {r!r}")
    except Exception as e:
        print(f"{label}: RAISE {type(e).__name__}: {str(e)[:120]}")
class K(param.Parameterized):
    c = param.Parameter(1, constant=True)
k3=K()
with param.edit_constant(k3):
    with param.edit_constant(k3):
        k3.c=2
    t(" set inside outer after inner exit", lambda: setattr(k3,'c',3))
t(" after nested (should raise)", lambda: setattr(k3,'c',4))
k4=K(); k4.param.c  # instance copy exists
try:
    with param.edit_constant(k4):
        k4.c = 5; raise RuntimeError
except RuntimeError: pass
t(" after failing edit (should raise)", lambda: setattr(k4,'c',6)); print(k4.param.c.constant, K.param.c.constant)
t(" same object re-assign", lambda: setattr(k4,'c',k4.c))
print("== C15")
class J(param.Parameterized):
    i = param.Integer(3); n = param.Number(1.5); s=param.String('a"\\\n'); b=param.Boolean(True)
    tu = param.Tuple((1,'a')); nt = param.NumericTuple((1,2.5)); xy=param.XYCoordinates((1.0,2.0)); r=param.Range((1,2))
    d = param.Date(dt.datetime(2020,1,2,3,4,5,678)); cd=param.CalendarDate(dt.date(2020,1,2))
    dr = param.DateRange((dt.datetime(2020,1,1), dt.datetime(2020,1,2,0,0,0,1))); cdr=param.CalendarDateRange((dt.date(2020,1,1),dt.date(2020,1,2)))
    l = param.List([1,'x',None]); di=param.Dict({'a':[1]}); se=param.Selector(objects=[1,2,3]); ls=param.ListSelector([1], objects=[1,2,3]); co=param.Color('#ffffff')
    on = param.Number(None, allow_None=True)
def rt(obj, **kw):
    s = obj.param.serialize_parameters(**kw)
    json.loads(s)
    d = type(obj).param.deserialize_parameters(s, **kw)
    new = type(obj)(**d)
    bad = {k:(getattr(obj,k), getattr(new,k)) for k in d if getattr(obj,k)!=getattr(new,k) or type(getattr(obj,k)) is not type(getattr(new,k))}
    return bad
t(" roundtrip default", lambda: rt(J()))
t(" dr with dates", lambda: rt(J(dr=(dt.date(2020,1,1), dt.date(2020,1,2)))))
t(" dr mixed", lambda: rt(J(dr=(dt.date(2020,1,1), dt.datetime(2020,1,2)))))
t(" date year 999", lambda: rt(J(cd=dt.date(999,1,2))))
t(" datetime year 999", lambda: rt(J(d=dt.datetime(999,1,2))))
t(" tuple None", lambda: rt(J(on=None)))
t(" big float", lambda: rt(J(n=1e308, i=10**30)))
t(" subset", lambda: rt(J(), subset=['i','d']))
t(" serialize_value date", lambda: (J.param.serialize_value('d'), J.param.deserialize_value('d', J.param.serialize_value('d'))))
t(" ser value None date", lambda: J.param.deserialize_value('cd', 'null'))
t(" Date holding date", lambda: rt(J(d=dt.date(2020,1,1))))
t(" nested tuple", lambda: rt(J(tu=((1,2),'a'))))
t(" Range None elem?", lambda: rt(J(r=(1,2))))
t(" Selector dict objects", lambda: 0)
class J2(param.Parameterized):
    se = param.Selector(objects={'a':1,'b':2}); ls = param.ListSelector([1], objects={'a':1,'b':2})
t(" J2", lambda: rt(J2(se=2)))
t(" deser DateRange classmethod?", lambda: param.DateRange.deserialize(['2020-01-01','2020-01-02']))
