import sys
sys.path.insert(0,'/repo')
import param, warnings, json, datetime as dt, copy, pickle
warnings.simplefilter('ignore')
import jsonschema
def t(label, f):
    try:
        r = f(); print(f"{label}: OK -> {r!r}")
    except Exception as e:
        print(f"{label}: RAISE {type(e).__name__}: {str(e)[:160]}")
def chk(cls, **kw):
    o = cls(**kw)
    sch = o.param.schema()
    full = {'type':'object','properties':sch}
    jsonschema.Draft7Validator.check_schema(full)
    data = json.loads(o.param.serialize_parameters())
    errs = [e.message[:100] for e in jsonschema.Draft7Validator(full).iter_errors(data)]
    return errs
class J(param.Parameterized):
    i = param.Integer(3, bounds=(0,10), inclusive_bounds=(False,True)); n = param.Number(1.5, bounds=(None, 2)); s=param.String('a'); b=param.Boolean(True)
    tu = param.Tuple((1,'a')); nt = param.NumericTuple((1,2.5)); xy=param.XYCoordinates((1.0,2.0)); r=param.Range((1,2), bounds=(0,5))
    d = param.Date(dt.datetime(2020,1,2,3,4,5,678)); cd=param.CalendarDate(dt.date(2020,1,2))
    l = param.List([1,2], item_type=int); di=param.Dict({'a':[1]}); se=param.Selector(objects=[1,2,3]); ls=param.ListSelector([1], objects=[1,2,3])
    cs = param.ClassSelector(class_=(int,str), default=3)
    on = param.Number(None, allow_None=True, bounds=(0,1))
t("default", lambda: chk(J))
t("Number bool", lambda: chk(J, n=True))
t("Integer bool", lambda: chk(J, i=True))
t("Number None", lambda: chk(J, on=None))
t("out-of-bound rejected?", lambda: [e.message for e in jsonschema.Draft7Validator({'type':'object','properties':J.param.schema()}).iter_errors({'i':0})])
t("out-of-bound n", lambda: [e.message for e in jsonschema.Draft7Validator({'type':'object','properties':J.param.schema()}).iter_errors({'n':2.5})])
class J2(param.Parameterized):
    se = param.Selector(objects=[True, 'a']); 
t("Selector w/ bool objects schema", lambda: (J2.param.schema()['se'], chk(J2)))
class J3(param.Parameterized):
    se = param.Selector(objects={'a':1,'b':2}, allow_None=True); ls=param.ListSelector(None, objects=[1,2], allow_None=True)
    l0 = param.List([], item_type=float); lf = param.List([1.5], item_type=(int,float))
    sn = param.String(None, allow_None=True); bn=param.Boolean(None, allow_None=True); tn = param.Tuple(None, length=2, allow_None=True)
t("J3", lambda: (chk(J3), chk(J3, se=None)))
t("J3 schema", lambda: J3.param.schema()['se'])
class J4(param.Parameterized):
    m = param.Magnitude(0.5)
    se = param.Selector(objects=[1.5, None])
t("J4", lambda: (J4.param.schema(), chk(J4)))
class J5(param.Parameterized):
    se = param.Selector(objects=[[1,2],[3]])  # unhashable/ list objects
t("J5", lambda: (J5.param.schema()['se'], chk(J5)))
class J6(param.Parameterized):
    cs = param.ClassSelector(class_=float, default=1.5); cs2 = param.ClassSelector(class_=J, default=None)
t("J6", lambda: (J6.param.schema()['cs2'].keys(), chk(J6)))
class J7(param.Parameterized):
    i = param.Integer(3, bounds=(0,10), inclusive_bounds=(False,False)); n = param.Number(1, bounds=(0.5,None))
t("J7 excl", lambda: (J7.param.schema(), chk(J7), [e.message for e in jsonschema.Draft7Validator({'type':'object','properties':J7.param.schema()}).iter_errors({'i':10,'n':0.4})]))
t("schema json-serializable", lambda: len(json.dumps({'type':'object','properties':J.param.schema()})))
t("schema J3 json-serializable", lambda: len(json.dumps({'type':'object','properties':J3.param.schema()})))
