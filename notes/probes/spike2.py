"""Throw-away spike: symbolic execution of real validator ASTs -> z3. Not framework code."""
import ast, z3, time, sys
SRC='/repo/param/parameters.py'
tree=ast.parse(open(SRC).read())
def find(qual):
    cls,fn=qual.split('.')
    for n in tree.body:
        if isinstance(n,ast.ClassDef) and n.name==cls:
            for m in n.body:
                if isinstance(m,ast.FunctionDef) and m.name==fn: return m
V=z3.DeclareSort('V')
NONE,TRUE,FALSE=z3.Consts('None True False',V)
kind=z3.Function('kind',V,z3.IntSort()); rv=z3.Function('rv',V,z3.RealSort())
isnum=z3.Function('isnum',V,z3.BoolSort()); iscallable=z3.Function('callable',V,z3.BoolSort())
istuple=z3.Function('istuple',V,z3.BoolSort()); tlen=z3.Function('tlen',V,z3.IntSort()); item=z3.Function('item',V,z3.IntSort(),V)
truthy=z3.Function('truthy',V,z3.BoolSort())
def lt(a,b):
    ka,kb=kind(a),kind(b)
    return z3.And(ka!=1,kb!=1,z3.Or(z3.And(ka==0,kb==0,rv(a)<rv(b)),z3.And(ka==3,kb!=3),z3.And(kb==2,ka!=2)))
def le(a,b):
    ka,kb=kind(a),kind(b)
    return z3.And(ka!=1,kb!=1,z3.Or(z3.And(ka==0,kb==0,rv(a)<=rv(b)),ka==3,kb==2))
class Raise(Exception): pass
class Path:
    def __init__(s,env,pc): s.env=dict(env); s.pc=list(pc)
def B(x):  # V -> Bool truthiness for V terms, or pass Bool through
    return x if z3.is_bool(x) else truthy(x)
def ev(e,p,fields):
    if isinstance(e,ast.Name): return p.env[e.id]
    if isinstance(e,ast.Constant):
        if e.value is None: return NONE
        if e.value is True: return TRUE
        if e.value is False: return FALSE
        return z3.Const('const_%s'%abs(hash(repr(e.value))),V)
    if isinstance(e,ast.Attribute) and isinstance(e.value,ast.Name) and e.value.id=='self':
        return fields[e.attr]
    if isinstance(e,ast.Compare) and len(e.ops)==1:
        a=ev(e.left,p,fields); b=ev(e.comparators[0],p,fields); op=e.ops[0]
        if isinstance(op,ast.Is): return a==b
        if isinstance(op,ast.IsNot): return a!=b
        if isinstance(op,ast.Lt): return lt(a,b)
        if isinstance(op,ast.LtE): return le(a,b)
        if isinstance(op,ast.Gt): return lt(b,a)
        if isinstance(op,ast.GtE): return le(b,a)
    if isinstance(e,ast.BoolOp):
        vs=[B(ev(v,p,fields)) for v in e.values]
        return z3.And(*vs) if isinstance(e.op,ast.And) else z3.Or(*vs)
    if isinstance(e,ast.UnaryOp) and isinstance(e.op,ast.Not): return z3.Not(B(ev(e.operand,p,fields)))
    if isinstance(e,ast.IfExp):
        return z3.If(B(ev(e.test,p,fields)),B(ev(e.body,p,fields)),B(ev(e.orelse,p,fields)))
    if isinstance(e,ast.Call) and isinstance(e.func,ast.Name):
        if e.func.id=='callable': return iscallable(ev(e.args[0],p,fields))
        if e.func.id=='_is_number': return isnum(ev(e.args[0],p,fields))
    raise NotImplementedError(ast.dump(e)[:80])
def run(stmts,p,fields,out):
    """returns list of paths that fall through; appends (path,'return'|'raise') to out"""
    live=[p]
    for s in stmts:
        nxt=[]
        for q in live:
            if isinstance(s,ast.Expr) and isinstance(s.value,ast.Constant): nxt.append(q); continue
            if isinstance(s,ast.Return): out.append((q,'return')); continue
            if isinstance(s,ast.Raise): out.append((q,'raise')); continue
            if isinstance(s,ast.Assign):
                t=s.targets[0]
                if isinstance(t,ast.Tuple):
                    val=ev(s.value,q,fields)
                    for i,el in enumerate(t.elts): q.env[el.id]=item(val,i)
                else: q.env[t.id]=ev(s.value,q,fields)
                nxt.append(q); continue
            if isinstance(s,ast.If):
                c=B(ev(s.test,q,fields))
                a=Path(q.env,q.pc+[c]); b=Path(q.env,q.pc+[z3.Not(c)])
                nxt+=run(s.body,a,fields,out); nxt+=run(s.orelse,b,fields,out); continue
            if isinstance(s,ast.For):  # zip(['lower','upper'], val) literal unroll with len 2
                it=s.iter
                assert isinstance(it,ast.Call) and it.func.id=='zip'
                seq=ev(it.args[1],q,fields); cur=[q]
                for i in range(2):
                    nn=[]
                    for r in cur:
                        r.env[s.target.elts[1].id]=item(seq,i); r.env[s.target.elts[0].id]=z3.Const('lbl%d'%i,V)
                        nn+=run(s.body,r,fields,out)
                    cur=nn
                nxt+=cur; continue
            raise NotImplementedError(ast.dump(s)[:80])
        live=nxt
    return live
def outcomes(qual,args,fields):
    fn=find(qual); env={a.arg:args[i] for i,a in enumerate(fn.args.args[1:])}
    out=[]; rest=run(fn.body,Path(env,[]),fields,out)
    out+=[(q,'return') for q in rest]
    return out
# ---- Number._validate_bounds against spec
val,bounds,incl,allowN=z3.Consts('val bounds incl allow_None',V)
fields={'allow_None':allowN}
vmin,vmax,imin,imax=item(bounds,0),item(bounds,1),item(incl,0),item(incl,1)
def spec_bounds(v):
    lo=z3.Or(vmin==NONE, z3.If(imin==TRUE, le(vmin,v), lt(vmin,v)))
    hi=z3.Or(vmax==NONE, z3.If(imax==TRUE, le(v,vmax), lt(v,vmax)))
    return z3.Or(bounds==NONE, z3.And(v==NONE,truthy(allowN)), iscallable(v), z3.And(lo,hi))
base=[z3.Or(imin==TRUE,imin==FALSE),z3.Or(imax==TRUE,imax==FALSE),truthy(TRUE),z3.Not(truthy(FALSE)),z3.Not(truthy(NONE)),TRUE!=FALSE,TRUE!=NONE,FALSE!=NONE]
for x in (val,vmin,vmax): base+= [kind(x)>=0,kind(x)<=3]
t0=time.time(); n=0
for q,how in outcomes('Number._validate_bounds',[val,bounds,incl],fields):
    s=z3.Solver(); s.add(base+q.pc)
    s.add(spec_bounds(val) if how=='raise' else z3.Not(spec_bounds(val)))
    r=s.check(); n+=1
    print('Number._validate_bounds path',n,how,'->', 'proved' if r==z3.unsat else r)
print('time',round(time.time()-t0,3))
# ---- Range._validate_bounds : spec says each element inside bounds (NaN never inside)
kindc=z3.Const('kindstr',V); SOFT=z3.Const('softbound',V)
def spec_range(v):
    def inside(x):
        lo=z3.Or(vmin==NONE, z3.If(truthy(imin), le(vmin,x), lt(vmin,x)))
        hi=z3.Or(vmax==NONE, z3.If(truthy(imax), le(x,vmax), lt(x,vmax)))
        return z3.And(lo,hi)
    return z3.Or(bounds==NONE, z3.And(v==NONE,truthy(allowN)), z3.And(inside(item(v,0)),inside(item(v,1))))
fn=find('Range._validate_bounds')
# skip the first `if bounds is not None: for ...: _validate_bound_type` block and the softbound early return for the spike
fn2=ast.FunctionDef(name='x',args=fn.args,body=fn.body[2:],decorator_list=[],lineno=0)
env={'val':val,'bounds':bounds,'inclusive_bounds':incl,'kind':kindc}
out=[]; rest=run(fn2.body,Path(env,[]),fields,out); out+=[(q,'return') for q in rest]
base2=base+[kind(item(val,0))>=0,kind(item(val,0))<=3,kind(item(val,1))>=0,kind(item(val,1))<=3]
bad=0
for i,(q,how) in enumerate(out):
    s=z3.Solver(); s.add(base2+q.pc)
    s.add(spec_range(val) if how=='raise' else z3.Not(spec_range(val)))
    r=s.check()
    if r==z3.sat:
        m=s.model(); bad+=1
        if bad<=2: print('Range._validate_bounds path',i,how,'REFUTED: kind(val[0])=',m.eval(kind(item(val,0))),'kind(val[1])=',m.eval(kind(item(val,1))),'rv0=',m.eval(rv(item(val,0))),'vmin=',m.eval(rv(vmin)),'kind vmin',m.eval(kind(vmin)))
print('Range paths',len(out),'refuted',bad)
