import z3,time
V=z3.DeclareSort('V'); S=z3.SeqSort(V)
count=z3.Function('count',S,V,z3.IntSort())
def U(x): return z3.Unit(x)
def ax_concat(a,b,w): return count(z3.Concat(a,b),w)==count(a,w)+count(b,w)
def ax_unit(x,w): return count(U(x),w)==z3.If(x==w,1,0)
def ax_contains(s,x): return z3.Contains(s,U(x))==(count(s,x)>=1)
def ax_nonneg(s,w): return count(s,w)>=0
w,x=z3.Consts('w x',V); WS=z3.Const('WS',S)
# (1) _call_watcher batched branch preserves "count<=1" for an arbitrary Skolem w, appended element x
WS2=z3.If(z3.Contains(WS,U(x)),WS,z3.Concat(WS,U(x)))
s=z3.Solver(); s.add(count(WS,w)<=1, ax_nonneg(WS,w), ax_contains(WS,x), ax_concat(WS,U(x),w), ax_unit(x,w))
s.add(z3.Not(count(WS2,w)<=1)); t=time.time(); print('(1) dedup append preserves <=1 :',s.check(),round(time.time()-t,3))
# and x occurs exactly once afterwards
s=z3.Solver(); s.add(count(WS,x)<=1, ax_nonneg(WS,x), ax_contains(WS,x), ax_concat(WS,U(x),x), ax_unit(x,x))
s.add(z3.Not(count(WS2,x)==1)); print('(1b) x exactly once:',s.check())
# (2) trigger merge: new ++ saved
NEW,SAVED=z3.Consts('NEW SAVED',S); FIN=z3.Concat(NEW,SAVED)
s=z3.Solver(); s.add(count(NEW,w)<=1,count(SAVED,w)<=1,ax_nonneg(NEW,w),ax_nonneg(SAVED,w),ax_concat(NEW,SAVED,w))
s.add(z3.Not(count(FIN,w)<=1)); r=s.check(); m=s.model(); print('(2) trigger merge keeps <=1 :',r,'count new',m.eval(count(NEW,w)),'saved',m.eval(count(SAVED,w)))
# (3) loop rule: for i-th watcher of sorted list, trace multiplicity invariant
calls=z3.Function('calls',S,V,z3.IntSort())   # number of Call records for watcher w in a trace (trace elements are watchers here)
SORT=z3.Const('SORT',S); i=z3.Int('i'); T0,Ti=z3.Consts('T0 Ti',S)
qual=z3.Function('qual',V,z3.BoolSort())
pre=z3.SubSeq(SORT,0,i); cur=SORT[i]
# invariant: count(Ti,w) == count(T0,w) + (qual(w) ? count(pre,w) : 0)
inv_i = count(Ti,w)==count(T0,w)+z3.If(qual(w),count(pre,w),0)
Tn = z3.If(qual(cur), z3.Concat(Ti,U(cur)), Ti)
pre2=z3.SubSeq(SORT,0,i+1)
s=z3.Solver(); s.add(i>=0,i<z3.Length(SORT),inv_i, ax_concat(Ti,U(cur),w), ax_unit(cur,w), pre2==z3.Concat(pre,U(cur)), ax_concat(pre,U(cur),w))
s.add(z3.Not(count(Tn,w)==count(T0,w)+z3.If(qual(w),count(pre2,w),0))); t=time.time(); print('(3) loop step:',s.check(),round(time.time()-t,3))
# is the subseq lemma itself provable by z3's seq theory?
s=z3.Solver(); s.add(i>=0,i<z3.Length(SORT), pre2!=z3.Concat(pre,U(cur))); t=time.time(); print('(3b) subseq split lemma:',s.check(),round(time.time()-t,3))
