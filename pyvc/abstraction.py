"""Third back end: the sequence theory abstracted to uninterpreted functions.

Every term of sort Seq(V) is mapped into an uninterpreted sort; `++`, `[x]`, `[]`, `contains`,
`len` and every other sequence operation become uninterpreted functions of the matching arity
(concatenation normalised to right-nested binary applications).  The real theory of sequences is
ONE interpretation of these symbols, so a formula that is unsatisfiable under the abstraction is
unsatisfiable in the theory: `unsat` here is a proof.  `sat` means nothing (the abstraction forgot
what sequences are) and is reported as undecided, never as a refutation.

Used when z3's sequence solver answers `unknown` on goals that follow from the sequence facts
already present in the path condition by congruence and propositional reasoning alone (e.g. the
membership lemmas of contracts/c08.py, proved as separate obligations, then used as hypotheses).
"""
import z3

from . import values as vm

_SA = z3.DeclareSort("SeqA")
_cache_fn = {}


def _fn(name, *sorts):
    key = (name,) + tuple(str(s) for s in sorts)
    if key not in _cache_fn:
        _cache_fn[key] = z3.Function(name, *sorts)
    return _cache_fn[key]


def _is_seqv(sort):
    return sort == vm.SeqV


def _msort(sort):
    return _SA if _is_seqv(sort) else sort


def abstract(e, memo):
    k = e.get_id()
    r = memo.get(k)
    if r is not None:
        return r
    r = _abstract(e, memo)
    memo[k] = r
    return r


def _abstract(e, memo):
    if z3.is_quantifier(e):
        body = e.body()
        # quantified facts that mention sequences are dropped (weakening the hypotheses is sound)
        if "Seq" in e.sexpr():
            return z3.BoolVal(True)
        return e
    if not z3.is_app(e):
        return e
    d = e.decl()
    kids = [abstract(c, memo) for c in e.children()]
    kind = d.kind()
    if kind == z3.Z3_OP_SEQ_CONCAT and _is_seqv(e.sort()):
        f = _fn("concatA", _SA, _SA, _SA)
        acc = kids[-1]
        for c in reversed(kids[:-1]):
            acc = f(c, acc)
        return acc
    if kind == z3.Z3_OP_SEQ_UNIT and _is_seqv(e.sort()):
        return _fn("unitA", vm.V, _SA)(kids[0])
    if kind == z3.Z3_OP_SEQ_EMPTY and _is_seqv(e.sort()):
        return z3.Const("emptyA", _SA)
    if kind == z3.Z3_OP_UNINTERPRETED and not kids:
        if _is_seqv(e.sort()):
            return z3.Const(d.name() + "$A", _SA)
        return e
    changed = any(_is_seqv(c.sort()) for c in e.children()) or _is_seqv(e.sort())
    if not changed:
        if all(a.eq(b) for a, b in zip(kids, e.children())):
            return e
        if kind == z3.Z3_OP_EQ:
            return kids[0] == kids[1]
        if kind == z3.Z3_OP_ITE:
            return z3.If(kids[0], kids[1], kids[2])
        if kind == z3.Z3_OP_DISTINCT:
            return z3.Distinct(*kids)
        if kind == z3.Z3_OP_AND:
            return z3.And(*kids)
        if kind == z3.Z3_OP_OR:
            return z3.Or(*kids)
        return d(*kids)
    if kind == z3.Z3_OP_EQ:
        return kids[0] == kids[1]
    if kind == z3.Z3_OP_ITE:
        return z3.If(kids[0], kids[1], kids[2])
    if kind == z3.Z3_OP_DISTINCT:
        return z3.Distinct(*kids)
    name = {z3.Z3_OP_SEQ_CONTAINS: "containsA", z3.Z3_OP_SEQ_LENGTH: "lenA"}.get(kind)
    if name is None:
        name = "abs_%s" % d.name()
    f = _fn(name, *([c.sort() for c in kids] + [_msort(e.sort())]))
    return f(*kids)


def prove_abstract(assertions, timeout_ms):
    """-> 'unsat' | 'unknown' for the conjunction of `assertions` with sequences abstracted"""
    memo = {}
    s = z3.Solver()
    s.set("timeout", timeout_ms)
    for a in assertions:
        s.add(abstract(a, memo))
    r = s.check()
    return "unsat" if r == z3.unsat else "unknown"
