"""Library contracts (assumed, DESIGN.md §8 / B.3): builtins and stdlib functions the code under
proof calls.  Each handler is the *contract* of the library function over the value model —
these are the trusted assumptions on dependencies and are listed in every evidence file."""
import ast
import builtins as _bi

import z3

from . import values as vm
from .engine import OutOfReach, Raise
from .values import BoolV, ClsV, Conc, FuncV, ModV, Ref, Sym, TupV, V

BUILTIN_CLASSES = {"int", "float", "bool", "str", "bytes", "tuple", "list", "dict", "set", "object",
                   "type", "frozenset", "complex", "slice", "range"}
BUILTIN_FUNCS = {"isinstance", "issubclass", "callable", "len", "hasattr", "getattr", "setattr", "type",
                 "zip", "map", "sorted", "any", "all", "repr", "str", "print", "id", "iter", "next",
                 "enumerate", "min", "max", "abs", "sum", "reversed", "filter", "super", "vars", "dir",
                 "format", "hash", "round", "divmod"}

# names bound at module level in the repo modules that have a fixed meaning in the model
SPECIAL_GLOBALS = {
    "Undefined": lambda I: Sym(I.U.UNDEF),
    "NotImplemented": lambda I: Sym(I.U.NOTIMPL),
    "_dt_types": lambda I: ClsV("_dt_types"),
    "dt_types": lambda I: ClsV("_dt_types"),
    "_int_types": lambda I: ClsV("_int_types"),
    "int_types": lambda I: ClsV("_int_types"),
    "dt": lambda I: ModV("dt"),
    "datetime": lambda I: ModV("dt"),
    "numbers": lambda I: ModV("numbers"),
    "inspect": lambda I: ModV("inspect"),
    "warnings": lambda I: ModV("warnings"),
    "re": lambda I: ModV("re"),
    "copy": lambda I: ModV("copy"),
    "json": lambda I: ModV("json"),
    "operator": lambda I: ModV("operator"),
    "math": lambda I: ModV("math"),
    "typing": lambda I: ModV("typing"),
    "os": lambda I: ModV("os"),
    "sys": lambda I: ModV("sys"),
    "random": lambda I: ModV("random"),
    "asyncio": lambda I: ModV("asyncio"),
    "OrderedDict": lambda I: ClsV("OrderedDict"),
}

MODULE_ATTRS = {
    ("dt", "date"): ClsV("date"), ("dt", "datetime"): ClsV("datetime"),
    ("numbers", "Number"): ClsV("numbers.Number"), ("numbers", "Real"): ClsV("numbers.Real"),
    ("numbers", "Integral"): ClsV("numbers.Integral"),
    ("collections", "abc"): ModV("collections.abc"), ("collections.abc", "Sequence"): ClsV("Sequence"),
}


def module_attr(I, mv, attr, ctx):
    k = (mv.name, attr)
    if k in MODULE_ATTRS:
        return MODULE_ATTRS[k]
    return FuncV("builtin", name="%s.%s" % (mv.name, attr), self=None)


def global_name(I, name, ctx, module_hint=None):
    if name in SPECIAL_GLOBALS:
        return SPECIAL_GLOBALS[name](I)
    m = ctx.get("module") if ctx else None
    # enclosing module first, then the other repo modules (names imported between them)
    mods = ([m] if m is not None else []) + [x for x in I.src.modules.values() if x is not m]
    for mod in mods:
        if name in mod.functions:
            fd = mod.functions[name]
            return FuncV("repo", module=mod, cls=None, node=fd, self=None, qual=name)
        if name in mod.classes:
            return ClsV(name)
    if name in BUILTIN_CLASSES:
        return ClsV(name)
    if name in BUILTIN_FUNCS:
        return FuncV("builtin", name=name, self=None)
    if isinstance(getattr(_bi, name, None), type) and issubclass(getattr(_bi, name), BaseException):
        return ClsV(name)
    for mod in mods:
        if name in mod.assigns:
            h = I.lib.get("global:" + name)
            if h is not None:
                return h(I)
            node = mod.assigns[name]
            # simple aliases / constants
            if isinstance(node, ast.Constant):
                return Conc(node.value)
            if isinstance(node, ast.Name):
                return global_name(I, node.id, {"module": mod})
            return FuncV("builtin", name="global:" + name, self=None)
    # names imported at module level from the standard library: an opaque library function /
    # class named "<module>.<name>" (callable only if a library contract is registered for it)
    import ast as _ast
    for mod in mods:
        for node in mod.tree.body:
            if isinstance(node, _ast.ImportFrom):
                for a in node.names:
                    if (a.asname or a.name) == name:
                        full = "%s.%s" % (node.module, a.name)
                        if ("new:" + a.name) in I.lib or ("new:" + full) in I.lib:
                            return ClsV(a.name)
                        return FuncV("builtin", name=a.name if a.name in I.lib else full, self=None)
            elif isinstance(node, _ast.Import):
                for a in node.names:
                    if (a.asname or a.name) == name:
                        return ModV(a.name)
    raise OutOfReach("unknown global name %s" % name)


def boolv(x):
    return Conc(x) if isinstance(x, bool) else BoolV(x)


def simp(b):
    b = z3.simplify(b)
    if z3.is_true(b):
        return True
    if z3.is_false(b):
        return False
    return b


# ------------------------------------------------------------------------- isinstance ----
def isinstance_formula(I, st, x, c):
    """Python bool or z3 Bool for isinstance(x, c)."""
    if isinstance(c, TupV):
        parts = [isinstance_formula(I, st, x, ci) for ci in c.items]
        if any(p is True for p in parts):
            return True
        fs = [p for p in parts if p is not False]
        return z3.Or(fs) if fs else False
    if isinstance(c, ClsV):
        name = c.name
        repo_cls = I.src.module_of_class(name) is not None
        if isinstance(x, Ref):
            h = st.heap[x.oid]
            if h.kind == "obj":
                if repo_cls and h.cls:
                    return I.src.is_subclass(h.cls, name)
                return name == "object"
            kinds = {"list": ["list"], "dict": ["dict"]}[h.kind]
            hcls = h.cls or kinds[0]
            return hcls in vm.subtypes(name) or name == "object" or (repo_cls and I.src.is_subclass(hcls, name))
        if isinstance(x, Conc):
            if name in vm.ABSTRACT:
                return type(x.py).__name__ in vm.subtypes(name)
            pyc = getattr(_bi, name, None)
            if isinstance(pyc, type):
                return isinstance(x.py, pyc)
            return False
        if isinstance(x, TupV):
            return name in ("tuple", "object", "Sequence")
        if isinstance(x, BoolV):
            return "bool" in vm.subtypes(name)
        if isinstance(x, (ClsV,)):
            return name in ("type", "object")
        if isinstance(x, FuncV):
            return name in ("object",)
        t = I.term(x)
        if repo_cls or name not in set(vm.TYPES) | set(vm.ABSTRACT):
            return vm.isinst(t, I.U.cls_const(name))
        return simp(I.U.has_type(t, vm.subtypes(name)))
    # symbolic class
    tc = I.term(c)
    return vm.isinst(I.term(x), tc)


def h_isinstance(I, st, fv, args, kwargs, ctx):
    return [(st, boolv(isinstance_formula(I, st, args[0], args[1])))]


def h_callable(I, st, fv, args, kwargs, ctx):
    x = args[0]
    if isinstance(x, (FuncV, ClsV)):
        return [(st, Conc(True))]
    if isinstance(x, (Conc, TupV, BoolV)):
        return [(st, Conc(False))]
    if isinstance(x, Ref):
        h = st.heap[x.oid]
        if h.kind == "obj" and h.cls and I.src.find_method(h.cls, "__call__"):
            return [(st, Conc(True))]
        return [(st, Conc(False))]
    return [(st, boolv(simp(vm.is_callable(I.term(x)))))]


def length_of(I, st, x):
    """-> Python int, z3 Int, or None"""
    if isinstance(x, TupV):
        return len(x.items)
    if isinstance(x, Conc) and isinstance(x.py, (str, bytes)):
        return len(x.py)
    if isinstance(x, Ref):
        h = st.heap[x.oid]
        if h.kind == "list":
            its = h.fields.get("$items")
            return len(its) if its is not None else z3.Length(h.seq)
        if h.kind == "dict":
            return len(h.ckeys) if h.ckeys is not None else z3.Length(h.keys)
        return None
    return None


def h_len(I, st, fv, args, kwargs, ctx):
    x = args[0]
    n = length_of(I, st, x)
    if n is not None:
        return [(st, Conc(n) if isinstance(n, int) else int_val(I, n))]
    if isinstance(x, Ref):
        h = st.heap[x.oid]
        f = I.src.find_method(h.cls, "__len__") if h.cls else None
        if f:
            return I.call(I.bound_method(x, f), [], {}, st, ctx)
        raise OutOfReach("len of object")
    if isinstance(x, Conc):
        return [(st, Raise("TypeError"))]
    t = I.term(x)
    sized = I.U.has_type(t, ["str", "bytes", "tuple", "list", "dict", "set", "OrderedDict", "ListProxy"])
    out = []
    for (q, b) in I.branch(st, sized):
        if b:
            out.append((q, int_val(I, vm.slen(t))))
        else:
            # objects with __len__ are outside the value model (scope); None/numbers raise
            out.append((q, Raise("TypeError")))
    return out


def int_val(I, n):
    """A Python int whose value is the z3 Int n."""
    n = z3.simplify(n)
    if z3.is_int_value(n):
        return Conc(n.as_long())
    c = I.U.fresh("int")
    I.U.axioms += [vm.ty(c) == vm.TAG["int"], vm.kind(c) == vm.FINITE, vm.rv(c) == z3.ToReal(n)]
    return Sym(c)


def h_type(I, st, fv, args, kwargs, ctx):
    x = args[0]
    if isinstance(x, Ref):
        h = st.heap[x.oid]
        return [(st, ClsV(h.cls or h.kind))]
    if isinstance(x, Conc):
        return [(st, ClsV(type(x.py).__name__))]
    if isinstance(x, TupV):
        return [(st, ClsV("tuple"))]
    t = I.term(x)
    c = z3.Const("typeof(%s)" % t, V)
    I.U.axioms.append(vm.ty(c) == vm.TAG["type"])
    # type(x) is type  <=>  x is a (plain) class;  type(x) is date <=> exact type date, ...
    I.U.axioms.append((c == I.U.cls_const("type")) == (vm.ty(t) == vm.TAG["type"]))
    for nm in ("date", "datetime", "int", "bool", "float", "str", "tuple", "list", "dict"):
        I.U.axioms.append((c == I.U.cls_const(nm)) == (vm.ty(t) == vm.TAG[nm]))
    I.U.axioms.append((c == I.U.cls_const("NoneType")) == (t == I.U.NONE))
    return [(st, Sym(c))]


def h_hasattr(I, st, fv, args, kwargs, ctx):
    x, n = args[0], args[1]
    if not isinstance(n, Conc):
        raise OutOfReach("hasattr with symbolic name")
    if isinstance(x, Ref):
        h = st.heap[x.oid]
        if h.kind == "obj":
            if n.py in h.fields:
                return [(st, Conc(True))]
            if h.cls and (I.src.find_method(h.cls, n.py) or _has_class_attr(I, h.cls, n.py)):
                return [(st, Conc(True))]
            if h.lazy:
                key = "$hasattr_%s" % n.py
                if key not in h.fields:
                    b = I.U.fresh_bool("hasattr_%s" % n.py)
                    h.fields[key] = BoolV(b)
                    h.init[key] = h.fields[key]
                return [(st, h.fields[key])]
            return [(st, Conc(False))]
    if isinstance(x, (Conc, TupV, BoolV)):
        py = x.py if isinstance(x, Conc) else (() if isinstance(x, TupV) else True)
        return [(st, Conc(hasattr(py, n.py)))]
    f = hasattr_fn(n.py)
    t = I.term(x)
    add_hasattr_axioms(I, t, n.py)
    return [(st, BoolV(f(t)))]


def _has_class_attr(I, cname, attr):
    for c in I.src.mro(cname):
        m = I.src.module_of_class(c)
        if m is not None and m.class_attr(c, attr) is not None:
            return True
        if m is not None:
            for node in m.classes[c].body:
                if isinstance(node, ast.Assign):
                    for t in node.targets:
                        if isinstance(t, ast.Name) and t.id == "__slots__":
                            try:
                                if attr in ast.literal_eval(node.value):
                                    return True
                            except Exception:
                                pass
    return False


_HASATTR = {}


def hasattr_fn(name):
    if name not in _HASATTR:
        _HASATTR[name] = z3.Function("hasattr_%s" % name, V, z3.BoolSort())
    return _HASATTR[name]


_PROTO = {"NoneType": None, "bool": True, "int": 1, "float": 1.0, "str": "", "bytes": b"", "tuple": (),
          "list": [], "dict": {}, "set": set()}


def add_hasattr_axioms(I, t, name):
    import datetime
    import decimal
    import fractions
    protos = dict(_PROTO)
    protos.update({"Fraction": fractions.Fraction(1), "Decimal": decimal.Decimal(1),
                   "date": datetime.date(2000, 1, 1), "datetime": datetime.datetime(2000, 1, 1),
                   "function": (lambda: 0), "type": object, "Undefined": object()})
    f = hasattr_fn(name)
    key = ("hasattr", name, t.get_id())
    if key in I.U._misc_done:
        return
    I.U._misc_done.add(key)
    I.U._wt_keep.append(t)
    for tn, proto in protos.items():
        I.U.axioms.append(z3.Implies(vm.ty(t) == vm.TAG[tn], f(t) == hasattr(proto, name)))


def h_getattr(I, st, fv, args, kwargs, ctx):
    x, n = args[0], args[1]
    if not isinstance(n, Conc):
        raise OutOfReach("getattr with symbolic name")
    res = I.getattr(st, x, n.py, ctx)
    if len(args) > 2:
        out = []
        for (q, v) in res:
            if isinstance(v, Raise) and v.cls == "AttributeError":
                out.append((q, args[2]))
            else:
                out.append((q, v))
        return out
    return res


def h_setattr(I, st, fv, args, kwargs, ctx):
    x, n, v = args
    if not isinstance(n, Conc):
        h = I.lib.get("$setattr_symbolic")
        if h is not None:
            return h(I, st, x, n, v, ctx)
        raise OutOfReach("setattr with symbolic name")
    return I.setattr(st, x, n.py, v, ctx)


def h_int(I, st, fv, args, kwargs, ctx):
    """int(x) for numbers: truncation toward zero of a finite int / float / bool; OverflowError for
    ±inf, ValueError for NaN; other argument types are outside the model"""
    if not args:
        return [(st, Conc(0))]
    x = args[0]
    if len(args) > 1 or kwargs:
        raise OutOfReach("int() with a base")
    if isinstance(x, Conc) and isinstance(x.py, (int, float, bool)):
        try:
            return [(st, Conc(int(x.py)))]
        except (OverflowError, ValueError) as e:
            return [(st, Raise(type(e).__name__))]
    if isinstance(x, BoolV):
        return [(st, Sym(z3.If(x.b, I.U.lit(1), I.U.lit(0))))]
    if not isinstance(x, Sym):
        raise OutOfReach("int() of %r" % (x,))
    t = x.t
    numeric = I.U.isnum(t)
    if not I.valid(st, numeric):
        raise OutOfReach("int() of a value that is not known to be a number")
    out = []
    for (q, fin) in I.branch(st, vm.kind(t) == vm.FINITE):
        if not fin:
            for (r, nan) in I.branch(q, vm.kind(t) == vm.NAN):
                out.append((r, Raise("ValueError" if nan else "OverflowError")))
            continue
        r = I.U.fresh("int")
        fl = z3.ToInt(vm.rv(t))
        trunc = z3.If(vm.rv(t) >= 0, fl, -z3.ToInt(-vm.rv(t)))
        q.pc += [vm.ty(r) == vm.TAG["int"], vm.kind(r) == vm.FINITE, vm.rv(r) == z3.ToReal(trunc)]
        I.U.well_typed(r)
        out.append((q, Sym(r)))
    return out


def h_tuple(I, st, fv, args, kwargs, ctx):
    if not args:
        return [(st, TupV([]))]
    x = args[0]
    its = I.known_items(st, x)
    if its is not None:
        return [(st, TupV(its))]
    if isinstance(x, FuncV) and x.kind == "builtin" and x.data.get("name") == "$mapobj":
        raise OutOfReach("tuple(map(...)) over a sequence of unknown length")
    its = I.path_known_items(st, x)
    if its is not None:
        return [(st, TupV(its))]
    raise OutOfReach("tuple() of %r" % (x,))


def h_list(I, st, fv, args, kwargs, ctx):
    if not args:
        return [(st, I.make_list(st, []))]
    x = args[0]
    its = I.known_items(st, x)
    if its is not None:
        return [(st, I.make_list(st, its))]
    if isinstance(x, Ref):
        h = st.heap[x.oid]
        if h.kind == "list":
            r = I.alloc_list(st, h.seq)
            if h.fields.get("$map") is not None:
                st.heap[r.oid].fields["$map"] = h.fields["$map"]      # a fact about the item sequence: the copy has the same items
            return [(st, r)]
        if h.kind == "dict":
            if h.ckeys is not None:
                return [(st, I.make_list(st, [Conc(k) for k in h.ckeys]))]
            return [(st, I.alloc_list(st, h.keys))]
    its = I.path_known_items(st, x)
    if its is not None:
        return [(st, I.make_list(st, its))]
    raise OutOfReach("list() of %r" % (x,))


def h_dict(I, st, fv, args, kwargs, ctx):
    if "$symbolic_kwargs" in kwargs and args and isinstance(args[0], Ref) and st.heap[args[0].oid].kind == "dict" \
            and isinstance(kwargs["$symbolic_kwargs"], Ref) \
            and st.heap[kwargs["$symbolic_kwargs"].oid].fields.get("$entries") is not None and len(kwargs) == 1:
        # dict(a, **b) where b was built from empty by stores: a copy of a, then b's entries stored
        src = st.heap[args[0].oid]
        r = I.alloc_dict(st, keys=src.keys, vals=src.vals, ckeys=None if src.ckeys is None else list(src.ckeys))
        for f, v in src.fields.items():
            if f != "$entries":
                st.heap[r.oid].fields[f] = v
        for (k, v) in st.heap[kwargs["$symbolic_kwargs"].oid].fields["$entries"]:
            I.dict_store(st, r, k, v)
        return [(st, r)]
    if "$symbolic_kwargs" in kwargs and len(kwargs) == 1 and len(args) == 1 and isinstance(args[0], Ref) \
            and st.heap[args[0].oid].kind == "dict" and isinstance(kwargs["$symbolic_kwargs"], Ref) \
            and st.heap[kwargs["$symbolic_kwargs"].oid].kind == "dict":
        from . import objects
        a = args[0]
        if st.heap[a.oid].ckeys is not None:
            # a dict with known keys as first operand: give it the symbolic representation first
            ha = st.heap[a.oid]
            vals = z3.K(V, I.U.NONE)
            for kk in ha.ckeys:
                vals = z3.Store(vals, I.U.lit(kk), I.term(I.dict_load_c(st, a, kk)))
            a = I.alloc_dict(st, keys=ha.keys, vals=vals)
        u = objects.union_dict(I, st, a, kwargs["$symbolic_kwargs"])
        if u is not None:
            return [(st, u)]
    if "$symbolic_kwargs" in kwargs:
        # dict(a, **b) with a symbolic b: a fresh dict about which nothing is assumed (sound
        # over-approximation of the union)
        r = I.alloc_dict(st, keys=I.U.fresh_seq("unionkeys"),
                         vals=z3.Const("unionvals!%d" % I.new_oid(), z3.ArraySort(V, V)))
        return [(st, r)]
    r = I.alloc_dict(st)
    if args:
        x = args[0]
        d = I.known_dict(st, x)
        if d is None:
            if isinstance(x, Ref) and st.heap[x.oid].kind == "dict":
                src = st.heap[x.oid]
                h = st.heap[r.oid]
                h.keys, h.vals, h.ckeys = src.keys, src.vals, None
            else:
                raise OutOfReach("dict() of unknown mapping")
        else:
            for k, v in d.items():
                I.dict_store(st, r, Conc(k), v)
    for k, v in kwargs.items():
        I.dict_store(st, r, Conc(k), v)
    return [(st, r)]


def h_minmax(fn):
    def h(I, st, fv, args, kwargs, ctx):
        vals = list(args)
        if len(vals) == 1:
            its = I.known_items(st, vals[0])
            if its is None:
                raise OutOfReach("%s over a sequence of unknown length" % fn.__name__)
            vals = its
        if kwargs or not vals or not all(isinstance(v, Conc) and isinstance(v.py, (int, float)) and not isinstance(v.py, bool)
                                         and v.py == v.py for v in vals):
            raise OutOfReach("%s of symbolic values" % fn.__name__)
        return [(st, Conc(fn(v.py for v in vals)))]
    return h


def h_abs(I, st, fv, args, kwargs, ctx):
    x = args[0]
    if isinstance(x, Conc) and isinstance(x.py, (int, float)):
        return [(st, Conc(abs(x.py)))]
    if not isinstance(x, Sym):
        raise OutOfReach("abs of %r" % (x,))
    t = x.t
    r = I.U.fresh("abs")
    # numbers: same type (bool -> int), sign dropped; -inf -> inf; NaN stays NaN.  Other values: unconstrained
    st.pc.append(z3.Implies(I.U.isnum(t), z3.And(
        vm.ty(r) == z3.If(vm.ty(t) == vm.TAG["bool"], vm.TAG["int"], vm.ty(t)),
        vm.kind(r) == z3.If(vm.kind(t) == vm.NINF, vm.PINF, vm.kind(t)),
        vm.rv(r) == z3.If(vm.rv(t) < 0, -vm.rv(t), vm.rv(t)))))
    return [(st, Sym(r))]


def h_float(I, st, fv, args, kwargs, ctx):
    # float(<literal>) only: 'inf', '-inf', 'nan', numerals and numbers written in the source
    if len(args) == 1 and not kwargs and isinstance(args[0], Conc) and isinstance(args[0].py, (str, int, float)) \
            and not isinstance(args[0].py, bool):
        try:
            return [(st, Conc(float(args[0].py)))]
        except ValueError:
            return [(st, Raise("ValueError"))]
    raise OutOfReach("float() of a symbolic value")


def h_enumerate(I, st, fv, args, kwargs, ctx):
    its = I.known_items(st, args[0])
    if its is None or len(args) != 1 or kwargs:
        raise OutOfReach("enumerate over a sequence of unknown length")
    return [(st, TupV([TupV([Conc(i), v]) for i, v in enumerate(its)]))]


def h_zip(I, st, fv, args, kwargs, ctx):
    lists = [I.known_items(st, a) for a in args]
    if all(l is not None for l in lists):
        return [(st, TupV([TupV(list(t)) for t in zip(*lists)]))]
    # zip(literal, symbolic): iterate up to the literal's length, guarded by the other's length
    return [(st, FuncV("builtin", name="$zipobj", self=None, zargs=list(args)))]


def h_map(I, st, fv, args, kwargs, ctx):
    f, xs = args[0], args[1]
    its = I.path_known_items(st, xs)
    if its is not None:
        res = [(st, [])]
        for it in its:
            nxt = []
            for (q, acc) in res:
                if isinstance(acc, Raise):
                    nxt.append((q, acc))
                    continue
                for (r, v) in I.call(f, [it], {}, q, ctx):
                    nxt.append((r, v if isinstance(v, Raise) else acc + [v]))
            res = nxt
        return [(q, v if isinstance(v, Raise) else TupV(v)) for (q, v) in res]
    return [(st, FuncV("builtin", name="$mapobj", self=None, margs=(f, xs)))]


def h_object_getattribute(I, st, fv, args, kwargs, ctx):
    """object.__getattribute__(self, key): the raw slot read"""
    o, k = (args[0], args[1]) if len(args) == 2 else (fv.data.get("self"), args[0])
    if not isinstance(k, Conc):
        raise OutOfReach("object.__getattribute__ with symbolic name")
    c2 = dict(ctx)
    c2["$raw_getattr"] = True
    return I.getattr(st, o, k.py, c2)


def h_noop(I, st, fv, args, kwargs, ctx):
    I.stats["dropped"].add(fv.data.get("name", "?"))
    return [(st, Conc(None))]


def h_opaque_str(I, st, fv, args, kwargs, ctx):
    c = I.U.fresh("str")
    I.U.axioms.append(vm.ty(c) == vm.TAG["str"])
    return [(st, Sym(c))]


def h_isgeneratorfunction(I, st, fv, args, kwargs, ctx):
    x = args[0]
    if isinstance(x, (Conc, TupV, BoolV)):
        return [(st, Conc(False))]
    t = I.term(x)
    I.U.axioms.append(z3.Implies(vm.isgenfunc(t), vm.is_callable(t)))
    return [(st, BoolV(vm.isgenfunc(t)))]


def h_binop(I, st, op, a, b, ctx, node):
    hx = I.lib.get("$binop_first")
    if hx is not None:
        r = hx(I, st, op, a, b, ctx, node)
        if r is not None:
            return r
    if isinstance(a, Conc) and isinstance(b, Conc):
        try:
            f = {ast.Add: lambda x, y: x + y, ast.Sub: lambda x, y: x - y, ast.Mult: lambda x, y: x * y,
                 ast.Mod: lambda x, y: x % y, ast.FloorDiv: lambda x, y: x // y,
                 ast.Div: lambda x, y: x / y}[type(op)]
            return [(st, Conc(f(a.py, b.py)))]
        except KeyError:
            raise OutOfReach("binop %s" % type(op).__name__)
        except Exception as e:
            return [(st, Raise(type(e).__name__))]
    if isinstance(op, ast.Mod) and isinstance(a, Conc) and isinstance(a.py, str):
        I.stats["dropped"].add("%-format")
        return [(st, Sym(I.opaque_str(node)))]
    if isinstance(op, ast.Add):
        if isinstance(a, TupV) and isinstance(b, TupV):
            return [(st, TupV(a.items + b.items))]
        ia, ib = I.known_items(st, a), I.known_items(st, b)
        if isinstance(a, Ref) and isinstance(b, Ref) and st.heap[a.oid].kind == "list" and st.heap[b.oid].kind == "list":
            if ia is not None and ib is not None:
                return [(st, I.make_list(st, ia + ib))]
            return [(st, I.alloc_list(st, z3.Concat(st.heap[a.oid].seq, st.heap[b.oid].seq)))]
        if isinstance(a, Conc) and isinstance(a.py, str) or isinstance(b, Conc) and isinstance(b.py, str):
            I.stats["dropped"].add("str-concat")
            return [(st, Sym(I.opaque_str(node)))]
    h = I.lib.get("$binop_ext")
    if h is not None:
        r = h(I, st, op, a, b, ctx, node)
        if r is not None:
            return r
    raise OutOfReach("binop %s on %r, %r" % (type(op).__name__, a, b))


def h_value_method(name):
    def h(I, st, fv, args, kwargs, ctx):
        hh = I.lib.get("$value_method")
        if hh is not None:
            r = hh(I, st, name, fv.data.get("self"), args, kwargs, ctx)
            if r is not None:
                return r
        raise OutOfReach("method .%s on value %r" % (name, fv.data.get("self")))
    return h


class _Lib(dict):
    """Handlers by name; 'value.<m>', 'list.<m>', 'dict.<m>' fall back to generic handlers."""

    def get(self, k, d=None):
        if k in self:
            return self[k]
        if isinstance(k, str):
            if k.startswith("value."):
                return h_value_method(k[6:])
        return d


def install(I):
    L = _Lib()
    I.lib = L
    L["isinstance"] = h_isinstance
    L["callable"] = h_callable
    L["len"] = h_len
    L["type"] = h_type
    L["new:type"] = h_type
    L["hasattr"] = h_hasattr
    L["getattr"] = h_getattr
    L["setattr"] = h_setattr
    L["new:object"] = lambda I, st, fv, args, kwargs, ctx: [(st, I.alloc_obj(st, None, lazy=False, label="object()"))]
    L["new:int"] = h_int
    L.setdefault("new:float", h_float)
    L["new:tuple"] = h_tuple
    L["new:list"] = h_list
    L["new:dict"] = h_dict
    L["zip"] = h_zip
    L["enumerate"] = h_enumerate
    L.setdefault("abs", h_abs)
    L.setdefault("max", h_minmax(max))
    L.setdefault("min", h_minmax(min))
    L["map"] = h_map
    L["print"] = h_noop
    L["warnings.warn"] = h_noop
    L["repr"] = h_opaque_str
    L["str"] = h_opaque_str
    L["new:str"] = h_opaque_str
    L["format"] = h_opaque_str
    L["inspect.isgeneratorfunction"] = h_isgeneratorfunction
    L["object.__getattribute__"] = h_object_getattribute
    L["$binop"] = h_binop
    from . import lib_seq, lib_misc
    lib_seq.install(I)
    lib_misc.install(I)
