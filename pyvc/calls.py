"""Call resolution (DESIGN.md §2.5): sidecar contract → library contract → inlining of repo
code → OutOfReach.  Never a silent havoc."""
import ast

import z3

from . import values as vm
from .engine import OutOfReach, Raise
from .values import BoolV, ClsV, Conc, FuncV, ModV, Ref, Sym, TupV


def call(I, fv, args, kwargs, st, ctx):
    if isinstance(fv, FuncV):
        k = fv.kind
        if k == "repo":
            return call_repo(I, fv, args, kwargs, st, ctx)
        if k == "builtin":
            name = fv.data["name"]
            h = I.lib.get(name)
            if h is None:
                raise OutOfReach("builtin %s" % name)
            I.stats["lib_calls"].add(name)
            return h(I, st, fv, args, kwargs, ctx)
        if k == "lambda":
            return call_lambda(I, fv, args, kwargs, st, ctx)
        if k == "opaque":
            h = I.lib.get("$opaque_call")
            if h is None:
                raise OutOfReach("call of opaque callable")
            return h(I, st, fv, args, kwargs, ctx)
    if isinstance(fv, ClsV):
        h = I.lib.get("new:" + fv.name)
        if h is not None:
            I.stats["lib_calls"].add("new:" + fv.name)
            return h(I, st, fv, args, kwargs, ctx)
        # instantiate a repo class: allocate + __init__
        if I.src.module_of_class(fv.name) is not None:
            return construct(I, fv.name, args, kwargs, st, ctx)
        raise OutOfReach("constructor %s" % fv.name)
    if isinstance(fv, Sym):
        h = I.lib.get("$sym_call")
        if h is not None:
            return h(I, st, fv, args, kwargs, ctx)
        raise OutOfReach("call of symbolic value")
    if isinstance(fv, Ref):
        hobj = st.heap[fv.oid]
        if hobj.cls:
            f = I.src.find_method(hobj.cls, "__call__")
            if f:
                return call(I, I.bound_method(fv, f), args, kwargs, st, ctx)
    raise OutOfReach("call of %r" % (fv,))


def construct(I, cname, args, kwargs, st, ctx):
    ref = I.alloc_obj(st, cname)
    found = I.src.find_method(cname, "__init__")
    if found is None:
        return [(st, ref)]
    res = call(I, I.bound_method(ref, found), args, kwargs, st, ctx)
    return [(q, v if isinstance(v, Raise) else ref) for (q, v) in res]


TRANSPARENT_DECORATORS = ("_deprecate_positional_args", "_recursive_repr", "wraps", "staticmethod",
                          "classmethod", "property", "typing.overload", "_deprecated",
                          "functools.wraps")


def bind_params(I, fd, args, kwargs, selfv, st, ctx, defaults_ctx):
    """Python parameter binding for a FunctionDef.  Returns env dict or Raise('TypeError')."""
    a = fd.args
    env = {}
    params = [p.arg for p in a.posonlyargs + a.args]
    pos = list(args)
    if selfv is not None:
        pos = [selfv] + pos
    # positional
    if len(pos) > len(params) and a.vararg is None:
        return Raise("TypeError")
    for name, v in zip(params, pos):
        env[name] = v
    extra = pos[len(params):]
    if a.vararg is not None:
        env[a.vararg.arg] = TupV(extra)
    kw = dict(kwargs)
    # defaults for positional params
    ndef = len(a.defaults)
    defaults = {}
    for p, d in zip(params[len(params) - ndef:], a.defaults):
        defaults[p] = d
    for name in params[len(pos):]:
        if name in kw:
            env[name] = kw.pop(name)
        elif name in defaults:
            env[name] = eval_default(I, defaults[name], st, defaults_ctx)
        else:
            return Raise("TypeError")
    for name in params[:len(pos)]:
        if name in kw:
            return Raise("TypeError")
    for p, d in zip(a.kwonlyargs, a.kw_defaults):
        if p.arg in kw:
            env[p.arg] = kw.pop(p.arg)
        elif d is not None:
            env[p.arg] = eval_default(I, d, st, defaults_ctx)
        else:
            return Raise("TypeError")
    if a.kwarg is not None and set(kw) == {"$symbolic_kwargs"} and isinstance(kw["$symbolic_kwargs"], Ref):
        # called with **<a mapping of unknown keys>: the callee's **kwargs IS that mapping
        env[a.kwarg.arg] = kw["$symbolic_kwargs"]
    elif a.kwarg is not None:
        r = I.alloc_dict(st)
        for k, v in kw.items():
            I.dict_store(st, r, Conc(k), v)
        env[a.kwarg.arg] = r
    elif "$symbolic_kwargs" in kw:
        raise OutOfReach("**<mapping of unknown keys> passed to a function without **kwargs")
    elif kw:
        return Raise("TypeError")
    return env


def eval_default(I, d, st, dctx):
    res = I.eval(d, st, dctx)
    if len(res) != 1 or isinstance(res[0][1], Raise):
        raise OutOfReach("default value expression forks")
    return res[0][1]


def call_repo(I, fv, args, kwargs, st, ctx):
    fd = fv.data["node"]
    module = fv.data["module"]
    cls = fv.data.get("cls")
    selfv = fv.data.get("self")
    qual = fv.data.get("qual") or fd.name
    # 1. sidecar contract for the callee (modular verification)
    ch = I.contracts.get(qual)
    # (the function under verification runs its real body; a RECURSIVE call of it is replaced by the
    # contract when the contract module asked for that — I.recursive_contracts)
    if ch is not None and (not ctx.get("verifying") == qual
                           or (st.depth > 0 and qual in getattr(I, "recursive_contracts", ()))):
        I.stats["contract_calls"].add(qual)
        r = ch(I, st, fv, args, kwargs, ctx)
        if r is not None:
            return r
    if st.depth >= I.max_depth:
        raise OutOfReach("inlining depth exceeded at %s" % qual)
    decos = [ast.unparse(d) for d in fd.decorator_list]
    for d in decos:
        base = d.split("(")[0]
        if base in TRANSPARENT_DECORATORS or base.endswith(".setter") or base.endswith(".getter"):
            continue
        dh = I.lib.get("deco:" + base)
        if dh is not None:
            r = dh(I, st, fv, args, kwargs, ctx)
            if r is not None:
                return r
            continue
        raise OutOfReach("decorator %s on %s" % (d, qual))
    if isinstance(fd, ast.AsyncFunctionDef):
        raise OutOfReach("async function %s" % qual)
    for n in ast.walk(fd):
        if isinstance(n, (ast.Yield, ast.YieldFrom)):
            raise OutOfReach("generator %s called as a function" % qual)
    is_static = "staticmethod" in decos
    is_clsm = "classmethod" in decos
    if is_static:
        selfv = None
    if is_clsm:
        selfv = ClsV(I.class_of(st, selfv) or cls) if not isinstance(selfv, ClsV) else selfv
    cctx = I.child_ctx(ctx, module, cls, (fd.args.args[0].arg if (cls and fd.args.args and not is_static) else None),
                       qual, fd)
    env = bind_params(I, fd, args, kwargs, selfv, st, ctx, cctx)
    if isinstance(env, Raise):
        return [(st, env)]
    I.stats["inlined"].add(qual)
    saved_env = st.env
    st.env = env
    st.depth += 1
    out = []
    base_len = len(st.pc)
    for (q, oc) in I.exec_block(fd.body, st, cctx):
        q.env = dict(saved_env)
        q.depth -= 1
        if oc is None:
            out.append((q, Conc(None)))
        elif oc[0] == "return":
            out.append((q, oc[1]))
        elif oc[0] == "raise":
            out.append((q, oc[1]))
        else:
            raise OutOfReach("break/continue escaped function")
    I.stats["paths"] += len(out)
    if len(out) > 1 and not ctx.get("verifying") == qual:
        out = merge_results(I, out, base_len)
    return out


def _sig(v):
    import z3 as _z3
    if isinstance(v, (str, int, float, bool, type(None))):
        return v
    if isinstance(v, Conc):
        return ("c", type(v.py).__name__, repr(v.py))
    if isinstance(v, Sym):
        return ("s", v.t.get_id())
    if isinstance(v, BoolV):
        return ("b", v.b.get_id())
    if isinstance(v, Ref):
        return ("r", v.oid)
    if isinstance(v, ClsV):
        return ("k", v.name)
    if isinstance(v, Raise):
        return ("x", v.cls, v.origin)
    if isinstance(v, (list, tuple)):
        return tuple(_sig(x) for x in v)
    if isinstance(v, dict):
        return tuple(sorted(((str(k), _sig(x)) for k, x in v.items()), key=lambda kv: kv[0]))
    if isinstance(v, _z3.ExprRef):
        return ("z", v.get_id())
    return ("id", id(v))


def _state_sig(q):
    hs = []
    for oid in sorted(q.heap):
        h = q.heap[oid]
        hs.append((oid, h.kind, h.cls, _sig(h.fields),
                   None if h.seq is None else h.seq.get_id(),
                   None if h.keys is None else h.keys.get_id(),
                   None if h.vals is None else h.vals.get_id(),
                   None if h.ckeys is None else tuple(h.ckeys)))
    return (tuple(hs), _sig(q.ghost), _sig(q.env), tuple(q.notes))


def merge_results(I, out, base_len):
    """Join paths that return the same value in the same heap: one state whose path condition
    is the disjunction of theirs (sound and complete; keeps sequential validators additive
    instead of multiplicative in the number of paths)."""
    groups = {}
    order = []
    for (q, v) in out:
        key = (_sig(v), _state_sig(q))
        if key not in groups:
            groups[key] = []
            order.append(key)
        groups[key].append((q, v))
    merged = []
    for key in order:
        grp = groups[key]
        if len(grp) == 1:
            merged.append(grp[0])
            continue
        q0, v0 = grp[0]
        suffixes = [q.pc[base_len:] for (q, _) in grp]
        if any(len(sf) == 0 for sf in suffixes):
            q0.pc = q0.pc[:base_len]
        else:
            q0.pc = q0.pc[:base_len] + [z3.simplify(z3.Or([z3.And(sf) if len(sf) > 1 else sf[0] for sf in suffixes]))]
        merged.append((q0, v0))
    return merged


def call_lambda(I, fv, args, kwargs, st, ctx):
    node = fv.data["node"]
    cctx = fv.data.get("ctx") or ctx
    closure = fv.data.get("env") or {}
    if isinstance(node, ast.Lambda):
        fd_args = node.args
        fake = ast.FunctionDef(name="<lambda>", args=fd_args, body=[], decorator_list=[])
        env = bind_params(I, fake, args, kwargs, None, st, ctx, cctx)
        if isinstance(env, Raise):
            return [(st, env)]
        saved = st.env
        new_env = dict(closure)
        new_env.update(env)
        st.env = new_env
        out = []
        for (q, v) in I.eval(node.body, st, cctx):
            q.env = dict(saved)
            out.append((q, v))
        return out
    env = bind_params(I, node, args, kwargs, None, st, ctx, cctx)
    if isinstance(env, Raise):
        return [(st, env)]
    saved = st.env
    new_env = dict(closure)
    new_env.update(env)
    st.env = new_env
    st.depth += 1
    out = []
    for (q, oc) in I.exec_block(node.body, st, cctx):
        q.env = dict(saved)
        q.depth -= 1
        if oc is None:
            out.append((q, Conc(None)))
        elif oc[0] in ("return", "raise"):
            out.append((q, oc[1]))
        else:
            raise OutOfReach("break/continue escaped function")
    return out
