"""Counter-model → Python source.  Turns the views (ty, kind, rv, tlen, titem, strv, dord, …) of a
symbolic value in a z3 model into a Python expression that builds such a value, for replaying
refuted obligations on the real code."""
import z3

from . import values as vm

PRELUDE = '''import sys, math, datetime as dt
from fractions import Fraction
from decimal import Decimal
import os; sys.path.insert(0, os.environ.get('PYVC_REPO', '/repo'))
import param
nan = float('nan'); inf = float('inf')
class _Opaque:
    def __init__(self, tag): self.tag = tag
    def __repr__(self): return '<opaque %s>' % self.tag
'''


def ev(model, t):
    return model.eval(t, model_completion=True)


def as_int(x):
    try:
        return x.as_long()
    except Exception:
        return int(str(x))


def py_expr(model, t, depth=0, U=None):
    """Python source for the value term t under `model` (best effort; realisable models give
    faithful values because symbolic inputs carry the validity predicate `well_typed`)."""
    if depth > 4:
        return "None"
    tyv = as_int(ev(model, vm.ty(t)))
    name = vm.TYPES[tyv] if 0 <= tyv < len(vm.TYPES) else "object"
    if name == "NoneType":
        return "None"
    if name == "Undefined":
        return "param.parameterized.Undefined"
    if name == "bool":
        if U is not None:
            return "True" if z3.is_true(ev(model, t == U.TRUE)) else "False"
        return "True" if str(ev(model, vm.rv(t))) not in ("0", "0.0") else "False"
    if name in ("int", "float", "Fraction", "Decimal"):
        k = as_int(ev(model, vm.kind(t)))
        if k == vm.NAN:
            return "nan" if name != "Decimal" else "Decimal('nan')"
        if k == vm.PINF:
            return "inf"
        if k == vm.NINF:
            return "-inf"
        r = ev(model, vm.rv(t))
        try:
            num, den = r.numerator_as_long(), r.denominator_as_long()
        except Exception:
            num, den = 0, 1
        if name == "int":
            return str(num // den)
        if name == "float":
            return repr(num / den)
        if name == "Fraction":
            return "Fraction(%d, %d)" % (num, den)
        return "Decimal(%d) / Decimal(%d)" % (num, den)
    if name == "str":
        s = ev(model, vm.strv(t))
        try:
            return repr(s.as_string())
        except Exception:
            return "'x'"
    if name == "bytes":
        n = as_int(ev(model, vm.slen(t)))
        return repr(b"x" * max(0, min(n, 8)))
    if name in ("tuple", "list"):
        n = as_int(ev(model, vm.tlen(t)))
        n = max(0, min(n, 6))
        items = [py_expr(model, vm.titem(t, i), depth + 1, U) for i in range(n)]
        if name == "tuple":
            return "(" + ", ".join(items) + ("," if n == 1 else "") + ")"
        return "[" + ", ".join(items) + "]"
    if name == "dict":
        return "{}"
    if name == "set":
        return "set()"
    if name in ("date", "datetime"):
        d = as_int(ev(model, vm.dord(t)))
        d = max(-700000, min(d, 2900000))
        if name == "date":
            return "(dt.date(2000, 1, 1) + dt.timedelta(days=%d))" % d
        return "(dt.datetime(2000, 1, 1) + dt.timedelta(days=%d))" % d
    if name == "function":
        return "(lambda *a, **k: None)"
    if name == "type":
        return "int"
    return "_Opaque(%r)" % str(t)[:30]


def seq_items(model, seq, limit=6):
    """Elements (terms) of a z3 Seq(V) value in the model."""
    n = as_int(ev(model, z3.Length(seq)))
    return [seq[i] for i in range(max(0, min(n, limit)))]
