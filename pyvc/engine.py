"""pyvc — forward symbolic executor over the real Python AST of /repo (DESIGN.md §2).

The executor interprets function bodies (``ast`` nodes read from /repo on every run) over the
value model of ``pyvc.values``; control flow forks on symbolic conditions (infeasible sides are
pruned with z3), exceptions are control outcomes, calls are resolved to sidecar contracts,
library contracts, or inlined repo code.  At every path end the contract's postcondition is
turned into one obligation ``axioms ∧ path-condition ⇒ clause``.
"""
import ast
import builtins as _bi
import itertools

import z3

from . import values as vm
from .values import (BoolV, ClsV, Conc, FuncV, ModV, Ref, StrCat, Sym, TupV, V, Val)


class OutOfReach(Exception):
    """A construct outside the supported subset: the function is *not proved* (never a
    violation, never silently havocked)."""


class Raise:
    """Exceptional outcome.  ``cls`` is an exception class name ('ValueError', 'Skip', '$User')."""

    def __init__(self, cls, val=None, origin=None):
        self.cls = cls
        self.val = val
        self.origin = origin

    def __repr__(self):
        return "Raise(%s)" % self.cls


REPO_EXC = {"Skip": "Exception", "$User": "Exception", "ParamOverrides": None,
            "UnserializableException": "Exception", "UnsafeserializableException": "Exception"}


def exc_matches(cls, handler):
    """Does exception class ``cls`` match handler class name ``handler``?  Returns True/False."""
    if handler in ("BaseException",):
        return True
    if cls == handler:
        return True
    if cls in REPO_EXC:
        base = REPO_EXC[cls]
        return base is not None and exc_matches(base, handler)
    c = getattr(_bi, cls, None)
    h = getattr(_bi, handler, None)
    if isinstance(c, type) and isinstance(h, type):
        return issubclass(c, h)
    return False


class HObj:
    """Heap object.  kind 'obj': fields; 'list': seq (z3 Seq V); 'dict': keys (Seq V) + vals
    (Array V->V).  ``lazy``: unknown fields materialise as fresh symbols on first read (input
    objects about which only the contract's precondition is known)."""
    __slots__ = ("kind", "cls", "fields", "seq", "keys", "vals", "lazy", "init", "label", "ckeys")

    def __init__(self, kind, cls=None, lazy=False, label=None):
        self.kind = kind
        self.cls = cls
        self.fields = {}
        self.seq = None
        self.keys = None
        self.vals = None
        self.lazy = lazy
        self.init = {}
        self.label = label
        self.ckeys = None   # for dicts whose key set is fully concrete: ordered list of python keys

    def copy(self):
        h = HObj(self.kind, self.cls, self.lazy, self.label)
        h.fields = dict(self.fields)
        h.seq, h.keys, h.vals = self.seq, self.keys, self.vals
        h.init = self.init      # shared on purpose: initial values never change
        h.ckeys = None if self.ckeys is None else list(self.ckeys)
        return h


class State:
    __slots__ = ("env", "heap", "pc", "ghost", "depth", "notes")

    def __init__(self):
        self.env = {}
        self.heap = {}
        self.pc = []
        self.ghost = {}
        self.depth = 0
        self.notes = []

    def fork(self):
        s = State()
        s.env = dict(self.env)
        s.heap = {k: h.copy() for k, h in self.heap.items()}
        s.pc = list(self.pc)
        s.ghost = {k: (list(v) if isinstance(v, list) else (dict(v) if isinstance(v, dict) else v))
                   for k, v in self.ghost.items()}
        s.depth = self.depth
        s.notes = list(self.notes)
        return s


ArrVV = z3.ArraySort(V, V)
OPAQUE_TYPES = ["object", "Parameter", "Parameterized", "OrderedDict", "ListProxy", "Decimal"]


class Interp:
    def __init__(self, sources, universe=None, timeout_ms=10000):
        self.src = sources
        self.U = universe or vm.Universe()
        self.timeout_ms = timeout_ms
        self._oid = itertools.count(1)
        self.contracts = {}        # qualname 'Class.method' or 'func' -> callable(interp, st, fv, args, kwargs) -> results
        self.lib = {}              # builtin / library handlers by name
        self.max_depth = 12
        self.stats = {"paths": 0, "feas_checks": 0, "inlined": set(), "contract_calls": set(),
                      "lib_calls": set(), "dropped": set()}
        # wall-clock budget of one symbolic execution: beyond it the function is reported out of reach
        # (undecided), never a violation — a changed function that explodes the path count must not
        # stall the whole check
        import os as _os, time as _time
        self.deadline = _time.time() + float(_os.environ.get("PYVC_EXEC_BUDGET_S", "150"))
        self.getattribute_hook = False   # route Parameter slot reads through Parameter.__getattribute__
        self.setattr_hook = None         # callable(interp, st, ref, attr, val) -> results or None
        self.attr_hook = None            # callable(interp, st, val, attr) -> Val or None (contract supplied)
        self.sym_fields = None           # set of attribute names modelled as field maps on symbolic objects
        self._solver = None
        self._n_ax = 0
        from . import builtins_lib
        builtins_lib.install(self)

    # ------------------------------------------------------------------ solver ---------
    def _base_solver(self):
        if self._solver is None:
            self._solver = z3.Solver()
            self._solver.set("timeout", 2000)
            self._n_ax = 0
            self._n_distinct = -1
        ax = self.U.axioms
        if self._n_ax < len(ax):
            self._solver.add(*ax[self._n_ax:])
            self._n_ax = len(ax)
        if self._n_distinct != len(self.U._distinct_pool):
            self._solver.add(self.U.distinct_axiom())
            self._n_distinct = len(self.U._distinct_pool)
        return self._solver

    def feasible(self, st, extra=None):
        """False only when pc ∧ extra is *proved* unsatisfiable (unknown counts as feasible)."""
        s = self._base_solver()
        s.push()
        try:
            s.add(*st.pc)
            if extra is not None:
                s.add(extra)
            self.stats["feas_checks"] += 1
            return s.check() != z3.unsat
        finally:
            s.pop()

    def valid(self, st, f):
        """True when pc ⇒ f is proved."""
        return not self.feasible(st, z3.Not(f))

    # ------------------------------------------------------------------ heap -----------
    def new_oid(self):
        return next(self._oid)

    def alloc_obj(self, st, cls, lazy=False, label=None):
        oid = self.new_oid()
        st.heap[oid] = HObj("obj", cls, lazy, label)
        return Ref(oid)

    def alloc_list(self, st, seq=None, cls="list"):
        oid = self.new_oid()
        h = HObj("list", cls)
        h.seq = seq if seq is not None else z3.Empty(vm.SeqV)
        st.heap[oid] = h
        return Ref(oid)

    def alloc_dict(self, st, cls="dict", keys=None, vals=None, ckeys=None):
        oid = self.new_oid()
        h = HObj("dict", cls)
        h.keys = keys if keys is not None else z3.Empty(vm.SeqV)
        h.vals = vals if vals is not None else z3.K(V, self.U.NONE)
        h.ckeys = ckeys if ckeys is not None else ([] if keys is None else None)
        if keys is None and ckeys is None:
            h.fields["$entries"] = []     # built from empty by stores only: the entries in order
        st.heap[oid] = h
        return Ref(oid)

    def obj(self, st, ref):
        return st.heap[ref.oid]

    # ------------------------------------------------------------------ conversions ----
    def term(self, v):
        """Val -> z3 term of sort V."""
        U = self.U
        if isinstance(v, Sym):
            return v.t
        if isinstance(v, Conc):
            return U.lit(v.py)
        if isinstance(v, BoolV):
            b = z3.simplify(v.b)
            if z3.is_true(b):
                return U.TRUE
            if z3.is_false(b):
                return U.FALSE
            return z3.If(v.b, U.TRUE, U.FALSE)
        if isinstance(v, TupV):
            if v._term is None:
                items = [self.term(i) for i in v.items]
                n = len(items)
                if n == 0:
                    c = z3.Const("tuple0", V)
                else:
                    mk = z3.Function("tuple%d" % n, *([V] * n + [V]))
                    c = mk(*items)
                if c.get_id() not in U._misc_done:
                    U._misc_done.add(c.get_id())
                    U._wt_keep.append(c)
                    U.axioms += [vm.ty(c) == vm.TAG["tuple"], vm.tlen(c) == n, vm.slen(c) == n,
                                 vm.truthy(c) == (n > 0), z3.Not(vm.is_callable(c)), c != U.NONE]
                    U.axioms += [vm.titem(c, k) == it for k, it in enumerate(items)]
                v._term = c
            return v._term
        if isinstance(v, Ref):
            return U.ref_const(v.oid)
        if isinstance(v, ClsV):
            return U.cls_const(v.name)
        if isinstance(v, FuncV):
            if v.kind == "opaque":
                return v.data["term"]
            key = "fn_%s" % (v.data.get("qual") or v.data.get("name") or id(v))
            c = U.cls_const(key)
            return c
        if isinstance(v, ModV):
            return U.cls_const("mod_" + v.name)
        if isinstance(v, StrCat):
            if v._term is None:
                c = U.fresh("text")
                U.axioms.append(vm.ty(c) == vm.TAG["str"])
                v._term = c
            return v._term
        raise OutOfReach("term of %r" % (v,))

    def truth(self, v):
        """Python truthiness of a Val: Python bool or z3 Bool."""
        if isinstance(v, Conc):
            return bool(v.py)
        if isinstance(v, BoolV):
            b = z3.simplify(v.b)
            if z3.is_true(b):
                return True
            if z3.is_false(b):
                return False
            return v.b
        if isinstance(v, TupV):
            return len(v.items) > 0
        if isinstance(v, (ClsV, FuncV, ModV)):
            return True
        if isinstance(v, StrCat):
            if any(isinstance(p, str) and p for p in v.parts):
                return True
            raise OutOfReach("truth of structured text")
        if isinstance(v, Ref):
            return None  # needs state: handled by truth_in
        if isinstance(v, Sym):
            t = v.t
            if t.eq(self.U.NONE) or t.eq(self.U.FALSE):
                return False
            if t.eq(self.U.TRUE) or t.eq(self.U.UNDEF):
                return True
            return vm.truthy(t)
        raise OutOfReach("truth of %r" % (v,))

    def truth_in(self, st, v):
        if isinstance(v, Ref):
            h = st.heap[v.oid]
            if h.kind == "list":
                r = z3.simplify(z3.Length(h.seq) > 0)
            elif h.kind == "dict":
                if h.ckeys is not None:
                    return len(h.ckeys) > 0
                r = z3.simplify(z3.Length(h.keys) > 0)
            else:
                return True
            if z3.is_true(r):
                return True
            if z3.is_false(r):
                return False
            return r
        return self.truth(v)

    def is_same(self, a, b):
        """`a is b`: Python bool when decidable syntactically, else z3 Bool."""
        if isinstance(a, Conc) and isinstance(b, Conc):
            if a.py is None or b.py is None or isinstance(a.py, bool) or isinstance(b.py, bool):
                return a.py is b.py
            return type(a.py) is type(b.py) and a.py == b.py
        if isinstance(a, Ref) and isinstance(b, Ref):
            return a.oid == b.oid
        if isinstance(a, ClsV) and isinstance(b, ClsV):
            return a.name == b.name
        if isinstance(a, (Ref, ClsV, TupV, FuncV, ModV)) and isinstance(b, Conc):
            return False
        if isinstance(b, (Ref, ClsV, TupV, FuncV, ModV)) and isinstance(a, Conc):
            return False
        ta, tb = self.term(a), self.term(b)
        r = z3.simplify(ta == tb)
        if z3.is_true(r):
            return True
        if z3.is_false(r):
            return False
        return r

    # ------------------------------------------------------------------ running --------
    def bind(self, results, fn):
        """Thread a list of (state, value|Raise) through fn(state, value) -> list."""
        out = []
        for st, v in results:
            if isinstance(v, Raise):
                out.append((st, v))
            else:
                out += fn(st, v)
        return out

    def branch(self, st, cond):
        """Split on a condition (Python bool or z3 Bool).  Returns [(state, bool)], pruning
        infeasible sides."""
        if cond is True or cond is False:
            return [(st, cond)]
        cond = z3.simplify(cond)
        if z3.is_true(cond):
            return [(st, True)]
        if z3.is_false(cond):
            return [(st, False)]
        out = []
        ft = self.feasible(st, cond)
        ff = self.feasible(st, z3.Not(cond)) if ft else True
        if ft and ff:
            s2 = st.fork()
            st.pc.append(cond)
            s2.pc.append(z3.Not(cond))
            return [(st, True), (s2, False)]
        if ft:
            st.pc.append(cond)
            return [(st, True)]
        if ff:
            st.pc.append(z3.Not(cond))
            return [(st, False)]
        return []

    # ------------------------------------------------------------------ statements -----
    def exec_block(self, stmts, st, ctx):
        """Returns list of (state, outcome); outcome None (fell through) | ('return', v) |
        ('raise', Raise) | ('break',) | ('continue',)."""
        live = [st]
        done = []
        skip_from = message_only_start(stmts)
        for idx_, s in enumerate(stmts):
            if skip_from is not None and skip_from <= idx_ < len(stmts) - 1:
                self.stats["dropped"].add("message-construction statements (A-MSG)")
                continue
            nxt = []
            for q in live:
                for (r, oc) in self.exec_stmt(s, q, ctx):
                    if oc is None:
                        nxt.append(r)
                    else:
                        done.append((r, oc))
            live = nxt
            if not live:
                break
            if len(live) > 1:
                live = merge_states(live, self)
        return [(q, None) for q in live] + done

    def exec_stmt(self, s, st, ctx):
        import time as _time
        if _time.time() > self.deadline:
            raise OutOfReach("symbolic execution exceeded its time budget (path explosion)")
        m = getattr(self, "st_" + type(s).__name__, None)
        if m is None:
            raise OutOfReach("statement %s at line %d" % (type(s).__name__, getattr(s, "lineno", 0)))
        return m(s, st, ctx)

    def _res_to_outcomes(self, results, cont):
        out = []
        for st, v in results:
            if isinstance(v, Raise):
                out.append((st, ("raise", v)))
            else:
                out += cont(st, v)
        return out

    def st_Pass(self, s, st, ctx):
        return [(st, None)]

    def st_Global(self, s, st, ctx):
        return [(st, None)]

    def st_Nonlocal(self, s, st, ctx):
        return [(st, None)]

    def st_Import(self, s, st, ctx):
        for a in s.names:
            st.env[(a.asname or a.name).split(".")[0]] = ModV(a.name)
        return [(st, None)]

    def st_ImportFrom(self, s, st, ctx):
        for a in s.names:
            nm = a.asname or a.name
            st.env[nm] = self.global_name(a.name, ctx, module_hint=s.module)
        return [(st, None)]

    def st_Expr(self, s, st, ctx):
        if isinstance(s.value, ast.Constant):
            return [(st, None)]   # docstring
        if isinstance(s.value, ast.Yield):
            from . import managers
            return managers.exec_yield_stmt(self, s.value, st, ctx)
        return self._res_to_outcomes(self.eval(s.value, st, ctx), lambda q, v: [(q, None)])

    def st_Return(self, s, st, ctx):
        if s.value is None:
            return [(st, ("return", Conc(None)))]
        return self._res_to_outcomes(self.eval(s.value, st, ctx), lambda q, v: [(q, ("return", v))])

    def st_Raise(self, s, st, ctx):
        if s.exc is None:
            cur = st.env.get("$exc")
            if cur is None:
                raise OutOfReach("bare raise outside handler")
            return [(st, ("raise", cur))]
        e = s.exc
        # exception construction: the message is dropped (proofs never depend on message text)
        if isinstance(e, ast.Call):
            cname = self._exc_name(e.func, st, ctx)
            if cname is not None:
                self.stats["dropped"].add("exception-message")
                rz = Raise(cname, origin=s.lineno)
                if s.cause is not None:
                    pass
                return [(st, ("raise", rz))]
        if isinstance(e, ast.Name):
            v = st.env.get(e.id)
            if isinstance(v, Raise):
                return [(st, ("raise", v))]
            cname = self._exc_name(e, st, ctx)
            if cname is not None:
                return [(st, ("raise", Raise(cname, origin=s.lineno)))]
        raise OutOfReach("raise of %s" % ast.unparse(e))

    def _exc_name(self, f, st, ctx):
        if isinstance(f, ast.Name):
            v = st.env.get(f.id)
            if isinstance(v, ClsV):
                return v.name
            n = f.id
            if isinstance(getattr(_bi, n, None), type) and issubclass(getattr(_bi, n), BaseException):
                return n
            if n in REPO_EXC:
                return n
        return None

    def st_Assert(self, s, st, ctx):
        def cont(q, v):
            out = []
            for (r, b) in self.branch(q, self.truth_in(q, v)):
                out.append((r, None) if b else (r, ("raise", Raise("AssertionError", origin=s.lineno))))
            return out
        return self._res_to_outcomes(self.eval(s.test, st, ctx), cont)

    def st_Assign(self, s, st, ctx):
        def cont(q, v):
            res = [(q, None)]
            for t in s.targets:
                nxt = []
                for (r, oc) in res:
                    if oc is not None:
                        nxt.append((r, oc))
                    else:
                        nxt += self.assign(t, v, r, ctx)
                res = nxt
            return res
        return self._res_to_outcomes(self.eval(s.value, st, ctx), cont)

    def st_AnnAssign(self, s, st, ctx):
        if s.value is None:
            return [(st, None)]
        return self._res_to_outcomes(self.eval(s.value, st, ctx), lambda q, v: self.assign(s.target, v, q, ctx))

    def st_AugAssign(self, s, st, ctx):
        load = ast.copy_location(ast.BinOp(left=_as_load(s.target), op=s.op, right=s.value), s)
        ast.fix_missing_locations(load)
        return self._res_to_outcomes(self.eval(load, st, ctx), lambda q, v: self.assign(s.target, v, q, ctx))

    def assign(self, target, v, st, ctx):
        """-> list of (state, outcome)"""
        if isinstance(target, ast.Name):
            st.env[target.id] = v
            return [(st, None)]
        if isinstance(target, (ast.Tuple, ast.List)):
            n = len(target.elts)
            outs = []
            for (q, its) in self.unpack(st, v, n):
                if isinstance(its, Raise):
                    outs.append((q, ("raise", its)))
                    continue
                res = [(q, None)]
                for t, iv in zip(target.elts, its):
                    nxt = []
                    for (r, oc) in res:
                        nxt += [(r, oc)] if oc is not None else self.assign(t, iv, r, ctx)
                    res = nxt
                outs += res
            return outs
        if isinstance(target, ast.Attribute):
            def cont(q, ov):
                return self._res_to_outcomes(self.setattr(q, ov, target.attr, v, ctx), lambda r, _: [(r, None)])
            return self._res_to_outcomes(self.eval(target.value, st, ctx), cont)
        if isinstance(target, ast.Subscript):
            def cont(q, ov):
                def cont2(r, kv):
                    return self._res_to_outcomes(self.setitem(r, ov, kv, v, ctx), lambda z, _: [(z, None)])
                return self._res_to_outcomes(self.eval(target.slice, q, ctx), cont2)
            return self._res_to_outcomes(self.eval(target.value, st, ctx), cont)
        raise OutOfReach("assignment target %s" % type(target).__name__)

    def unpack(self, st, v, n):
        """Unpack a value into n items: list of (state, [Val] | Raise)."""
        if isinstance(v, TupV):
            if len(v.items) != n:
                return [(st, Raise("ValueError"))]
            return [(st, list(v.items))]
        if isinstance(v, Ref):
            h = st.heap[v.oid]
            if h.kind == "list":
                its = h.fields.get("$items")
                if its is not None:
                    return self.unpack(st, TupV(its), n)
                outs = []
                for (q, b) in self.branch(st, z3.Length(h.seq) == n):
                    if b:
                        outs.append((q, [Sym(z3.simplify(h.seq[i])) for i in range(n)]))
                    else:
                        outs.append((q, Raise("ValueError")))
                return outs
            raise OutOfReach("unpack of heap object")
        if isinstance(v, Conc):
            return [(st, Raise("TypeError"))]
        if isinstance(v, FuncV) and v.kind == "builtin" and v.data.get("name") == "$mapobj":
            f, xs = v.data["margs"]
            outs = []
            for (q, its) in self.unpack(st, xs, n):
                if isinstance(its, Raise):
                    outs.append((q, its))
                    continue
                res = [(q, [])]
                for it in its:
                    nxt = []
                    for (r, acc) in res:
                        if isinstance(acc, Raise):
                            nxt.append((r, acc))
                            continue
                        for (z, w) in self.call(f, [it], {}, r, {}):
                            nxt.append((z, w if isinstance(w, Raise) else acc + [w]))
                    res = nxt
                outs += res
            return outs
        t = self.term(v)
        # a symbolic value: a tuple of length n unpacks; a tuple of another length raises
        # ValueError; other iterables are outside the model (scope: tuple-typed values),
        # non-iterables raise TypeError
        outs = []
        for (q, knd) in self.multi_branch(st, [
                ("ok", z3.And(self.U.has_type(t, ["tuple", "list"]), vm.tlen(t) == n)),
                ("badlen", self.U.has_type(t, ["tuple", "list"]))]):
            if knd == "ok":
                items = []
                for i in range(n):
                    it = vm.titem(t, i)
                    self.U.well_typed(it)
                    items.append(Sym(it))
                outs.append((q, items))
            elif knd == "badlen":
                outs.append((q, Raise("ValueError")))
            else:
                outs.append((q, Raise("TypeError")))
        return outs

    def st_If(self, s, st, ctx):
        def cont(q, v):
            out = []
            for (r, b) in self.branch(q, self.truth_in(q, v)):
                out += self.exec_block(s.body if b else s.orelse, r, ctx)
            return out
        return self._res_to_outcomes(self.eval(s.test, st, ctx), cont)

    def st_Try(self, s, st, ctx):
        res = self.exec_block(s.body, st, ctx)
        out = []
        for (q, oc) in res:
            if oc is None and s.orelse:
                out += self.exec_block(s.orelse, q, ctx)
            elif oc is not None and oc[0] == "raise":
                out += self._handle(s, q, oc[1], ctx)
            else:
                out.append((q, oc))
        if not s.finalbody:
            return out
        fin = []
        for (q, oc) in out:
            for (r, oc2) in self.exec_block(s.finalbody, q, ctx):
                fin.append((r, oc2 if oc2 is not None else oc))
        return fin

    def _handle(self, s, st, exc, ctx):
        for h in s.handlers:
            names = self._handler_names(h, st, ctx)
            if names is None or any(exc_matches(exc.cls, n) for n in names):
                saved = st.env.get("$exc")
                st.env["$exc"] = exc
                if h.name:
                    st.env[h.name] = exc
                res = self.exec_block(h.body, st, ctx)
                for (q, _) in res:
                    if saved is None:
                        q.env.pop("$exc", None)
                    else:
                        q.env["$exc"] = saved
                return res
        return [(st, ("raise", exc))]

    def _handler_names(self, h, st, ctx):
        if h.type is None:
            return None
        elts = h.type.elts if isinstance(h.type, ast.Tuple) else [h.type]
        names = []
        for e in elts:
            n = self._exc_name(e, st, ctx)
            if n is None:
                n = ast.unparse(e).split(".")[-1]
            names.append(n)
        return names

    def st_For(self, s, st, ctx):
        from . import loops
        return loops.exec_for(self, s, st, ctx)

    def st_While(self, s, st, ctx):
        from . import loops
        return loops.exec_while(self, s, st, ctx)

    def st_Break(self, s, st, ctx):
        return [(st, ("break",))]

    def st_Continue(self, s, st, ctx):
        return [(st, ("continue",))]

    def st_With(self, s, st, ctx):
        from . import managers
        return managers.exec_with(self, s, st, ctx)

    def st_Delete(self, s, st, ctx):
        res = [(st, None)]
        for t in s.targets:
            nxt = []
            for (q, oc) in res:
                if oc is not None:
                    nxt.append((q, oc))
                    continue
                if isinstance(t, ast.Name):
                    q.env.pop(t.id, None)
                    nxt.append((q, None))
                elif isinstance(t, ast.Subscript):
                    def cont(r, ov, t=t):
                        def cont2(z, kv):
                            return self._res_to_outcomes(self.delitem(z, ov, kv, ctx), lambda y, _: [(y, None)])
                        return self._res_to_outcomes(self.eval(t.slice, r, ctx), cont2)
                    nxt += self._res_to_outcomes(self.eval(t.value, q, ctx), cont)
                else:
                    raise OutOfReach("del target")
            res = nxt
        return res

    def st_FunctionDef(self, s, st, ctx):
        st.env[s.name] = FuncV("lambda", node=s, env=st.env, ctx=ctx, name=s.name)
        return [(st, None)]

    # ------------------------------------------------------------------ expressions ----
    def eval(self, e, st, ctx):
        m = getattr(self, "ex_" + type(e).__name__, None)
        if m is None:
            raise OutOfReach("expression %s at line %d" % (type(e).__name__, getattr(e, "lineno", 0)))
        return m(e, st, ctx)

    def eval_list(self, exprs, st, ctx):
        """Evaluate expressions left to right: list of (state, [vals] | Raise)."""
        res = [(st, [])]
        for e in exprs:
            nxt = []
            for (q, acc) in res:
                if isinstance(acc, Raise):
                    nxt.append((q, acc))
                    continue
                for (r, v) in self.eval(e, q, ctx):
                    nxt.append((r, v if isinstance(v, Raise) else acc + [v]))
            res = nxt
        return res

    def ex_Constant(self, e, st, ctx):
        if e.value is Ellipsis:
            return [(st, Conc(None))]
        return [(st, Conc(e.value))]

    def ex_Name(self, e, st, ctx):
        if e.id in st.env:
            return [(st, st.env[e.id])]
        return [(st, self.global_name(e.id, ctx))]

    def ex_JoinedStr(self, e, st, ctx):
        self.stats["dropped"].add("f-string")
        return [(st, Sym(self.opaque_str(e)))]

    def opaque_str(self, e):
        c = z3.Const("str@%d:%d" % (getattr(e, "lineno", 0), getattr(e, "col_offset", 0)), V)
        self.U.axioms.append(vm.ty(c) == vm.TAG["str"])
        return c

    def ex_Tuple(self, e, st, ctx):
        if any(isinstance(x, ast.Starred) for x in e.elts):
            raise OutOfReach("starred tuple display")
        return [(q, v if isinstance(v, Raise) else TupV(v)) for (q, v) in self.eval_list(e.elts, st, ctx)]

    def ex_List(self, e, st, ctx):
        if any(isinstance(x, ast.Starred) for x in e.elts):
            raise OutOfReach("starred list display")
        out = []
        for (q, v) in self.eval_list(e.elts, st, ctx):
            if isinstance(v, Raise):
                out.append((q, v))
            else:
                out.append((q, self.make_list(q, v)))
        return out

    def make_list(self, st, items, cls="list"):
        terms = [self.term(i) for i in items]
        seq = z3.Empty(vm.SeqV) if not terms else (z3.Unit(terms[0]) if len(terms) == 1
                                                   else z3.Concat(*[z3.Unit(t) for t in terms]))
        r = self.alloc_list(st, seq, cls)
        st.heap[r.oid].fields["$items"] = list(items)   # python-level items when fully known
        return r

    def ex_Dict(self, e, st, ctx):
        if any(k is None for k in e.keys):
            raise OutOfReach("dict display with ** unpacking")
        out = []
        for (q, kv) in self.eval_list(list(e.keys) + list(e.values), st, ctx):
            if isinstance(kv, Raise):
                out.append((q, kv))
                continue
            n = len(e.keys)
            r = self.alloc_dict(q)
            for k, v in zip(kv[:n], kv[n:]):
                self.dict_store(q, r, k, v)
            out.append((q, r))
        return out

    def ex_Set(self, e, st, ctx):
        raise OutOfReach("set display")

    def ex_IfExp(self, e, st, ctx):
        def cont(q, v):
            out = []
            for (r, b) in self.branch(q, self.truth_in(q, v)):
                out += self.eval(e.body if b else e.orelse, r, ctx)
            return out
        return self.bind(self.eval(e.test, st, ctx), cont)

    def ex_UnaryOp(self, e, st, ctx):
        def cont(q, v):
            if isinstance(e.op, ast.Not):
                t = self.truth_in(q, v)
                return [(q, Conc(not t) if isinstance(t, bool) else BoolV(z3.Not(t)))]
            if isinstance(e.op, ast.USub):
                if isinstance(v, Conc) and isinstance(v.py, (int, float)):
                    return [(q, Conc(-v.py))]
            raise OutOfReach("unary op %s" % type(e.op).__name__)
        return self.bind(self.eval(e.operand, st, ctx), cont)

    def ex_BoolOp(self, e, st, ctx):
        is_and = isinstance(e.op, ast.And)

        def go(q, idx):
            def cont(r, v):
                if idx == len(e.values) - 1:
                    return [(r, v)]
                t = self.truth_in(r, v)
                if isinstance(t, bool):
                    if t == is_and:
                        return go(r, idx + 1)
                    return [(r, v)]
                # try to merge a pure, non-raising, single-result right-hand side into one formula
                merged = self._try_merge_bool(r, v, t, idx, e, ctx, is_and)
                if merged is not None:
                    return merged
                out = []
                for (z, b) in self.branch(r, t):
                    if b == is_and:
                        out += go(z, idx + 1)
                    else:
                        out.append((z, v))
                return out
            return self.bind(self.eval(e.values[idx], q, ctx), cont)
        return go(st, 0)

    def _try_merge_bool(self, st, v, t, idx, e, ctx, is_and):
        """`a and b` / `a or b` where the rest evaluates purely to a boolean-like value on a
        single path: return one BoolV formula instead of forking (keeps validators to few
        paths).  Only used when both sides are BoolV/bool-typed so the *value* is a bool."""
        if not isinstance(v, BoolV):
            return None
        probe = st.fork()
        probe.pc.append(t if is_and else z3.Not(t))
        rest = ast.BoolOp(op=e.op, values=e.values[idx + 1:]) if len(e.values) - idx - 1 > 1 else e.values[idx + 1]
        try:
            n_heap = {k: dict(h.fields) for k, h in probe.heap.items()}
            n_pc = len(probe.pc)
            res = self.eval(rest, probe, ctx)
        except OutOfReach:
            return None
        if len(res) != 1:
            return None
        (q, w) = res[0]
        if isinstance(w, Raise) or len(q.pc) != n_pc or len(q.heap) != len(n_heap):
            return None
        if any(dict(h.fields) != n_heap.get(k) for k, h in q.heap.items()):
            return None
        if isinstance(w, Conc) and isinstance(w.py, bool):
            wb = z3.BoolVal(w.py)
        elif isinstance(w, BoolV):
            wb = w.b
        else:
            return None
        return [(st, BoolV(z3.And(t, wb) if is_and else z3.Or(t, wb)))]

    def ex_Compare(self, e, st, ctx):
        def go(q, left, idx, acc):
            def cont(r, right):
                op = e.ops[idx]
                results = self.compare(r, op, left, right, ctx)

                def after(z, cv):
                    if idx == len(e.ops) - 1:
                        if acc is None:
                            return [(z, cv)]
                        return [(z, self._and_vals(z, acc, cv))]
                    t = self.truth_in(z, cv)
                    out = []
                    for (y, b) in self.branch(z, t):
                        if b:
                            out += go(y, right, idx + 1, cv if acc is None else self._and_vals(y, acc, cv))
                        else:
                            out.append((y, cv))
                    return out
                return self.bind(results, after)
            return self.bind(self.eval(e.comparators[idx], q, ctx), cont)
        return self.bind(self.eval(e.left, st, ctx), lambda q, l: go(q, l, 0, None))

    def _and_vals(self, st, a, b):
        return b

    def compare(self, st, op, a, b, ctx):
        """-> list of (state, Val|Raise)"""
        U = self.U
        if isinstance(op, (ast.Is, ast.IsNot)):
            r = self.is_same(a, b)
            if isinstance(r, bool):
                return [(st, Conc(r if isinstance(op, ast.Is) else not r))]
            return [(st, BoolV(r if isinstance(op, ast.Is) else z3.Not(r)))]
        if isinstance(op, (ast.In, ast.NotIn)):
            res = self.contains(st, b, a, ctx)
            if isinstance(op, ast.NotIn):
                res = [(q, v if isinstance(v, Raise) else self.not_val(q, v)) for (q, v) in res]
            return res
        if isinstance(op, (ast.Eq, ast.NotEq)):
            r = self.py_eq(st, a, b)
            if isinstance(r, bool):
                return [(st, Conc(r if isinstance(op, ast.Eq) else not r))]
            return [(st, BoolV(r if isinstance(op, ast.Eq) else z3.Not(r)))]
        # ordering
        if isinstance(a, Conc) and isinstance(b, Conc):
            try:
                f = {ast.Lt: lambda x, y: x < y, ast.LtE: lambda x, y: x <= y,
                     ast.Gt: lambda x, y: x > y, ast.GtE: lambda x, y: x >= y}[type(op)]
                return [(st, Conc(f(a.py, b.py)))]
            except TypeError:
                return [(st, Raise("TypeError"))]
        ta, tb = self.term(a), self.term(b)
        both_num = z3.And(U.isnum(ta), U.isnum(tb))
        both_dt = z3.And(vm.ty(ta) == vm.TAG["datetime"], vm.ty(tb) == vm.TAG["datetime"])
        both_d = z3.And(vm.ty(ta) == vm.TAG["date"], vm.ty(tb) == vm.TAG["date"])
        out = []
        for (q, knd) in self.multi_branch(st, [("num", both_num), ("date", z3.Or(both_dt, both_d))]):
            if knd == "num":
                if isinstance(op, ast.Lt):
                    f = U.num_lt(ta, tb)
                elif isinstance(op, ast.LtE):
                    f = U.num_le(ta, tb)
                elif isinstance(op, ast.Gt):
                    f = U.num_lt(tb, ta)
                else:
                    f = U.num_le(tb, ta)
                out.append((q, BoolV(f)))
            elif knd == "date":
                da, db = vm.dord(ta), vm.dord(tb)
                f = {ast.Lt: da < db, ast.LtE: da <= db, ast.Gt: da > db, ast.GtE: da >= db}[type(op)]
                out.append((q, BoolV(f)))
            else:
                # other operand types: str/str etc. are not used by the code under proof with
                # symbolic operands; mixed types raise TypeError in Python 3.
                same_sized = z3.And(vm.ty(ta) == vm.ty(tb),
                                    U.has_type(ta, ["str", "bytes", "tuple", "list"]))
                opaque = z3.Or(U.has_type(ta, OPAQUE_TYPES), U.has_type(tb, OPAQUE_TYPES))
                for (r, knd2) in self.multi_branch(q, [("sized", same_sized), ("opaque", opaque)]):
                    if knd2 == "sized":
                        out.append((r, BoolV(self.U.fresh_bool("ordcmp"))))
                    elif knd2 == "opaque":
                        # objects with user-defined rich comparison: outside the value model
                        r.notes.append("ordering comparison of opaque objects: outside value model")
                        out.append((r, Raise("$Unmodelled")))
                    else:
                        out.append((r, Raise("TypeError")))
        return out

    def multi_branch(self, st, cases):
        """cases: [(tag, cond)] mutually exclusive; remaining → tag None."""
        out = []
        rest = st
        for tag, cond in cases:
            if rest is None:
                break
            br = self.branch(rest, cond)
            rest = None
            for (q, b) in br:
                if b:
                    out.append((q, tag))
                else:
                    rest = q
        if rest is not None:
            out.append((rest, None))
        return out

    def not_val(self, st, v):
        t = self.truth_in(st, v)
        return Conc(not t) if isinstance(t, bool) else BoolV(z3.Not(t))

    def py_eq(self, st, a, b):
        if isinstance(a, Conc) and isinstance(b, Conc):
            return a.py == b.py
        if isinstance(a, TupV) and isinstance(b, TupV):
            if len(a.items) != len(b.items):
                return False
            parts = [self.py_eq(st, x, y) for x, y in zip(a.items, b.items)]
            if all(isinstance(p, bool) for p in parts):
                return all(parts)
            return z3.And([z3.BoolVal(p) if isinstance(p, bool) else p for p in parts])
        if isinstance(a, ClsV) and isinstance(b, ClsV):
            return a.name == b.name
        if isinstance(a, Ref) and isinstance(b, Ref) and a.oid == b.oid:
            return True
        if isinstance(a, Conc) and isinstance(a.py, str) or isinstance(b, Conc) and isinstance(b.py, str):
            s_, o = (a, b) if isinstance(a, Conc) else (b, a)
            to = self.term(o)
            r = z3.simplify(z3.And(vm.ty(to) == vm.TAG["str"], vm.strv(to) == z3.StringVal(s_.py)))
            if z3.is_true(r):
                return True
            if z3.is_false(r):
                return False
            return r
        r = z3.simplify(self.U.py_eq(self.term(a), self.term(b)))
        if z3.is_true(r):
            return True
        if z3.is_false(r):
            return False
        return r

    def contains(self, st, container, item, ctx):
        """`item in container` -> results"""
        if isinstance(container, TupV):
            parts = [self.py_eq(st, item, x) for x in container.items]
            # `in` uses identity-or-equality
            ids = [self.is_same(item, x) for x in container.items]
            fs = []
            for p, i in zip(parts, ids):
                if p is True or i is True:
                    return [(st, Conc(True))]
                f = []
                if not isinstance(p, bool):
                    f.append(p)
                if not isinstance(i, bool):
                    f.append(i)
                if f:
                    fs.append(z3.Or(f))
            if not fs:
                return [(st, Conc(False))]
            return [(st, BoolV(z3.Or(fs)))]
        if isinstance(container, Ref):
            h = st.heap[container.oid]
            if h.kind == "dict":
                return [(st, self.dict_has(st, container, item))]
            if h.kind == "list":
                its = h.fields.get("$items")
                if its is not None:
                    return self.contains(st, TupV(its), item, ctx)
                return [(st, BoolV(self.seq_contains_eq(h.seq, self.term(item))))]
            if h.kind == "obj":
                f = self.src.find_method(h.cls, "__contains__") if h.cls else None
                if f:
                    return self.call(self.bound_method(container, f), [item], {}, st, ctx)
        if isinstance(container, Conc) and isinstance(container.py, str) and isinstance(item, Conc):
            return [(st, Conc(item.py in container.py))]
        h = self.lib.get("$contains")
        if h:
            r = h(self, st, container, item, ctx)
            if r is not None:
                return r
        raise OutOfReach("`in` on %r" % (container,))

    def seq_contains_eq(self, seq, t):
        """`x in <list>`: True when some element is identical to x *or equal to it* (`==`).  Modelled
        by the uninterpreted mem_eq(seq, x) with the facts that hold for every `==`: an identical
        element is a member, an empty list has no member.  (It is NOT identity membership: code
        that de-duplicates with `in` instead of `is` is distinguished from the identity test.)"""
        m = vm.mem_eq(seq, t)
        self.U.axioms.append(z3.Implies(z3.Contains(seq, z3.Unit(t)), m))
        self.U.axioms.append(z3.Implies(z3.Length(seq) == 0, z3.Not(m)))
        return m

    def ex_BinOp(self, e, st, ctx):
        def cont(q, lr):
            a, b = lr
            h = self.lib.get("$binop")
            return h(self, q, e.op, a, b, ctx, e)
        return self.bind(self.eval_list([e.left, e.right], st, ctx), cont)

    def ex_Attribute(self, e, st, ctx):
        return self.bind(self.eval(e.value, st, ctx), lambda q, ov: self.getattr(q, ov, e.attr, ctx))

    def ex_Subscript(self, e, st, ctx):
        def cont(q, ov):
            if isinstance(e.slice, ast.Slice):
                return self.getslice(q, ov, e.slice, ctx)
            return self.bind(self.eval(e.slice, q, ctx), lambda r, kv: self.getitem(r, ov, kv, ctx))
        return self.bind(self.eval(e.value, st, ctx), cont)

    def ex_Slice(self, e, st, ctx):
        def c(n):
            if n is None:
                return None
            if isinstance(n, ast.Constant) and isinstance(n.value, int):
                return n.value
            raise OutOfReach("slice with non-constant bounds")
        return [(st, Conc(slice(c(e.lower), c(e.upper), c(e.step))))]

    def ex_Lambda(self, e, st, ctx):
        return [(st, FuncV("lambda", node=e, env=st.env, ctx=ctx, name="<lambda>"))]

    def ex_Starred(self, e, st, ctx):
        raise OutOfReach("starred expression")

    def ex_ListComp(self, e, st, ctx):
        from . import loops
        return loops.eval_comprehension(self, e, st, ctx, "list")

    def ex_GeneratorExp(self, e, st, ctx):
        from . import loops
        return loops.eval_comprehension(self, e, st, ctx, "gen")

    def ex_DictComp(self, e, st, ctx):
        from . import loops
        return loops.eval_comprehension(self, e, st, ctx, "dict")

    def ex_SetComp(self, e, st, ctx):
        from . import loops
        return loops.eval_comprehension(self, e, st, ctx, "set")

    def ex_NamedExpr(self, e, st, ctx):
        def cont(q, v):
            q.env[e.target.id] = v
            return [(q, v)]
        return self.bind(self.eval(e.value, st, ctx), cont)

    def _symbolic_anyall(self, e, st, ctx):
        """any(X is v for v in S) / any(v is X for v in S) over a symbolic list S: identity
        membership  Contains(S, [X]).  Returns results or None when the shape does not apply."""
        f = e.func
        if not (isinstance(f, ast.Name) and f.id in ("any", "all") and len(e.args) == 1 and not e.keywords
                and isinstance(e.args[0], ast.GeneratorExp) and f.id not in st.env):
            return None
        g = e.args[0]
        if len(g.generators) != 1 or g.generators[0].ifs or not isinstance(g.generators[0].target, ast.Name):
            return None
        gen = g.generators[0]
        elt = g.elt
        tv = gen.target.id
        if isinstance(elt, ast.Compare) and len(elt.ops) == 1 and isinstance(elt.ops[0], ast.Eq) and f.id == "any":
            r_ = self._symbolic_any_item_eq(elt, gen, tv, st, ctx)
            if r_ is not None:
                return r_
        if not (isinstance(elt, ast.Compare) and len(elt.ops) == 1 and isinstance(elt.ops[0], (ast.Is, ast.IsNot))):
            return None
        l, r = elt.left, elt.comparators[0]
        if isinstance(l, ast.Name) and l.id == tv:
            other = r
        elif isinstance(r, ast.Name) and r.id == tv:
            other = l
        else:
            return None
        if any(isinstance(n, ast.Name) and n.id == tv for n in ast.walk(other)):
            return None
        out = []
        for (q, itv) in self.eval(gen.iter, st, ctx):
            if isinstance(itv, Raise):
                out.append((q, itv))
                continue
            if not (isinstance(itv, Ref) and q.heap[itv.oid].kind == "list"):
                return None
            seq = q.heap[itv.oid].seq
            for (z, ov) in self.eval(other, q, ctx):
                if isinstance(ov, Raise):
                    out.append((z, ov))
                    continue
                mem = z3.Contains(seq, z3.Unit(self.term(ov)))
                is_ = isinstance(elt.ops[0], ast.Is)
                if f.id == "any":
                    form = mem if is_ else z3.Not(z3.And(z3.Length(seq) > 0, z3.BoolVal(False)))  # any(v is not X): not modelled
                    if not is_:
                        return None
                else:
                    if is_:
                        return None
                    form = z3.Not(mem)      # all(v is not X for v in S)
                out.append((z, BoolV(form)))
        return out

    def _symbolic_any_item_eq(self, elt, gen, tv, st, ctx):
        """any(X == v[k] for v in S) / any(v[k] == X for v in S) over a heap list S of unknown
        length: `has_item_eq(S, k, X)` — "some entry of S has an item k equal (==) to X"."""
        def is_item(n):
            return (isinstance(n, ast.Subscript) and isinstance(n.value, ast.Name) and n.value.id == tv
                    and isinstance(n.slice, ast.Constant) and isinstance(n.slice.value, int) and n.slice.value >= 0)
        l, r = elt.left, elt.comparators[0]
        if is_item(l):
            item, other = l, r
        elif is_item(r):
            item, other = r, l
        else:
            return None
        if any(isinstance(n, ast.Name) and n.id == tv for n in ast.walk(other)):
            return None
        out = []
        for (q, itv) in self.eval(gen.iter, st, ctx):
            if isinstance(itv, Raise):
                out.append((q, itv))
                continue
            if not (isinstance(itv, Ref) and q.heap[itv.oid].kind == "list") or q.heap[itv.oid].fields.get("$items") is not None:
                return None
            seq = q.heap[itv.oid].seq
            for (z, ov) in self.eval(other, q, ctx):
                if isinstance(ov, Raise):
                    out.append((z, ov))
                    continue
                self.stats["dropped"].add("entries of a list searched with any(X == v[k] …) are taken to be indexable at k")
                out.append((z, BoolV(self.has_item_eq(z, seq, item.slice.value, ov))))
        return out

    def has_item_eq(self, st, seq, k, xval):
        """∃ e ∈ seq. e[k] == X, expanded along the structure of the sequence term (`++`, `[e]`,
        `[]`); an opaque sequence gives the uninterpreted has_item<k>_eq(seq, X)."""
        if z3.is_app(seq):
            kind = seq.decl().kind()
            if kind == z3.Z3_OP_SEQ_CONCAT:
                return z3.Or([self.has_item_eq(st, c, k, xval) for c in seq.children()])
            if kind == z3.Z3_OP_SEQ_EMPTY:
                return z3.BoolVal(False)
            if kind == z3.Z3_OP_SEQ_UNIT:
                it = vm.titem(seq.arg(0), k)
                self.U.well_typed(it)
                r = self.py_eq(st, Sym(it), xval)
                return z3.BoolVal(r) if isinstance(r, bool) else r
        return vm.has_item_eq(k)(seq, self.term(xval))

    def ex_Call(self, e, st, ctx):
        r_ = self._symbolic_anyall(e, st, ctx)
        if r_ is not None:
            return r_
        # super().m(...)
        f = e.func
        if isinstance(f, ast.Attribute) and isinstance(f.value, ast.Call) and isinstance(f.value.func, ast.Name) \
                and f.value.func.id == "super":
            owner = ctx.get("owner")
            selfv = st.env.get(ctx.get("selfname", "self"))
            if owner is None or selfv is None:
                raise OutOfReach("super() outside method")
            cls_of_self = self.class_of(st, selfv)
            found = self.src.find_method(cls_of_self, f.attr, after=owner)
            if found is None:
                base = "object"
                if isinstance(selfv, Ref) and st.heap[selfv.oid].kind in ("list", "dict"):
                    base = st.heap[selfv.oid].kind
                fv = FuncV("builtin", name=base + "." + f.attr, self=selfv)
            else:
                fv = self.bound_method(selfv, found)
            return self._call_with_args(fv, e, st, ctx)
        if isinstance(f, ast.Attribute):
            # method-call position: `x.m(...)` on a symbolic object is a method call, not a field read
            # (unless `m` is declared as a field holding a callable)
            c2 = dict(ctx)
            c2["$call_position"] = True

            def on_recv(q, ov):
                return self.bind(self.getattr(q, ov, f.attr, c2 if isinstance(ov, Sym) else ctx),
                                 lambda r, fv: self._call_with_args(fv, e, r, ctx))
            return self.bind(self.eval(f.value, st, ctx), on_recv)
        return self.bind(self.eval(f, st, ctx), lambda q, fv: self._call_with_args(fv, e, q, ctx))

    def _call_with_args(self, fv, e, st, ctx):
        pos_exprs = []
        star_idx = []
        for i, a in enumerate(e.args):
            if isinstance(a, ast.Starred):
                star_idx.append(i)
                pos_exprs.append(a.value)
            else:
                pos_exprs.append(a)
        kw_exprs = [k.value for k in e.keywords]

        def cont(q, vals):
            pos = []
            for i, v in enumerate(vals[:len(pos_exprs)]):
                if i in star_idx:
                    items = self.known_items(q, v)
                    if items is None:
                        raise OutOfReach("*args of unknown length")
                    pos += items
                else:
                    pos.append(v)
            kws = {}
            for k, v in zip(e.keywords, vals[len(pos_exprs):]):
                if k.arg is None:
                    d = self.known_dict(q, v)
                    if d is None:
                        if (isinstance(fv, ClsV) and fv.name == "dict") or isinstance(fv, FuncV):
                            # handed on as one mapping: a callee with a **kwargs parameter (or a
                            # contract) receives it; any other callee is out of reach (calls.py)
                            kws["$symbolic_kwargs"] = v
                            continue
                        raise OutOfReach("**kwargs of unknown keys")
                    kws.update(d)
                else:
                    kws[k.arg] = v
            return self.call(fv, pos, kws, q, ctx)
        return self.bind(self.eval_list(pos_exprs + kw_exprs, st, ctx), cont)

    def known_items(self, st, v):
        if isinstance(v, TupV):
            return list(v.items)
        if isinstance(v, Ref):
            h = st.heap[v.oid]
            if h.kind == "list" and h.fields.get("$items") is not None:
                return list(h.fields["$items"])
        return None

    def path_known_items(self, st, v, maxlen=4):
        """Items of a symbolic tuple/list whose length is determined by the path condition."""
        its = self.known_items(st, v)
        if its is not None:
            return its
        if isinstance(v, Sym):
            t = v.t
            if not self.valid(st, self.U.has_type(t, ["tuple", "list"])):
                return None
            for k in range(maxlen + 1):
                if self.valid(st, vm.tlen(t) == k):
                    items = []
                    for i in range(k):
                        it = vm.titem(t, i)
                        self.U.well_typed(it)
                        items.append(Sym(it))
                    return items
        return None

    def known_dict(self, st, v):
        if isinstance(v, Ref):
            h = st.heap[v.oid]
            if h.kind == "dict" and h.ckeys is not None:
                return {k: self.dict_load_c(st, v, k) for k in h.ckeys}
        return None

    # ------------------------------------------------------------------ names ---------
    def global_name(self, name, ctx, module_hint=None):
        from . import builtins_lib
        return builtins_lib.global_name(self, name, ctx, module_hint)

    # ------------------------------------------------------------------ objects -------
    def class_of(self, st, v):
        if isinstance(v, Ref):
            return st.heap[v.oid].cls
        return None

    def bound_method(self, selfv, found):
        c, m, fd = found
        return FuncV("repo", module=m, cls=c, node=fd, self=selfv, qual="%s.%s" % (c, fd.name))

    def getattr(self, st, ov, attr, ctx):
        from . import objects
        return objects.getattr_(self, st, ov, attr, ctx)

    def setattr(self, st, ov, attr, v, ctx):
        from . import objects
        return objects.setattr_(self, st, ov, attr, v, ctx)

    def getitem(self, st, ov, kv, ctx):
        from . import objects
        return objects.getitem(self, st, ov, kv, ctx)

    def getslice(self, st, ov, sl, ctx):
        from . import objects
        return objects.getslice(self, st, ov, sl, ctx)

    def setitem(self, st, ov, kv, v, ctx):
        from . import objects
        return objects.setitem(self, st, ov, kv, v, ctx)

    def delitem(self, st, ov, kv, ctx):
        from . import objects
        return objects.delitem(self, st, ov, kv, ctx)

    def dict_store(self, st, ref, k, v):
        from . import objects
        return objects.dict_store(self, st, ref, k, v)

    def dict_has(self, st, ref, k):
        from . import objects
        return objects.dict_has(self, st, ref, k)

    def dict_load_c(self, st, ref, pykey):
        from . import objects
        return objects.dict_load_c(self, st, ref, pykey)

    def child_ctx(self, ctx, module, owner, selfname, qual, fnode=None):
        c = {"module": module, "owner": owner, "selfname": selfname, "qual": qual, "fnode": fnode}
        if ctx and ctx.get("$raw_getattr") and qual in ("Parameter.__getattribute__",):
            c["$raw_getattr"] = True
        for k in ("verifying", "loops", "opts", "obligations"):
            c[k] = ctx.get(k) if ctx else None
        if c["opts"] is None:
            c["opts"] = {}
        return c

    # ------------------------------------------------------------------ calls ---------
    def call(self, fv, args, kwargs, st, ctx):
        from . import calls
        return calls.call(self, fv, args, kwargs, st, ctx)


def _termable(v):
    """Values that may be phi-merged into an If-term.  Strings, references, classes and tuple
    displays are kept apart (they are used as dictionary keys / attribute names / identities,
    where a concrete value keeps later operations precise)."""
    if isinstance(v, (Sym, BoolV)):
        return True
    return isinstance(v, Conc) and (v.py is None or isinstance(v.py, (bool, int, float)))


def _shape_sig(q):
    from .calls import _sig
    hs = []
    for oid in sorted(q.heap):
        h = q.heap[oid]
        hs.append((oid, h.kind, h.cls, tuple(sorted(map(str, h.fields))),
                   None if h.seq is None else h.seq.get_id(),
                   None if h.keys is None else h.keys.get_id(),
                   None if h.vals is None else h.vals.get_id(),
                   None if h.ckeys is None else tuple(h.ckeys)))
    return (tuple(hs), tuple(sorted(map(str, q.env))), _sig(q.ghost), tuple(q.notes), q.depth)


def merge_states(states, interp=None):
    """Join states at a statement boundary.  States with the same *shape* (same locals, same heap
    objects and fields, same containers and ghost) are merged into one whose path condition is the
    common prefix plus the disjunction of the remainders; locals / fields that hold different
    values get the phi-value  If(cond_1, v_1, If(cond_2, v_2, ...))."""
    from .calls import _sig
    groups, order = {}, []
    for q in states:
        k = _shape_sig(q)
        if k not in groups:
            groups[k] = []
            order.append(k)
        groups[k].append(q)
    out = []
    for k in order:
        grp = groups[k]
        if len(grp) == 1:
            out.append(grp[0])
            continue
        n = min(len(q.pc) for q in grp)
        base = 0
        while base < n and all(q.pc[base] is grp[0].pc[base] or q.pc[base].eq(grp[0].pc[base]) for q in grp[1:]):
            base += 1
        suffixes = [q.pc[base:] for q in grp]
        conds = [z3.And(sf) if len(sf) > 1 else (sf[0] if sf else z3.BoolVal(True)) for sf in suffixes]
        # positions with differing values
        diffs = []
        ok = True
        q0 = grp[0]
        for name in q0.env:
            vals = [q.env[name] for q in grp]
            if any(_sig(v) != _sig(vals[0]) for v in vals[1:]):
                if not all(_termable(v) for v in vals):
                    ok = False
                    break
                diffs.append((("env", name), vals))
        if ok:
            for oid, h in q0.heap.items():
                for f in h.fields:
                    vals = [q.heap[oid].fields[f] for q in grp]
                    if any(_sig(v) != _sig(vals[0]) for v in vals[1:]):
                        if f == "$items" or not all(_termable(v) for v in vals):
                            ok = False
                            break
                        diffs.append((("heap", oid, f), vals))
                if not ok:
                    break
        if not ok or (diffs and interp is None) or len(diffs) > 12:
            # fall back: merge only states that are identical up to the path condition
            sub, suborder = {}, []
            from .calls import _state_sig
            for q in grp:
                kk = _state_sig(q)
                if kk not in sub:
                    sub[kk] = []
                    suborder.append(kk)
                sub[kk].append(q)
            for kk in suborder:
                g2 = sub[kk]
                if len(g2) == 1:
                    out.append(g2[0])
                    continue
                qq = g2[0]
                sfx = [q.pc[base:] for q in g2]
                if any(len(sf) == 0 for sf in sfx):
                    qq.pc = qq.pc[:base]
                else:
                    qq.pc = qq.pc[:base] + [z3.Or([z3.And(sf) if len(sf) > 1 else sf[0] for sf in sfx])]
                out.append(qq)
            continue
        for (pos, vals) in diffs:
            if all(isinstance(v, (BoolV, Conc)) and (isinstance(v, BoolV) or isinstance(v.py, bool)) for v in vals):
                bs = [v.b if isinstance(v, BoolV) else z3.BoolVal(v.py) for v in vals]
                acc = bs[-1]
                for c, b in zip(reversed(conds[:-1]), reversed(bs[:-1])):
                    acc = z3.If(c, b, acc)
                merged = BoolV(acc)
            else:
                ts = [interp.term(v) for v in vals]
                acc = ts[-1]
                for c, t in zip(reversed(conds[:-1]), reversed(ts[:-1])):
                    acc = z3.If(c, t, acc)
                merged = Sym(acc)
            if pos[0] == "env":
                q0.env[pos[1]] = merged
            else:
                q0.heap[pos[1]].fields[pos[2]] = merged
        if any(len(sf) == 0 for sf in suffixes):
            q0.pc = q0.pc[:base]
        else:
            q0.pc = q0.pc[:base] + [z3.Or(conds)]
        out.append(q0)
    return out


def message_only_start(stmts):
    """A block that ends in `raise`: the maximal run of statements before the raise that only
    build the exception message (they store only to local names, contain no expression statement,
    return / raise / yield / attribute or subscript store / del; a bare `raise` has no message).  They are skipped — assumption A-MSG: code
    that only builds the text of an exception message is pure and does not raise."""
    if not stmts or not isinstance(stmts[-1], ast.Raise) or len(stmts) == 1:
        return None
    if stmts[-1].exc is None:
        return None          # a bare re-raise builds no message: what precedes it is clean-up code
    k = len(stmts) - 1
    while k > 0:
        s = stmts[k - 1]
        # expression statements (calls made for their effect) are message construction only when
        # they are method calls on a local that the run itself initialises with a fresh literal
        # (`items = []` … `items.append(text)`): checked below
        ok = isinstance(s, (ast.Assign, ast.AugAssign, ast.If, ast.For)) \
            and all(_local_method_call(n) is not None for n in ast.walk(s) if isinstance(n, ast.Expr))
        if ok and _escaping_jump(s):
            ok = False
        if ok:
            for n in ast.walk(s):
                if isinstance(n, (ast.Return, ast.Raise, ast.Yield, ast.YieldFrom, ast.Delete, ast.Global,
                                  ast.Nonlocal, ast.With, ast.Try, ast.While, ast.Await)):
                    ok = False
                    break
                if isinstance(n, (ast.Attribute, ast.Subscript)) and isinstance(n.ctx, ast.Store):
                    ok = False
                    break
        if not ok:
            break
        k -= 1
    # receivers of effectful calls must be fresh locals of the run
    while k < len(stmts) - 1:
        run = stmts[k:-1]
        fresh = set()
        for s in run:
            for n in ast.walk(s):
                if isinstance(n, ast.Assign) and len(n.targets) == 1 and isinstance(n.targets[0], ast.Name) \
                        and isinstance(n.value, (ast.List, ast.Dict, ast.Set, ast.Constant, ast.JoinedStr)):
                    fresh.add(n.targets[0].id)
        bad = [i for i, s in enumerate(run)
               if any(isinstance(n, ast.Expr) and _local_method_call(n) not in fresh for n in ast.walk(s))]
        if not bad:
            break
        k += bad[-1] + 1
    return k if k < len(stmts) - 1 else None


def _local_method_call(n):
    """`name.method(...)` as an expression statement -> name, else None"""
    v = n.value
    if isinstance(v, ast.Call) and isinstance(v.func, ast.Attribute) and isinstance(v.func.value, ast.Name):
        return v.func.value.id
    return None


def _escaping_jump(s, depth=0):
    """Does statement s contain a break/continue that would leave s?"""
    if isinstance(s, (ast.Break, ast.Continue)):
        return depth == 0
    if isinstance(s, (ast.For, ast.While)):
        return any(_escaping_jump(c, depth + 1) for c in s.body) or any(_escaping_jump(c, depth) for c in s.orelse)
    for fld in ("body", "orelse", "finalbody"):
        for c in getattr(s, fld, []) or []:
            if isinstance(c, ast.stmt) and _escaping_jump(c, depth):
                return True
    for h in getattr(s, "handlers", []) or []:
        for c in h.body:
            if _escaping_jump(c, depth):
                return True
    return False


def _as_load(t):
    t2 = ast.parse(ast.unparse(t), mode="eval").body
    return t2
