"""Further library contracts (assumed): re, datetime, issubclass, str methods, slices."""
import ast

import z3

from . import values as vm
from .engine import OutOfReach, Raise
from .values import BoolV, ClsV, Conc, FuncV, ModV, Ref, Sym, TupV, V

re_match = z3.Function("re_match", V, V, z3.BoolSort())        # A-RE: pure function of (pattern, string)
issub = z3.Function("issub", V, V, z3.BoolSort())
str_lower = z3.Function("str_lower", V, V)
TT = [z3.Function("timetuple_%d" % i, V, V) for i in range(9)]


def h_re_match(I, st, fv, args, kwargs, ctx):
    pat, s = I.term(args[0]), I.term(args[1])
    # re.match(pattern, string): TypeError unless string is str/bytes (pattern well-formed: scope)
    out = []
    for (q, b) in I.branch(st, I.U.has_type(s, ["str", "bytes"])):
        if b:
            r = I.U.fresh("match")
            q.pc.append((r == I.U.NONE) == z3.Not(re_match(pat, s)))
            q.pc.append(z3.Or(r == I.U.NONE, z3.And(vm.ty(r) == vm.TAG["object"], vm.truthy(r))))
            out.append((q, Sym(r)))
        else:
            out.append((q, Raise("TypeError")))
    return out


def h_issubclass(I, st, fv, args, kwargs, ctx):
    a, b = args
    if isinstance(a, ClsV) and isinstance(b, ClsV):
        if I.src.module_of_class(a.name) is not None:
            return [(st, Conc(I.src.is_subclass(a.name, b.name)))]
        return [(st, Conc(a.name in vm.subtypes(b.name)))]
    if isinstance(a, (Conc, TupV, BoolV)):
        return [(st, Raise("TypeError"))]
    ta, tb = I.term(a), I.term(b)
    out = []
    for (q, c) in I.branch(st, vm.ty(ta) == vm.TAG["type"]):
        if c:
            if isinstance(b, TupV):
                out.append((q, BoolV(z3.Or([issub(ta, I.term(x)) for x in b.items]))))
            else:
                out.append((q, BoolV(issub(ta, tb))))
        else:
            out.append((q, Raise("TypeError")))
    return out


def h_value_method(I, st, name, selfv, args, kwargs, ctx):
    U = I.U
    if name == "get" and isinstance(selfv, Sym) and 1 <= len(args) <= 2 and not kwargs:
        # mapping.get(key[, default]) on a mapping about which nothing is known: the stored value
        # or the default — some value (sound over-approximation)
        r = U.fresh("got")
        U.well_typed(r)
        return [(st, Sym(r))]
    if name in ("startswith", "endswith") and isinstance(selfv, Sym) and len(args) == 1 and not kwargs \
            and isinstance(args[0], Conc) and isinstance(args[0].py, str):
        # s.startswith('lit') / s.endswith('lit') on a symbolic string: prefix/suffix of its text
        t = selfv.t
        lit = z3.StringVal(args[0].py)
        out = []
        for (q, b) in I.branch(st, vm.ty(t) == vm.TAG["str"]):
            if b:
                out.append((q, BoolV(z3.PrefixOf(lit, vm.strv(t)) if name == "startswith" else z3.SuffixOf(lit, vm.strv(t)))))
            else:
                q.notes.append(".%s on a non-str value: outside value model" % name)
                out.append((q, Raise("$Unmodelled")))
        return out
    if name == "lower":
        if isinstance(selfv, Conc) and isinstance(selfv.py, str):
            return [(st, Conc(selfv.py.lower()))]
        t = I.term(selfv)
        out = []
        for (q, b) in I.branch(st, vm.ty(t) == vm.TAG["str"]):
            if b:
                r = str_lower(t)
                U.axioms.append(vm.ty(r) == vm.TAG["str"])
                out.append((q, Sym(r)))
            else:
                out.append((q, Raise("AttributeError")))
        return out
    if name == "timetuple":
        t = I.term(selfv)
        out = []
        for (q, b) in I.branch(st, U.isdate(t)):
            if b:
                items = []
                for i in range(9):
                    it = TT[i](t)
                    U.axioms += [vm.ty(it) == vm.TAG["int"], vm.kind(it) == vm.FINITE]
                    items.append(Sym(it))
                out.append((q, TupV(items)))
            else:
                out.append((q, Raise("AttributeError")))
        return out
    if name in ("join", "format", "strip", "upper", "replace", "title", "capitalize", "lstrip", "rstrip"):
        I.stats["dropped"].add("str." + name)
        c = U.fresh("str")
        U.axioms.append(vm.ty(c) == vm.TAG["str"])
        return [(st, Sym(c))]
    return None


def h_new_datetime(I, st, fv, args, kwargs, ctx):
    """dt.datetime(*d.timetuple()[:6]) — A-DT: converting a date to the datetime at midnight
    keeps its position on the time line (dord of a date is its midnight)."""
    U = I.U
    if len(args) == 6 and all(isinstance(a, Sym) and z3.is_app(a.t) and a.t.decl().name() == "timetuple_%d" % i
                              for i, a in enumerate(args)):
        src = args[0].t.arg(0)
        if all(a.t.arg(0).eq(src) for a in args):
            r = U.fresh("datetime")
            st.pc += [vm.ty(r) == vm.TAG["datetime"], vm.dord(r) == vm.dord(src)]
            return [(st, Sym(r))]
    raise OutOfReach("datetime(...) with general arguments")


def h_getslice(I, st, ov, sl, ctx):
    def const(n):
        if n is None:
            return None
        if isinstance(n, ast.Constant) and isinstance(n.value, int):
            return n.value
        if isinstance(n, ast.UnaryOp) and isinstance(n.op, ast.USub) and isinstance(n.operand, ast.Constant):
            return -n.operand.value
        return "?"
    lo, hi, stp = const(sl.lower), const(sl.upper), const(sl.step)
    if "?" in (lo, hi, stp):
        return None
    if isinstance(ov, TupV):
        return [(st, TupV(ov.items[slice(lo, hi, stp)]))]
    its = I.known_items(st, ov)
    if its is not None:
        return [(st, I.make_list(st, its[slice(lo, hi, stp)]))]
    if isinstance(ov, Ref) and st.heap[ov.oid].kind == "list" and stp is None:
        seq = st.heap[ov.oid].seq
        if lo is None and hi is None:
            return [(st, I.alloc_list(st, seq))]
    if isinstance(ov, Sym) and (lo, hi, stp) == (None, None, -1):
        # x[::-1] of a symbolic tuple/list value: the reversed sequence (same type and length, item i is
        # item n-1-i of x)
        t = ov.t
        out = []
        for (q, b) in I.branch(st, z3.Or(vm.ty(t) == vm.TAG["tuple"], vm.ty(t) == vm.TAG["list"])):
            if b:
                r = reversed_of(t)
                i = z3.Int("i!rev")
                I.U.well_typed(r)
                I.U.axioms += [vm.ty(r) == vm.ty(t), vm.tlen(r) == vm.tlen(t),
                               z3.ForAll([i], z3.Implies(z3.And(i >= 0, i < vm.tlen(t)), vm.titem(r, i) == vm.titem(t, vm.tlen(t) - 1 - i)),
                                         patterns=[vm.titem(r, i)])]
                out.append((q, Sym(r)))
            else:
                q.notes.append("[::-1] on a value that is neither tuple nor list: outside value model")
                out.append((q, Raise("$Unmodelled")))
        return out
    return None


reversed_of = z3.Function("reversed_of", V, V)


def h_new_listproxy(I, st, fv, args, kwargs, ctx):
    """ListProxy(iterable, parameter): a list with the items of `iterable` (list.__init__) and
    the `_parameter` back reference (the two-line __init__ of the real class)."""
    it = args[0]
    par = args[1] if len(args) > 1 else kwargs.get("parameter", Conc(None))
    if isinstance(it, Ref) and st.heap[it.oid].kind == "list":
        src = st.heap[it.oid]
        r = I.alloc_list(st, src.seq, cls="ListProxy")
        if src.fields.get("$items") is not None:
            st.heap[r.oid].fields["$items"] = list(src.fields["$items"])
    else:
        its = I.path_known_items(st, it)
        if its is None:
            raise OutOfReach("ListProxy(%r)" % (it,))
        r = I.make_list(st, its, cls="ListProxy")
    st.heap[r.oid].fields["_parameter"] = par
    return [(st, r)]


def h_getitem_value(I, st, ov, kv, ctx):
    """Subscript of a symbolic value with a constant int index: tuples and lists index their
    items (IndexError out of range); None / numbers / dates are not subscriptable (TypeError);
    str/bytes/dict values are outside the value model."""
    if not (isinstance(kv, Conc) and isinstance(kv.py, int) and not isinstance(kv.py, bool)):
        return None
    if isinstance(ov, Conc):
        try:
            return [(st, Conc(ov.py[kv.py]))]
        except Exception as e:
            return [(st, Raise(type(e).__name__))]
    t = I.term(ov)
    i = kv.py
    out = []
    seqlike = I.U.has_type(t, ["tuple", "list"])
    for (q, b) in I.branch(st, seqlike):
        if b:
            ok = (vm.tlen(t) > i) if i >= 0 else (vm.tlen(t) >= -i)
            for (r, b2) in I.branch(q, ok):
                if b2:
                    it = vm.titem(t, i) if i >= 0 else vm.titem(t, vm.tlen(t) + i)
                    I.U.well_typed(it)
                    out.append((r, Sym(it)))
                else:
                    out.append((r, Raise("IndexError")))
        else:
            nonsub = z3.Or(I.U.isnum(t), t == I.U.NONE, I.U.isdate(t), vm.ty(t) == vm.TAG["function"])
            for (r, b2) in I.branch(q, nonsub):
                if b2:
                    out.append((r, Raise("TypeError")))
                else:
                    r.notes.append("subscript of str/bytes/dict/object value: outside value model")
                    out.append((r, Raise("$Unmodelled")))
    return out


def install(I):
    L = I.lib
    L["re.match"] = h_re_match
    L["issubclass"] = h_issubclass
    L["$value_method"] = h_value_method
    L["new:datetime"] = h_new_datetime
    L["$getslice"] = h_getslice
    L["new:ListProxy"] = h_new_listproxy
    L["$getitem_value"] = h_getitem_value
