"""Library contracts for list / dict methods and sequence builtins (A-SORTED family)."""
import ast

import z3

from . import values as vm
from .engine import OutOfReach, Raise
from .values import BoolV, ClsV, Conc, FuncV, ModV, Ref, Sym, TupV, V


def _items_invalidate(h):
    h.fields.pop("$items", None)


def list_append(I, st, fv, args, kwargs, ctx):
    r = fv.data["self"]
    h = st.heap[r.oid]
    its = h.fields.get("$items")
    if its is not None:
        h.fields["$items"] = its + [args[0]]
    h.seq = z3.Concat(h.seq, z3.Unit(I.term(args[0])))
    return [(st, Conc(None))]


def list_extend(I, st, fv, args, kwargs, ctx):
    r = fv.data["self"]
    h = st.heap[r.oid]
    other = args[0]
    oi = I.known_items(st, other)
    its = h.fields.get("$items")
    if oi is not None:
        if its is not None:
            h.fields["$items"] = its + oi
        for x in oi:
            h.seq = z3.Concat(h.seq, z3.Unit(I.term(x)))
        return [(st, Conc(None))]
    _items_invalidate(h)
    if isinstance(other, Ref) and st.heap[other.oid].kind == "list":
        h.seq = z3.Concat(h.seq, st.heap[other.oid].seq)
        return [(st, Conc(None))]
    raise OutOfReach("list.extend(%r)" % (other,))


def list_copy(I, st, fv, args, kwargs, ctx):
    r = fv.data["self"]
    h = st.heap[r.oid]
    n = I.alloc_list(st, h.seq)
    if h.fields.get("$items") is not None:
        st.heap[n.oid].fields["$items"] = list(h.fields["$items"])
    return [(st, n)]


def list_clear(I, st, fv, args, kwargs, ctx):
    h = st.heap[fv.data["self"].oid]
    h.seq = z3.Empty(vm.SeqV)
    h.fields["$items"] = []
    return [(st, Conc(None))]


def _find_known(I, st, items, x):
    """index of the first item that is (provably) x among known items; None if undecidable"""
    for i, it in enumerate(items):
        same = I.is_same(it, x)
        if same is True:
            return i
        if same is False:
            continue
        if I.valid(st, same):
            return i
        if I.feasible(st, same):
            return None
    return -1


def list_index(I, st, fv, args, kwargs, ctx):
    h = st.heap[fv.data["self"].oid]
    its = h.fields.get("$items")
    if its is not None:
        i = _find_known(I, st, its, args[0])
        if i is None:
            raise OutOfReach("list.index: identity of items undecided")
        if i < 0:
            return [(st, Raise("ValueError"))]
        return [(st, Conc(i))]
    x = I.term(args[0])
    has = z3.Contains(h.seq, z3.Unit(x))
    out = []
    for (q, b) in I.branch(st, has):
        if b:
            from .builtins_lib import int_val
            out.append((q, int_val(I, z3.IndexOf(h.seq, z3.Unit(x), 0))))
        else:
            out.append((q, Raise("ValueError")))
    return out


def list_pop(I, st, fv, args, kwargs, ctx):
    r = fv.data["self"]
    h = st.heap[r.oid]
    idx = args[0] if args else Conc(-1)
    if not (isinstance(idx, Conc) and isinstance(idx.py, int)):
        raise OutOfReach("list.pop(symbolic index)")
    its = h.fields.get("$items")
    if its is not None:
        try:
            v = its[idx.py]
        except IndexError:
            return [(st, Raise("IndexError"))]
        new = list(its)
        new.pop(idx.py)
        h.fields["$items"] = new
        terms = [I.term(x) for x in new]
        h.seq = z3.Empty(vm.SeqV) if not terms else (z3.Unit(terms[0]) if len(terms) == 1 else z3.Concat(*[z3.Unit(t) for t in terms]))
        return [(st, v)]
    out = []
    for (q, b) in I.branch(st, z3.Length(h.seq) > (idx.py if idx.py >= 0 else -idx.py - 1)):
        if not b:
            out.append((q, Raise("IndexError")))
            continue
        hq = q.heap[r.oid]
        x = I.U.fresh("popped")
        rest = I.U.fresh_seq("rest")
        if idx.py == -1:
            q.pc.append(hq.seq == z3.Concat(rest, z3.Unit(x)))
        elif idx.py == 0:
            q.pc.append(hq.seq == z3.Concat(z3.Unit(x), rest))
        else:
            raise OutOfReach("list.pop(%d) on symbolic list" % idx.py)
        hq.seq = rest
        out.append((q, Sym(x)))
    return out


def _set_items(I, h, new):
    h.fields["$items"] = list(new)
    terms = [I.term(x) for x in new]
    h.seq = z3.Empty(vm.SeqV) if not terms else (z3.Unit(terms[0]) if len(terms) == 1 else z3.Concat(*[z3.Unit(t) for t in terms]))


def list_remove(I, st, fv, args, kwargs, ctx):
    h = st.heap[fv.data["self"].oid]
    its = h.fields.get("$items")
    if its is not None:
        i = _find_known(I, st, its, args[0])
        if i is None:
            raise OutOfReach("list.remove: identity of items undecided")
        if i < 0:
            return [(st, Raise("ValueError"))]
        new = list(its)
        new.pop(i)
        _set_items(I, h, new)
        return [(st, Conc(None))]
    x = I.term(args[0])
    out = []
    # list.remove compares with `==` (identity first): ValueError iff no element is identical or
    # equal to x — the same uninterpreted membership as `x in lst` (engine.seq_contains_eq)
    for (q, b) in I.branch(st, I.seq_contains_eq(h.seq, x)):
        if not b:
            out.append((q, Raise("ValueError")))
            continue
        hq = q.heap[fv.data["self"].oid]
        pre, post = I.U.fresh_seq("rpre"), I.U.fresh_seq("rpost")
        if I.valid(q, z3.Contains(hq.seq, z3.Unit(x))) and I.valid(q, vm.ty(x) == vm.TAG["object"]):
            # an opaque object (equality is identity): its first occurrence goes
            q.pc += [hq.seq == z3.Concat(pre, z3.Unit(x), post), z3.Not(z3.Contains(pre, z3.Unit(x)))]
        else:
            e = I.U.fresh("removed")
            eq = I.py_eq(q, Sym(e), args[0])
            eq = z3.BoolVal(eq) if isinstance(eq, bool) else eq
            q.pc += [hq.seq == z3.Concat(pre, z3.Unit(e), post), z3.Or(e == x, eq), z3.Not(vm.mem_eq(pre, x))]
        hq.seq = z3.Concat(pre, post)
        out.append((q, Conc(None)))
    return out


def list_setitem(I, st, ov, kv, v, ctx):
    h = st.heap[ov.oid]
    its = h.fields.get("$items")
    if isinstance(kv, Conc) and isinstance(kv.py, slice) and kv.py == slice(None, None, None):
        new = I.known_items(st, v)
        if new is not None:
            _set_items(I, h, new)
            return [(st, Conc(None))]
        if isinstance(v, Ref) and st.heap[v.oid].kind == "list":
            h.seq = st.heap[v.oid].seq
            h.fields.pop("$items", None)
            return [(st, Conc(None))]
    if its is not None and isinstance(kv, Conc) and isinstance(kv.py, int):
        try:
            new = list(its)
            new[kv.py] = v
        except IndexError:
            return [(st, Raise("IndexError"))]
        _set_items(I, h, new)
        return [(st, Conc(None))]
    raise OutOfReach("list item assignment on symbolic list/index")


def list_insert(I, st, fv, args, kwargs, ctx):
    r = fv.data["self"]
    h = st.heap[r.oid]
    idx, v = args
    its = h.fields.get("$items")
    if its is not None and isinstance(idx, Conc) and isinstance(idx.py, int):
        new = list(its)
        new.insert(idx.py, v)
        h.fields["$items"] = new
        terms = [I.term(x) for x in new]
        h.seq = z3.Unit(terms[0]) if len(terms) == 1 else z3.Concat(*[z3.Unit(t) for t in terms])
        return [(st, Conc(None))]
    raise OutOfReach("list.insert on symbolic list")


def dict_get(I, st, fv, args, kwargs, ctx):
    from . import objects
    r = fv.data["self"]
    k = args[0]
    d = args[1] if len(args) > 1 else kwargs.get("default", Conc(None))
    has = I.dict_has(st, r, k)
    out = []
    for (q, b) in I.branch(st, I.truth(has)):
        out.append((q, objects.dict_get(I, q, r, k) if b else d))
    return out


def dict_pop(I, st, fv, args, kwargs, ctx):
    from . import objects
    r = fv.data["self"]
    k = args[0]
    has = I.dict_has(st, r, k)
    out = []
    for (q, b) in I.branch(st, I.truth(has)):
        if b:
            v = objects.dict_get(I, q, r, k)
            objects.dict_remove(I, q, r, k)
            out.append((q, v))
        elif len(args) > 1:
            out.append((q, args[1]))
        else:
            out.append((q, Raise("KeyError")))
    return out


def dict_setdefault(I, st, fv, args, kwargs, ctx):
    from . import objects
    r = fv.data["self"]
    k = args[0]
    d = args[1] if len(args) > 1 else Conc(None)
    has = I.dict_has(st, r, k)
    out = []
    for (q, b) in I.branch(st, I.truth(has)):
        if b:
            out.append((q, objects.dict_get(I, q, r, k)))
        else:
            I.dict_store(q, r, k, d)
            out.append((q, d))
    return out


def dict_items(I, st, fv, args, kwargs, ctx):
    r = fv.data["self"]
    h = st.heap[r.oid]
    if h.ckeys is not None:
        return [(st, TupV([TupV([Conc(k), I.dict_load_c(st, r, k)]) for k in h.ckeys]))]
    return [(st, FuncV("builtin", name="$dictitems", self=r))]


def dict_keys(I, st, fv, args, kwargs, ctx):
    r = fv.data["self"]
    h = st.heap[r.oid]
    if h.ckeys is not None:
        return [(st, TupV([Conc(k) for k in h.ckeys]))]
    return [(st, I.alloc_list(st, h.keys))]


def dict_values(I, st, fv, args, kwargs, ctx):
    r = fv.data["self"]
    h = st.heap[r.oid]
    if h.ckeys is not None:
        return [(st, TupV([I.dict_load_c(st, r, k) for k in h.ckeys]))]
    return [(st, FuncV("builtin", name="$dictvalues", self=r))]


def dict_update(I, st, fv, args, kwargs, ctx):
    r = fv.data["self"]
    if args:
        d = I.known_dict(st, args[0])
        if d is None:
            raise OutOfReach("dict.update with symbolic mapping")
        for k, v in d.items():
            I.dict_store(st, r, Conc(k), v)
    for k, v in kwargs.items():
        I.dict_store(st, r, Conc(k), v)
    return [(st, Conc(None))]


def dict_clear(I, st, fv, args, kwargs, ctx):
    h = st.heap[fv.data["self"].oid]
    for f in [f for f in h.fields if isinstance(f, tuple) and f[0] == "k"]:
        del h.fields[f]
    h.keys = z3.Empty(vm.SeqV)
    h.ckeys = []
    return [(st, Conc(None))]


def dict_copy(I, st, fv, args, kwargs, ctx):
    r = fv.data["self"]
    h = st.heap[r.oid]
    n = I.alloc_dict(st, cls=h.cls)
    nh = st.heap[n.oid]
    nh.keys, nh.vals = h.keys, h.vals
    nh.ckeys = None if h.ckeys is None else list(h.ckeys)
    for f, v in h.fields.items():
        nh.fields[f] = v
    return [(st, n)]


def h_anyall(is_all):
    def h(I, st, fv, args, kwargs, ctx):
        its = I.known_items(st, args[0])
        if its is None and isinstance(args[0], Ref) and st.heap[args[0].oid].fields.get("$map") is not None:
            # any(f(x) for x in S) / all(…) over a symbolic list S whose comprehension was a pure map:
            # the spec function "every item satisfies pred" on the Seq carrier; ∀-elimination at a
            # member is available to contracts through I.anyall_folds
            from . import spec as _S
            seq, x, body = st.heap[args[0].oid].fields["$map"]
            want = bool(is_all)

            def pred(t, _body=body, _x=x, _want=want):
                tr = vm.truthy(z3.substitute(_body, (_x, t)))
                return tr if _want else z3.Not(tr)
            f = _S.Fold(I, "anyall!%d" % I.new_oid(), pred)
            I.__dict__.setdefault("anyall_folds", []).append((f, seq, is_all))
            return [(st, BoolV(f.sfn(seq) if is_all else z3.Not(f.sfn(seq))))]
        if its is None:
            raise OutOfReach("any/all over symbolic iterable")
        ts = [I.truth_in(st, x) for x in its]
        if all(isinstance(t, bool) for t in ts):
            return [(st, Conc(all(ts) if is_all else any(ts)))]
        fs = [z3.BoolVal(t) if isinstance(t, bool) else t for t in ts]
        return [(st, BoolV(z3.And(fs) if is_all else z3.Or(fs)))]
    return h


def install(I):
    L = I.lib
    L["list.append"] = list_append
    L["list.extend"] = list_extend
    L["list.copy"] = list_copy
    L["list.clear"] = list_clear
    L["list.index"] = list_index
    L["list.pop"] = list_pop
    L["list.remove"] = list_remove
    L["list.__setitem__"] = lambda I, st, fv, args, kwargs, ctx: list_setitem(I, st, fv.data["self"], args[0], args[1], ctx)
    L["list.__getitem__"] = lambda I, st, fv, args, kwargs, ctx: I.getitem(st, fv.data["self"], args[0], ctx)
    L["$list_setitem"] = list_setitem
    L["list.insert"] = list_insert
    L["dict.get"] = dict_get
    L["dict.pop"] = dict_pop
    L["dict.setdefault"] = dict_setdefault
    L["dict.items"] = dict_items
    L["dict.keys"] = dict_keys
    L["dict.values"] = dict_values
    L["dict.update"] = dict_update
    L["dict.copy"] = dict_copy
    L["dict.clear"] = dict_clear
    L["any"] = h_anyall(False)
    L["all"] = h_anyall(True)
