"""Loop rules (DESIGN.md §2.6).

* iteration over a collection whose items are known (a literal in the source, a tuple display,
  ``zip`` of such)  → unrolled: complete, the literal is in the source;
* iteration over a symbolic sequence → the inductive rule with a sidecar invariant over the
  processed prefix; an arbitrary iteration is represented as ``xs = pre ++ [x] ++ post``;
  recursive spec functions ("folds") get their defining equations instantiated at the split.
"""
import ast

import z3

from . import values as vm
from .engine import OutOfReach, Raise
from .values import BoolV, ClsV, Conc, FuncV, ModV, Ref, Sym, TupV, V


class LoopSpec:
    """Sidecar loop contract.
    header   : substring that must occur in ast.unparse(loop.iter) (fingerprint, so that a
               reordering of loops is detected instead of silently mis-keyed)
    inv      : callable(I, st, pre_seq) -> z3 Bool       (invariant over the processed prefix)
    modifies : list of variable names the body may assign (default: computed from the AST)
    heap     : callable(I, st) -> None, havocs the heap locations the loop may modify
    """

    def __init__(self, header, inv=None, modifies=None, heap=None, name=None, entry_oblig=None, exit_oblig=None,
                 elem_facts=None):
        self.header = header
        self.inv = inv
        self.modifies = modifies
        self.heap = heap
        self.name = name
        self.entry_oblig = entry_oblig    # callable(I, st) -> [(name, formula)] proved at loop entry
        self.exit_oblig = exit_oblig      # callable(I, st) -> [(name, formula)] proved after the loop (inv at the whole sequence assumed)
        self.elem_facts = elem_facts      # callable(I, st, x) -> [formulas]: instances of (quantified) contract assumptions at the arbitrary element


def assigned_names(stmts):
    names = set()
    for s in stmts:
        for n in ast.walk(s):
            if isinstance(n, ast.Name) and isinstance(n.ctx, ast.Store):
                names.add(n.id)
    return names


def loop_ordinal(ctx, node):
    fd = ctx.get("fnode")
    if fd is None:
        return None
    k = 0
    for n in ast.walk(fd):
        if isinstance(n, (ast.For, ast.While)):
            if n is node:
                return k
            k += 1
    return None


def iter_items(I, st, itv):
    """Known items of an iterable, else None."""
    its = I.known_items(st, itv)
    if its is not None:
        return its
    if isinstance(itv, Ref):
        h = st.heap[itv.oid]
        if h.kind == "dict" and h.ckeys is not None:
            return [Conc(k) for k in h.ckeys]
    if isinstance(itv, Conc) and isinstance(itv.py, str):
        return [Conc(ch) for ch in itv.py]
    return None


def symbolic_seq(I, st, itv):
    """Symbolic iterable: ('seq', z3 Seq, None) for heap lists/dict keys, ('tuple', term, cond)
    for symbolic tuple/list *values* (cond: the typing side condition under which iteration is
    defined), else None."""
    if isinstance(itv, Ref):
        h = st.heap[itv.oid]
        if h.kind == "list":
            return ("seq", h.seq, None)
        if h.kind == "dict":
            return ("seq", h.keys, None)
        return None
    if isinstance(itv, Sym):
        t = itv.t
        return ("tuple", t, I.U.has_type(t, ["tuple", "list"]))
    return None


def run_body(I, body, st, ctx):
    """-> (continuing states, break states, escaped [(state, outcome)])"""
    cont, brk, esc = [], [], []
    for (q, oc) in I.exec_block(body, st, ctx):
        if oc is None or oc[0] == "continue":
            cont.append(q)
        elif oc[0] == "break":
            brk.append(q)
        else:
            esc.append((q, oc))
    return cont, brk, esc


def exec_for(I, s, st, ctx):
    out = []
    for (q, itv) in I.eval(s.iter, st, ctx):
        if isinstance(itv, Raise):
            out.append((q, ("raise", itv)))
            continue
        out += _for_over(I, s, q, itv, ctx)
    return out


def _finish(I, s, states, brk, esc, ctx):
    out = list(esc)
    for q in states:
        if s.orelse:
            out += I.exec_block(s.orelse, q, ctx)
        else:
            out.append((q, None))
    out += [(q, None) for q in brk]
    return out


def iter_protocol(I, st, itv, ctx):
    """An object whose class defines __iter__ (contract or real code): the iterable it yields."""
    if isinstance(itv, Ref) and st.heap[itv.oid].kind == "obj" and st.heap[itv.oid].cls:
        f = I.src.find_method(st.heap[itv.oid].cls, "__iter__")
        if f is not None:
            qual = "%s.__iter__" % f[0]
            if qual in I.contracts:
                res = I.call(I.bound_method(itv, f), [], {}, st, ctx)
                if len(res) == 1 and not isinstance(res[0][1], Raise):
                    return res[0][1]
    return itv


def _for_over(I, s, st, itv, ctx):
    itv = iter_protocol(I, st, itv, ctx)
    # zip(literal, symbolic) and map objects
    if isinstance(itv, FuncV) and itv.kind == "builtin" and itv.data.get("name") == "$zipobj":
        return _for_zip(I, s, st, itv.data["zargs"], ctx)
    if isinstance(itv, FuncV) and itv.kind == "builtin" and itv.data.get("name") == "$mapobj":
        f, xs = itv.data["margs"]
        raise OutOfReach("for over lazy map object")
    if isinstance(itv, FuncV) and itv.kind == "builtin" and itv.data.get("name") == "$dictitems":
        d = st.heap[itv.data["self"].oid]
        vals = d.vals
        return _for_symbolic(I, s, st, "seq", d.keys, ctx,
                             elem_val=lambda x: TupV([Sym(x), Sym(z3.Select(vals, x))]), distinct=True)
    if isinstance(itv, FuncV) and itv.kind == "builtin" and itv.data.get("name") == "$dictvalues":
        # iteration over d.values(): one step per key, the element is the value stored under it
        d = st.heap[itv.data["self"].oid]
        vals = d.vals
        return _for_symbolic(I, s, st, "seq", d.keys, ctx, elem_val=lambda x: Sym(z3.Select(vals, x)), distinct=True)
    items = iter_items(I, st, itv)
    if items is not None:
        live, brk, esc = [st], [], []
        for it in items:
            nxt = []
            for q in live:
                res = I.assign(s.target, it, q, ctx)
                for (r, oc) in res:
                    if oc is not None:
                        esc.append((r, oc))
                        continue
                    c, b, e = run_body(I, s.body, r, ctx)
                    nxt += c
                    brk += b
                    esc += e
            live = nxt
        return _finish(I, s, live, brk, esc, ctx)
    if isinstance(itv, Ref) and st.heap[itv.oid].kind == "dict" and st.heap[itv.oid].ckeys is None:
        # iteration over a dict with symbolic keys: one step per key, the keys are pairwise different
        return _for_symbolic(I, s, st, "seq", st.heap[itv.oid].keys, ctx, distinct=True)
    ss = symbolic_seq(I, st, itv)
    if ss is None:
        if isinstance(itv, (Conc, BoolV)):
            return [(st, ("raise", Raise("TypeError")))]
        raise OutOfReach("for over %r" % (itv,))
    skind, seq, cond = ss
    out = []
    if cond is not None:
        for (q, b) in I.branch(st, cond):
            if b:
                out += _for_symbolic(I, s, q, skind, seq, ctx)
            else:
                # iterating a non-sequence symbolic value: None/numbers raise TypeError; other
                # iterables (str, dict, set, generators) are outside the value model
                t = itv.t
                non_iter = z3.Or(I.U.isnum(t), t == I.U.NONE, I.U.isdate(t), vm.ty(t) == vm.TAG["function"],
                                 vm.ty(t) == vm.TAG["type"])
                for (r, b2) in I.branch(q, non_iter):
                    if b2:
                        out.append((r, ("raise", Raise("TypeError"))))
                    else:
                        r.notes.append("iteration over non-sequence iterable: outside value model")
                        out.append((r, ("raise", Raise("$Unmodelled"))))
        return out
    return _for_symbolic(I, s, st, skind, seq, ctx)


def _for_zip(I, s, st, zargs, ctx):
    known = [iter_items(I, st, a) for a in zargs]
    if len(zargs) == 2 and all(k is None for k in known) and all(isinstance(a, Sym) for a in zargs):
        # zip of two symbolic tuple/list values of (provably) equal length: index-based rule
        a, b = zargs[0].t, zargs[1].t
        ok = z3.And(I.U.has_type(a, ["tuple", "list"]), I.U.has_type(b, ["tuple", "list"]))
        if not I.valid(st, ok):
            raise OutOfReach("zip over symbolic values of unknown type")
        # zip stops at the shorter operand
        n_total = z3.If(vm.tlen(a) <= vm.tlen(b), vm.tlen(a), vm.tlen(b))
        return _for_symbolic(I, s, st, "tuple", a, ctx, elem_val=lambda x, i: TupV([Sym(x), Sym(vm.titem(b, i))]),
                             spec_iter_text="zip", n_total=n_total)
    n = min(len(k) for k in known if k is not None)
    syms = []
    for a, k in zip(zargs, known):
        if k is None:
            ss = symbolic_seq(I, st, a)
            if ss is None:
                raise OutOfReach("zip over %r" % (a,))
            syms.append(ss)
        else:
            syms.append(None)
    live, brk, esc = [st], [], []
    done = []
    for i in range(n):
        nxt = []
        for q in live:
            # all symbolic sequences must have more than i items, otherwise zip stops
            conds = [(z3.Length(ss[1]) > i) if ss[0] == "seq" else (vm.tlen(ss[1]) > i) for ss in syms if ss is not None]
            for ss in syms:
                if ss is not None and ss[2] is not None and i == 0:
                    if not I.valid(q, ss[2]):
                        raise OutOfReach("zip over symbolic value of unknown type")
            for (r, b) in I.branch(q, z3.And(conds) if conds else True):
                if not b:
                    done.append(r)
                    continue
                vals = []
                for a, k, ss in zip(zargs, known, syms):
                    if k is not None:
                        vals.append(k[i])
                    else:
                        it = z3.simplify(ss[1][i]) if ss[0] == "seq" else vm.titem(ss[1], i)
                        I.U.well_typed(it)
                        vals.append(Sym(it))
                for (z, oc) in I.assign(s.target, TupV(vals), r, ctx):
                    if oc is not None:
                        esc.append((z, oc))
                        continue
                    c, b2, e = run_body(I, s.body, z, ctx)
                    nxt += c
                    brk += b2
                    esc += e
        live = nxt
    return _finish(I, s, live + done, brk, esc, ctx)


def havoc_vars(I, st, names):
    for n in names:
        st.env[n] = Sym(I.U.fresh(n))


def _for_symbolic(I, s, st, skind, seq, ctx, elem_val=None, spec_iter_text=None, n_total=None, distinct=False):
    """Inductive rule over a symbolic sequence (heap list: Seq split `xs = pre ++ [x] ++ post`;
    tuple/list value: arbitrary index `0 <= i < len`, `x = item(i)`)."""
    from .spec import Prefix
    specs = ctx.get("loops") or {}
    qual = ctx.get("qual")
    spec = None
    for (q_, hdr), sp in specs.items():
        if q_ == qual and hdr in ast.unparse(s.iter):
            spec = sp
    tnames = {n.id for n in ast.walk(s.target) if isinstance(n, ast.Name)}
    mod = set(spec.modifies) if (spec and spec.modifies is not None) else assigned_names(s.body)
    mod |= tnames
    inv = spec.inv if spec else None
    obligations = ctx.get("obligations")
    U = I.U
    folds = list(U.__dict__.get("folds", {}).values())
    label = (spec.name or spec.header) if spec else ast.unparse(s.iter)
    if skind == "seq":
        p_empty = Prefix("seq", seq=z3.Empty(vm.SeqV))
        p_all = Prefix("seq", seq=seq)
    else:
        for f in folds:
            U.axioms.append(f.tfn(seq, 0))        # the fold over the empty prefix (defining equation)
        p_empty = Prefix("tuple", t=seq, n=z3.IntVal(0))
        p_all = Prefix("tuple", t=seq, n=(n_total if n_total is not None else vm.tlen(seq)))
    # (1) invariant on entry
    if inv is not None and obligations is not None:
        obligations.append(("loop-inv-entry:%s" % label, st.fork(), inv(I, st, p_empty)))
    if spec is not None and spec.entry_oblig is not None and obligations is not None:
        for (nm_, f_) in spec.entry_oblig(I, st):
            obligations.append(("loop-entry:%s/%s" % (label, nm_), st.fork(), f_))
    # (2) arbitrary iteration
    it = st.fork()
    havoc_vars(I, it, mod)
    if spec and spec.heap:
        spec.heap(I, it)
    x = U.fresh("elem")
    if skind == "seq":
        pre, post = U.fresh_seq("pre"), U.fresh_seq("post")
        it.pc.append(seq == z3.Concat(pre, z3.Unit(x), post))
        if distinct:
            # the keys of a dict are pairwise different: the current key occurs nowhere else
            it.pc += [z3.Not(z3.Contains(pre, z3.Unit(x))), z3.Not(z3.Contains(post, z3.Unit(x)))]
        for f in folds:
            if f.indexed:
                continue
            px = f.pred(x)
            it.pc.append(f.sfn(z3.Unit(x)) == px)
            it.pc.append(f.sfn(z3.Concat(pre, z3.Unit(x))) == z3.And(f.sfn(pre), px))
            it.pc.append(f.sfn(z3.Concat(pre, z3.Unit(x), post)) == z3.And(f.sfn(pre), px, f.sfn(post)))
        p_pre = Prefix("seq", seq=pre)
        p_next = Prefix("seq", seq=z3.Concat(pre, z3.Unit(x)))
    else:
        i = U.fresh_int("idx")
        it.pc += [i >= 0, i < (n_total if n_total is not None else vm.tlen(seq)), x == vm.titem(seq, i)]
        for f in folds:
            px = f.pred(x, i) if f.indexed else f.pred(x)
            it.pc.append(f.tfn(seq, 0))
            it.pc.append(f.tfn(seq, i + 1) == z3.And(f.tfn(seq, i), px))
            it.pc.append(z3.Implies(f.tfn(seq, vm.tlen(seq)), z3.And(px, f.tfn(seq, i))))   # ∀-elimination at i
        p_pre = Prefix("tuple", t=seq, n=i)
        p_next = Prefix("tuple", t=seq, n=i + 1)
    if spec is not None and spec.elem_facts is not None:
        import inspect as _insp2
        if skind == "tuple" and len(_insp2.signature(spec.elem_facts).parameters) == 4:
            it.pc += list(spec.elem_facts(I, it, x, i))          # the arbitrary index as well
        else:
            it.pc += list(spec.elem_facts(I, it, x))
    if inv is not None:
        it.pc.append(inv(I, it, p_pre))
    heap_before = {k: dict(h.fields) for k, h in it.heap.items()}
    brk, esc = [], []
    if I.feasible(it):
        if elem_val is not None:
            import inspect as _insp
            ev_ = elem_val(x, i) if (skind == "tuple" and len(_insp.signature(elem_val).parameters) == 2) else elem_val(x)
            for sub in (ev_.items if isinstance(ev_, TupV) else [ev_]):
                if isinstance(sub, Sym):
                    I.U.well_typed(sub.t)
        else:
            ev_ = Sym(x)
        for (z, oc) in I.assign(s.target, ev_, it, ctx):
            if oc is not None:
                esc.append((z, oc))
                continue
            c, b, e = run_body(I, s.body, z, ctx)
            brk += b
            esc += e
            for r in c:
                if not (spec and spec.heap):
                    _check_no_heap_write(r, heap_before)
                if inv is not None and obligations is not None:
                    obligations.append(("loop-inv-preserved:%s" % label, r.fork(), inv(I, r, p_next)))
        for r in brk:
            if not (spec and spec.heap):
                _check_no_heap_write(r, heap_before)
        for (r, oc) in esc:
            if not (spec and spec.heap):
                _check_no_heap_write(r, heap_before)
    # (3) after the loop: all elements processed
    ex = st.fork()
    havoc_vars(I, ex, mod)
    if spec and spec.heap:
        spec.heap(I, ex)
    if inv is not None:
        ex.pc.append(inv(I, ex, p_all))
    if spec is not None and spec.exit_oblig is not None and obligations is not None and I.feasible(ex):
        for (nm_, f_) in spec.exit_oblig(I, ex):
            obligations.append(("loop-exit:%s/%s" % (label, nm_), ex.fork(), f_))
    return _finish(I, s, [ex] if I.feasible(ex) else [], brk, esc, ctx)


def _check_no_heap_write(st, before):
    for k, h in st.heap.items():
        b = before.get(k)
        if b is None:
            continue   # allocated inside the body: local
        for f, v in h.fields.items():
            if f in b and b[f] is not v:
                raise OutOfReach("loop body writes heap field %r without a loop frame" % (f,))


def exec_while(I, s, st, ctx):
    """Inductive rule for `while cond: body` with a sidecar invariant (partial correctness:
    termination is not proved, A-TERM)."""
    specs = ctx.get("loops") or {}
    qual = ctx.get("qual")
    spec = None
    for (q_, hdr), sp in specs.items():
        if q_ == qual and hdr in ast.unparse(s.test):
            spec = sp
    if spec is None or spec.inv is None:
        raise OutOfReach("while loop without invariant")
    obligations = ctx.get("obligations")
    label = spec.name or spec.header
    mod = set(spec.modifies) if spec.modifies is not None else assigned_names(s.body)
    if obligations is not None:
        obligations.append(("loop-inv-entry:%s" % label, st.fork(), spec.inv(I, st, None)))
    out = []
    # arbitrary iteration
    it = st.fork()
    havoc_vars(I, it, mod)
    if spec.heap:
        spec.heap(I, it)
    it.pc.append(spec.inv(I, it, None))
    brk, esc = [], []
    if I.feasible(it):
        for (q, cv) in I.eval(s.test, it, ctx):
            if isinstance(cv, Raise):
                esc.append((q, ("raise", cv)))
                continue
            for (r, b) in I.branch(q, I.truth_in(q, cv)):
                if not b:
                    continue
                c, b2, e = run_body(I, s.body, r, ctx)
                brk += b2
                esc += e
                for z in c:
                    if obligations is not None:
                        obligations.append(("loop-inv-preserved:%s" % label, z.fork(), spec.inv(I, z, None)))
    # exit: invariant and negated condition
    ex = st.fork()
    havoc_vars(I, ex, mod)
    if spec.heap:
        spec.heap(I, ex)
    ex.pc.append(spec.inv(I, ex, None))
    done = []
    if I.feasible(ex):
        for (q, cv) in I.eval(s.test, ex, ctx):
            if isinstance(cv, Raise):
                esc.append((q, ("raise", cv)))
                continue
            for (r, b) in I.branch(q, I.truth_in(q, cv)):
                if not b:
                    done.append(r)
    return _finish(I, s, done, brk, esc, ctx)


def _comprehension_symbolic(I, e, g, st, itv, ctx, kind):
    """Comprehension over a symbolic iterable: the element / filter expressions are executed once
    on an *arbitrary* element (they must not write the heap; a raise there is a raising path of
    the comprehension); the result is a fresh container about whose contents nothing is assumed
    (sound over-approximation — contracts that need more use a loop with an invariant)."""
    U = I.U
    itv = iter_protocol(I, st, itv, ctx)
    if isinstance(itv, FuncV) and itv.kind == "builtin" and itv.data.get("name") == "$dictitems":
        d = st.heap[itv.data["self"].oid]
        seq, skind = d.keys, "seq"
        vals = d.vals
        mk = lambda x: TupV([Sym(x), Sym(z3.Select(vals, x))])
    else:
        ss = symbolic_seq(I, st, itv)
        if ss is None:
            raise OutOfReach("comprehension over %r" % (itv,))
        skind, seq, cond = ss
        if cond is not None and not I.valid(st, cond):
            # values that are not tuples/lists: outside the value model (assumed away, recorded)
            other = st.fork()
            other.pc.append(z3.Not(cond))
            other.notes.append("comprehension over a non-tuple/list iterable: outside value model")
            st.pc.append(cond)
            pre_out = [(other, Raise("$Unmodelled"))] if I.feasible(other) else []
            return pre_out + _comprehension_symbolic(I, e, g, st, itv, ctx, kind)
        mk = lambda x: Sym(x)
    probe = st.fork()
    x = U.fresh("celem")
    if skind == "seq":
        probe.pc.append(z3.Contains(seq, z3.Unit(x)))
    else:
        i = U.fresh_int("cidx")
        probe.pc += [i >= 0, i < vm.tlen(seq), x == vm.titem(seq, i)]
    xv = mk(x)
    for sub in (xv.items if isinstance(xv, TupV) else [xv]):
        if isinstance(sub, Sym):
            U.well_typed(sub.t)
    heap_before = {k: dict(h.fields) for k, h in probe.heap.items()}
    ghost_before = dict(probe.ghost)
    raising = []
    live = None
    if I.feasible(probe):
        res = I.assign(g.target, xv, probe, ctx)
        live = []
        for (z, oc) in res:
            if oc is not None:
                raising.append((z, oc[1]))
            else:
                live.append(z)
        for cnd in g.ifs:
            nxt = []
            for z in live:
                for (w, cv) in I.eval(cnd, z, ctx):
                    if isinstance(cv, Raise):
                        raising.append((w, cv))
                    else:
                        for (u, b) in I.branch(w, I.truth_in(w, cv)):
                            if b:
                                nxt.append(u)
            live = nxt
        exprs = [e.key, e.value] if kind == "dict" else [e.elt]
        produced = []
        for z in live:
            for (w, vv) in I.eval_list(exprs, z, ctx):
                if isinstance(vv, Raise):
                    raising.append((w, vv))
                else:
                    produced.append((w, vv))
                    _check_no_heap_write(w, heap_before)
                    for kf in w.ghost:
                        if isinstance(kf, str) and kf.startswith("F_") and kf in ghost_before \
                                and not w.ghost[kf].eq(ghost_before[kf]):
                            raise OutOfReach("comprehension writes a field map")
    out = [(w, rz) for (w, rz) in raising]
    if kind in ("list", "gen"):
        cseq = U.fresh_seq("comp")
        r = I.alloc_list(st, cseq)
        # pure map `[f(x) for x in S]` (one path, no filter, no raise): remember the element function,
        # so that consumers (dict-from-pairs) can reason about the result element-wise
        if skind == "seq" and not g.ifs and not raising and live is not None and len(produced) == 1 \
                and kind in ("list", "gen") and len(produced[0][0].pc) == len(st.pc) + 1:
            try:
                st.heap[r.oid].fields["$map"] = (seq, x, I.term(produced[0][1][0]))
            except Exception:
                pass
        # filter comprehension `[x for x in xs if cond(x)]`: every element of the result satisfies
        # cond (the disjunction of the passing paths of the probe, with the probe element replaced)
        if isinstance(e.elt, ast.Name) and isinstance(g.target, ast.Name) and e.elt.id == g.target.id \
                and not isinstance(xv, TupV) and g.ifs and live is not None:
            base = len(st.pc) + (1 if skind == "seq" else 3)
            alts = []
            for z in live:
                suf = z.pc[base:]
                alts.append(z3.And(suf) if len(suf) > 1 else (suf[0] if suf else z3.BoolVal(True)))
            if alts:
                body = z3.Or(alts) if len(alts) > 1 else alts[0]
                from .spec import fold as _fold
                nm = "comp_filter_%d" % I.new_oid()
                src_seq = seq if skind == "seq" else None
                f = _fold(I, nm, lambda y, body=body, x=x, src_seq=src_seq: z3.And(
                    z3.substitute(body, (x, y)), z3.Contains(src_seq, z3.Unit(y)) if src_seq is not None else z3.BoolVal(True)))
                st.pc.append(f.sfn(cseq))
                f.__dict__.setdefault("applied", []).append(cseq)
        out.append((st, r))
    elif kind == "dict":
        r = None
        if skind == "seq" and not g.ifs and not raising and live is not None and len(produced) == 1 \
                and len(produced[0][0].pc) == len(st.pc) + 1:
            # `{key(x): val(x) for x in S}`: the last element producing a key wins (objects.lastwins_dict)
            try:
                kt_, vt_ = I.term(produced[0][1][0]), I.term(produced[0][1][1])
                r = I.alloc_dict(st, keys=U.fresh_seq("lw_keys"), vals=z3.Const("lw_vals!%d" % I.new_oid(), z3.ArraySort(V, V)))
                st.heap[r.oid].fields["$lastwins"] = (seq, x, kt_, vt_)
            except Exception:
                r = None
        if r is None:
            ckeys_ = U.fresh_seq("compkeys")
            r = I.alloc_dict(st, keys=ckeys_, vals=z3.Const("compvals!%d" % I.new_oid(), z3.ArraySort(V, V)))
            # `{x: f(x) for x in xs if cond(x)}`: every key of the result is an element of xs that
            # satisfies cond (same rule as the filter list comprehension)
            if isinstance(e.key, ast.Name) and isinstance(g.target, ast.Name) and e.key.id == g.target.id \
                    and not isinstance(xv, TupV) and g.ifs and live is not None and skind == "seq":
                base = len(st.pc) + 1
                alts = []
                for z in live:
                    suf = z.pc[base:]
                    alts.append(z3.And(suf) if len(suf) > 1 else (suf[0] if suf else z3.BoolVal(True)))
                if alts:
                    body = z3.Or(alts) if len(alts) > 1 else alts[0]
                    from .spec import fold as _fold
                    f = _fold(I, "comp_keys_filter_%d" % I.new_oid(), lambda y, body=body, x=x, seq=seq: z3.And(
                        z3.substitute(body, (x, y)), z3.Contains(seq, z3.Unit(y))))
                    st.pc.append(f.sfn(ckeys_))
                    f.__dict__.setdefault("applied", []).append(ckeys_)
        out.append((st, r))
    else:
        raise OutOfReach("set comprehension over symbolic iterable")
    return out


def eval_comprehension(I, e, st, ctx, kind):
    if len(e.generators) != 1:
        if kind not in ("list", "gen"):
            raise OutOfReach("dict/set comprehension with several generators")
        # [elt for a in A for b in B]  ==  flatten([[elt for b in B] for a in A])
        inner = ast.copy_location(ast.ListComp(elt=e.elt, generators=e.generators[1:]), e)
        outer = ast.copy_location(ast.ListComp(elt=inner, generators=[e.generators[0]]), e)
        ast.fix_missing_locations(outer)
        out = []
        for (q, v) in eval_comprehension(I, outer, st, ctx, "list"):
            if isinstance(v, Raise):
                out.append((q, v))
                continue
            rows = I.known_items(q, v)
            if rows is None:
                raise OutOfReach("comprehension with several generators over a symbolic iterable")
            flat = []
            for row in rows:
                its = I.known_items(q, row)
                if its is None:
                    raise OutOfReach("comprehension with several generators over a symbolic iterable")
                flat += its
            out.append((q, I.make_list(q, flat) if kind == "list" else TupV(flat)))
        return out
    g = e.generators[0]
    if g.is_async:
        raise OutOfReach("async comprehension")
    out = []
    for (q, itv) in I.eval(g.iter, st, ctx):
        if isinstance(itv, Raise):
            out.append((q, itv))
            continue
        if isinstance(itv, FuncV) and itv.kind == "builtin" and itv.data.get("name") == "$zipobj":
            known = [iter_items(I, q, a) for a in itv.data["zargs"]]
            if all(k is not None for k in known):
                items = [TupV(list(t)) for t in zip(*known)]
            else:
                raise OutOfReach("comprehension over zip of symbolic")
        else:
            items = iter_items(I, q, itv)
        if items is None:
            out += _comprehension_symbolic(I, e, g, q, itv, ctx, kind)
            continue
        res = [(q, [])]
        saved_names = {n.id for n in ast.walk(g.target) if isinstance(n, ast.Name)}
        for it in items:
            nxt = []
            for (r, acc) in res:
                if isinstance(acc, Raise):
                    nxt.append((r, acc))
                    continue
                saved = {n: r.env.get(n) for n in saved_names}
                for (z, oc) in I.assign(g.target, it, r, ctx):
                    if oc is not None:
                        nxt.append((z, oc[1]))
                        continue
                    conds = [(z, True)]
                    for cnd in g.ifs:
                        nc = []
                        for (y, ok) in conds:
                            if not ok:
                                nc.append((y, False))
                                continue
                            for (w, cv) in I.eval(cnd, y, ctx):
                                if isinstance(cv, Raise):
                                    nc.append((w, cv))
                                else:
                                    for (u, b) in I.branch(w, I.truth_in(w, cv)):
                                        nc.append((u, b))
                        conds = nc
                    for (y, ok) in conds:
                        if isinstance(ok, Raise):
                            nxt.append((y, ok))
                        elif not ok:
                            nxt.append((y, acc))
                        else:
                            if kind == "dict":
                                for (w, kv) in I.eval_list([e.key, e.value], y, ctx):
                                    nxt.append((w, kv if isinstance(kv, Raise) else acc + [TupV(kv)]))
                            else:
                                for (w, v) in I.eval(e.elt, y, ctx):
                                    nxt.append((w, v if isinstance(v, Raise) else acc + [v]))
            res = nxt
        for (r, acc) in res:
            if isinstance(acc, Raise):
                out.append((r, acc))
            elif kind in ("list",):
                out.append((r, I.make_list(r, acc)))
            elif kind == "gen":
                out.append((r, TupV(acc)))
            elif kind == "dict":
                d = I.alloc_dict(r)
                for kv in acc:
                    I.dict_store(r, d, kv.items[0], kv.items[1])
                out.append((r, d))
            else:
                raise OutOfReach("set comprehension")
    return out
