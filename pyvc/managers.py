"""`with` statement (DESIGN.md §3.5).

Generator-based managers (``@contextmanager`` functions of the repo) are executed by protocol:
run the generator body to its single ``yield`` (enter segment), run the with-body, then resume
the generator *at the yield* normally or by raising the body's exception there — so code after
the yield that is not under ``finally`` is skipped on exception.  Class-based managers call the
real ``__enter__`` / ``__exit__``.  Assumption A-CTX: ``contextlib.contextmanager`` is the
stdlib one.
"""
import ast

from .engine import OutOfReach, Raise
from .values import BoolV, ClsV, Conc, FuncV, ModV, Ref, Sym, TupV


class YieldPoint(Exception):
    pass


def exec_with(I, s, st, ctx):
    if len(s.items) != 1:
        # nested items: rewrite `with a, b: body` as nested withs
        inner = ast.With(items=s.items[1:], body=s.body)
        ast.copy_location(inner, s)
        outer = ast.With(items=s.items[:1], body=[inner])
        ast.copy_location(outer, s)
        return exec_with(I, outer, st, ctx)
    item = s.items[0]
    ce = item.context_expr
    out = []
    # generator manager of the repo: `with name(args):` or `with mod.name(args)`
    if isinstance(ce, ast.Call):
        for (q, fv) in I.eval(ce.func, st, ctx):
            if isinstance(fv, Raise):
                out.append((q, ("raise", fv)))
                continue
            if isinstance(fv, FuncV) and fv.kind == "repo" and _is_ctxmanager(fv.data["node"]):
                out += _with_generator(I, s, item, fv, ce, q, ctx)
            else:
                out += _with_object_call(I, s, item, fv, ce, q, ctx)
        return out
    for (q, mv) in I.eval(ce, st, ctx):
        if isinstance(mv, Raise):
            out.append((q, ("raise", mv)))
        else:
            out += _with_object(I, s, item, mv, q, ctx)
    return out


def _is_ctxmanager(fd):
    return any(ast.unparse(d).endswith("contextmanager") for d in fd.decorator_list)


def _with_object_call(I, s, item, fv, ce, st, ctx):
    out = []
    for (q, mv) in I._call_with_args(fv, ce, st, ctx):
        if isinstance(mv, Raise):
            out.append((q, ("raise", mv)))
        else:
            out += _with_object(I, s, item, mv, q, ctx)
    return out


def _with_object(I, s, item, mv, st, ctx):
    h = I.lib.get("$with_object")
    if h is not None:
        r = h(I, s, item, mv, st, ctx)
        if r is not None:
            return r
    if not isinstance(mv, Ref):
        raise OutOfReach("with on %r" % (mv,))
    cls = I.class_of(st, mv)
    ent = I.src.find_method(cls, "__enter__") if cls else None
    ext = I.src.find_method(cls, "__exit__") if cls else None
    if not ent or not ext:
        raise OutOfReach("with on object without __enter__/__exit__")
    out = []
    for (q, ev) in I.call(I.bound_method(mv, ent), [], {}, st, ctx):
        if isinstance(ev, Raise):
            out.append((q, ("raise", ev)))
            continue
        if item.optional_vars is not None:
            res = I.assign(item.optional_vars, ev, q, ctx)
        else:
            res = [(q, None)]
        for (r, oc) in res:
            if oc is not None:
                out.append((r, oc))
                continue
            for (z, boc) in I.exec_block(s.body, r, ctx):
                if boc is not None and boc[0] == "raise":
                    exc = boc[1]
                    for (y, xv) in I.call(I.bound_method(mv, ext), [Sym(I.U.fresh("exc_type")), Sym(I.U.fresh("exc")), Conc(None)], {}, z, ctx):
                        if isinstance(xv, Raise):
                            out.append((y, ("raise", xv)))
                        else:
                            for (w, b) in I.branch(y, I.truth_in(y, xv)):
                                out.append((w, None) if b else (w, ("raise", exc)))
                else:
                    for (y, xv) in I.call(I.bound_method(mv, ext), [Conc(None), Conc(None), Conc(None)], {}, z, ctx):
                        out.append((y, ("raise", xv)) if isinstance(xv, Raise) else (y, boc))
    return out


def _with_generator(I, s, item, fv, ce, st, ctx):
    """Inline the generator manager around the body: the with-body takes the place of the yield."""
    from . import calls
    fd = fv.data["node"]
    qual = fv.data.get("qual") or fd.name
    ch = I.contracts.get("with:" + qual)
    if ch is not None and ctx.get("verifying") != qual:
        r = ch(I, s, item, fv, ce, st, ctx)
        if r is not None:
            return r
    yields = [n for n in ast.walk(fd) if isinstance(n, ast.Yield)]
    if len(yields) != 1:
        raise OutOfReach("context manager %s with %d yields" % (qual, len(yields)))
    out = []
    pos_exprs = list(ce.args)
    if any(isinstance(a, ast.Starred) for a in pos_exprs) or any(k.arg is None for k in ce.keywords):
        raise OutOfReach("star args to context manager")
    for (q, vals) in I.eval_list(pos_exprs + [k.value for k in ce.keywords], st, ctx):
        if isinstance(vals, Raise):
            out.append((q, ("raise", vals)))
            continue
        args = vals[:len(pos_exprs)]
        kwargs = {k.arg: v for k, v in zip(ce.keywords, vals[len(pos_exprs):])}
        module = fv.data["module"]
        cctx = I.child_ctx(ctx, module, fv.data.get("cls"), None, qual, fd)
        cctx["$yield"] = (s, item, ctx)
        env = calls.bind_params(I, fd, args, kwargs, fv.data.get("self"), q, ctx, cctx)
        if isinstance(env, Raise):
            out.append((q, ("raise", env)))
            continue
        I.stats["inlined"].add(qual)
        caller_env = q.env
        q.env = env
        q.ghost.setdefault("$envstack", [])
        q.ghost["$envstack"] = q.ghost["$envstack"] + [caller_env]
        for (r, oc) in I.exec_block(fd.body, q, cctx):
            stack = r.ghost.get("$envstack", [])
            # the caller env may have been updated by the with-body: it was saved back on resume
            r.env = stack[-1] if stack else dict(caller_env)
            r.ghost["$envstack"] = stack[:-1]
            if oc is None or oc[0] == "return":
                boc = r.ghost.pop("$body_outcome", None)
                out.append((r, boc))
            elif oc[0] == "raise":
                r.ghost.pop("$body_outcome", None)
                out.append((r, oc))
            else:
                raise OutOfReach("break/continue escaped context manager")
    return out


def exec_yield_stmt(I, node, st, ctx):
    """Called for `yield` as an expression statement inside an inlined manager."""
    y = ctx.get("$yield")
    if y is None:
        raise OutOfReach("yield outside inlined context manager")
    s, item, outer_ctx = y
    gen_env = st.env
    stack = st.ghost.get("$envstack", [])
    st.env = stack[-1]
    yres = [(st, Conc(None))]
    if node.value is not None:
        # evaluate the yielded value in the generator's env
        st.env = gen_env
        yres = I.eval(node.value, st, ctx)
    out = []
    for (q, yv) in yres:
        if isinstance(yv, Raise):
            q.env = gen_env
            out.append((q, ("raise", yv)))
            continue
        q.env = q.ghost["$envstack"][-1]
        if item.optional_vars is not None:
            res = I.assign(item.optional_vars, yv, q, outer_ctx)
        else:
            res = [(q, None)]
        for (r, oc) in res:
            if oc is not None:
                raise OutOfReach("with-target assignment raised")
            for (z, boc) in I.exec_block(s.body, r, outer_ctx):
                # save caller env back, resume generator
                z.ghost["$envstack"] = z.ghost["$envstack"][:-1] + [z.env]
                z.env = dict(gen_env)
                if boc is not None and boc[0] == "raise":
                    out.append((z, ("raise", boc[1])))          # raised at the yield
                else:
                    if boc is not None:
                        z.ghost["$body_outcome"] = boc       # return/break/continue in the body
                    out.append((z, None))
    return out
