"""Attribute / item access on the heap model."""
import ast

import z3

from . import values as vm
from .engine import OutOfReach, Raise
from .values import BoolV, ClsV, Conc, FuncV, ModV, Ref, Sym, TupV, V


def _decos(fd):
    return [ast.unparse(d) for d in fd.decorator_list]


def fresh_field(I, st, h, ref, attr):
    t = I.U.fresh("%s.%s" % (h.label or ("o%d" % ref.oid), attr))
    v = Sym(t)
    h.fields[attr] = v
    h.init[attr] = v
    return v


def getattr_(I, st, ov, attr, ctx):
    """-> results list"""
    if I.attr_hook is not None:
        r = I.attr_hook(I, st, ov, attr, ctx)
        if r is not None:
            return r
    if isinstance(ov, Ref):
        h = st.heap[ov.oid]
        if h.kind == "obj" and I.getattribute_hook and h.cls and not ctx.get("$raw_getattr") \
                and attr in h.fields and I.src.is_subclass(h.cls, "Parameter"):
            # slot reads of a Parameter go through the real Parameter.__getattribute__ (Undefined in
            # an unbound parameter falls back to _slot_defaults)
            found = I.src.find_method("Parameter", "__getattribute__")
            if found is not None:
                c2 = dict(ctx)
                c2["$raw_getattr"] = True
                return I.call(I.bound_method(ov, found), [Conc(attr)], {}, st, c2)
        if h.kind == "obj":
            if attr in h.fields:
                return [(st, h.fields[attr])]
            if attr == "__class__":
                return [(st, ClsV(h.cls))]
            if h.cls:
                found = I.src.find_method(h.cls, attr)
                if found is not None:
                    c, m, fd = found
                    decos = _decos(fd)
                    if "property" in decos:
                        return I.call(I.bound_method(ov, found), [], {}, st, ctx)
                    if "staticmethod" in decos:
                        return [(st, FuncV("repo", module=m, cls=c, node=fd, self=None, qual="%s.%s" % (c, fd.name)))]
                    return [(st, I.bound_method(ov, found))]
                ca = class_attr(I, st, h.cls, attr, ctx)
                if ca is not None:
                    return ca
            if h.lazy:
                return [(st, fresh_field(I, st, h, ov, attr))]
            return [(st, Raise("AttributeError"))]
        if h.kind in ("list", "dict"):
            if attr in h.fields and not str(attr).startswith("$"):
                return [(st, h.fields[attr])]
            if h.cls and I.src.module_of_class(h.cls) is not None:
                found = I.src.find_method(h.cls, attr)
                if found is not None:
                    c, m, fd = found
                    if "property" in _decos(fd):
                        return I.call(I.bound_method(ov, found), [], {}, st, ctx)
                    return [(st, I.bound_method(ov, found))]
            return [(st, FuncV("builtin", name="%s.%s" % (h.kind, attr), self=ov))]
    if isinstance(ov, ClsV):
        r = cls_getattr(I, st, ov, attr, ctx)
        if r is not None:
            return r
    if isinstance(ov, ModV):
        from . import builtins_lib
        r = builtins_lib.module_attr(I, ov, attr, ctx)
        if r is not None:
            return [(st, r)]
    if isinstance(ov, Sym) and I.sym_fields is not None and not ctx.get("$call_position") \
            and attr not in I.sym_fields and not attr.startswith("__"):
        # a contract that models symbolic objects with field maps: every attribute *read* (not a
        # method call) of a symbolic object is a field read — never a method object (which would
        # e.g. make `p.default is None` constantly False)
        I.sym_fields.add(attr)
    if isinstance(ov, Sym) and I.sym_fields and attr in I.sym_fields:
        F = sym_field(I, st, attr)
        t = z3.Select(F, ov.t)
        I.U.well_typed(t)
        return [(st, Sym(t))]
    if isinstance(ov, (Sym, Conc, TupV, BoolV)):
        h = I.lib.get("$getattr_value")
        if h is not None:
            r = h(I, st, ov, attr, ctx)
            if r is not None:
                return r
        return [(st, FuncV("builtin", name="value." + attr, self=ov))]
    if isinstance(ov, FuncV):
        h = I.lib.get("$getattr_func")
        if h is not None:
            r = h(I, st, ov, attr, ctx)
            if r is not None:
                return r
    raise OutOfReach("getattr %s on %r" % (attr, ov))


def class_attr(I, st, cname, attr, ctx):
    """Class-level (non-method) attribute along the MRO: evaluated from its AST."""
    for c in I.src.mro(cname):
        m = I.src.module_of_class(c)
        if m is None:
            continue
        node = m.class_attr(c, attr)
        if node is not None:
            key = ("$classattr", c, attr)
            if key in st.ghost:
                return [(st, st.ghost[key])]
            cctx = I.child_ctx(ctx, m, c, None, "%s.<class body>" % c)
            saved = st.env
            st.env = {}
            res = I.eval(node, st, cctx)
            out = []
            for (q, v) in res:
                q.env = dict(saved)
                if not isinstance(v, Raise):
                    q.ghost[key] = v
                out.append((q, v))
            return out
    return None


def cls_getattr(I, st, cv, attr, ctx):
    name = cv.name
    hk = I.lib.get("$class_attr")
    if hk is not None:
        r = hk(I, st, cv, attr, ctx)
        if r is not None:
            return r
    if I.src.module_of_class(name) is not None:
        found = I.src.find_method(name, attr)
        if found is not None:
            c, m, fd = found
            decos = _decos(fd)
            selfv = cv if "classmethod" in decos else None
            return [(st, FuncV("repo", module=m, cls=c, node=fd, self=selfv, qual="%s.%s" % (c, fd.name),
                               unbound=("classmethod" not in decos and "staticmethod" not in decos)))]
        ca = class_attr(I, st, name, attr, ctx)
        if ca is not None:
            return ca
        if attr == "__name__":
            return [(st, Conc(name))]
    if attr == "__name__":
        return [(st, Conc(name))]
    return [(st, FuncV("builtin", name="%s.%s" % (name, attr), self=None))]


def sym_field(I, st, attr):
    """Boogie-style field map of attribute `attr` over *symbolic* objects (objects that are not
    named inputs of the contract): one Array(V, V) per attribute, threaded through the state."""
    key = "F_" + attr
    if key not in st.ghost:
        st.ghost[key] = z3.Const("F0_%s" % attr, z3.ArraySort(V, V))
    return st.ghost[key]


def setattr_(I, st, ov, attr, v, ctx):
    if isinstance(ov, Sym) and I.sym_fields is not None and not ctx.get("$call_position") \
            and attr not in I.sym_fields and not attr.startswith("__"):
        # a contract that models symbolic objects with field maps: every attribute *read* (not a
        # method call) of a symbolic object is a field read — never a method object (which would
        # e.g. make `p.default is None` constantly False)
        I.sym_fields.add(attr)
    if isinstance(ov, Sym) and I.sym_fields and attr in I.sym_fields:
        F = sym_field(I, st, attr)
        st.ghost["F_" + attr] = z3.Store(F, ov.t, I.term(v))
        return [(st, Conc(None))]
    if isinstance(ov, Ref):
        h = st.heap[ov.oid]
        if h.kind == "obj":
            if I.setattr_hook is not None:
                r = I.setattr_hook(I, st, ov, attr, v, ctx)
                if r is not None:
                    return r
            # property setter?
            if h.cls:
                fs = I.src.find_setter(h.cls, attr)
                if fs is not None:
                    c, m, fd = fs
                    fv = FuncV("repo", module=m, cls=c, node=fd, self=ov, qual="%s.%s@setter" % (c, fd.name))
                    return I.call(fv, [v], {}, st, ctx)
            if h.lazy and attr not in h.fields and attr not in h.init:
                # remember the initial value for frame conditions
                fresh_field(I, st, h, ov, attr)
            h.fields[attr] = v
            return [(st, Conc(None))]
    raise OutOfReach("setattr %s on %r" % (attr, ov))


# --------------------------------------------------------------------------- dicts ------
def _pykey(k):
    if isinstance(k, Conc) and isinstance(k.py, (str, int, bool, type(None))):
        return k.py
    return None


def dict_store(I, st, ref, k, v):
    h = st.heap[ref.oid]
    kt, vt = I.term(k), I.term(v)
    ent = h.fields.get("$entries")
    if ent is not None:
        h.fields["$entries"] = ent + [(k, v)]
    pk = _pykey(k)
    if h.ckeys is not None and pk is not None:
        if pk not in h.ckeys:
            h.ckeys.append(pk)
            h.keys = z3.Concat(h.keys, z3.Unit(kt)) if True else h.keys
        h.fields[("k", pk)] = v
    else:
        if h.ckeys is not None:
            # leaving the fully-concrete regime
            h.ckeys = None
        has = z3.Contains(h.keys, z3.Unit(kt))
        if I.valid(st, has):
            pass                                   # key present on this path: order unchanged
        elif not I.feasible(st, has):
            h.keys = z3.Concat(h.keys, z3.Unit(kt))
        else:
            h.keys = z3.If(has, h.keys, z3.Concat(h.keys, z3.Unit(kt)))
    h.vals = z3.Store(h.vals, kt, vt)


def lastwins_dict(I, st, listref, cls=None):
    """dict(<pairs>) / OrderedDict(<pairs>) where <pairs> is a pure map `[(key(x), val(x)) for x in S]`
    over a heap list S of unknown length (loops.py records the element function): a mapping in which a
    key is present iff some element of S produces it and looks up the value of the LAST such element.
    -> Ref, or None when the argument is not such a list"""
    if not (isinstance(listref, Ref) and st.heap[listref.oid].kind == "list"):
        return None
    mp = st.heap[listref.oid].fields.get("$map")
    if mp is None:
        return None
    seq, x, t = mp
    if not (z3.is_app(t) and t.decl().name() == "tuple2"):
        return None
    r = I.alloc_dict(st, keys=I.U.fresh_seq("lw_keys"), vals=z3.Const("lw_vals!%d" % I.new_oid(), z3.ArraySort(vm.V, vm.V)), cls=cls or "dict")
    st.heap[r.oid].fields["$lastwins"] = (seq, x, t.arg(0), t.arg(1))
    return r


def _struct_eq(a, b):
    """equality of two terms, component-wise when both are canonical tuple terms (tupleN(...) is
    injective)"""
    if z3.is_app(a) and z3.is_app(b) and a.decl().name().startswith("tuple") and a.decl().name() == b.decl().name() \
            and a.num_args() == b.num_args() and a.num_args() > 0:
        return z3.And([_struct_eq(a.arg(i), b.arg(i)) for i in range(a.num_args())])
    return a == b


def _lastwins_nokey(I, h, kt):
    """fold: no element of a sequence produces the key kt"""
    from .spec import fold
    seq, x, key_t, val_t = h.fields["$lastwins"]
    return fold(I, "no_element_has_key_%d_%d" % (key_t.get_id(), kt.get_id()),
                lambda y: z3.Not(_struct_eq(z3.substitute(key_t, (x, y)), kt)))


def union_dict(I, st, a, b, cls=None):
    """dict(a, **b) / {**a, **b} for two mappings of unknown keys: a key is present iff it is in a or in
    b, and b's value wins.  (Lookups only; iteration order is not modelled.)"""
    ha, hb = st.heap[a.oid], st.heap[b.oid]
    if ha.fields.get("$lastwins") is not None or hb.fields.get("$lastwins") is not None \
            or ha.fields.get("$union") is not None or hb.fields.get("$union") is not None:
        return None
    r = I.alloc_dict(st, keys=I.U.fresh_seq("union_keys"), vals=z3.Const("union_vals!%d" % I.new_oid(), z3.ArraySort(vm.V, vm.V)), cls=cls or "dict")
    st.heap[r.oid].fields["$union"] = (ha.keys, ha.vals, hb.keys, hb.vals)
    return r


def dict_has(I, st, ref, k):
    h = st.heap[ref.oid]
    if h.fields.get("$union") is not None:
        ak, av, bk, bv = h.fields["$union"]
        u = z3.Unit(I.term(k))
        return BoolV(z3.Or(z3.Contains(ak, u), z3.Contains(bk, u)))
    if h.fields.get("$lastwins") is not None:
        kt = I.term(k)
        return BoolV(z3.Not(_lastwins_nokey(I, h, kt).sfn(h.fields["$lastwins"][0])))
    pk = _pykey(k)
    if h.ckeys is not None:
        if pk is not None:
            return Conc(pk in h.ckeys)
        if not h.ckeys:
            return Conc(False)
    kt = I.term(k)
    return BoolV(z3.Contains(h.keys, z3.Unit(kt)))


def dict_load_c(I, st, ref, pk):
    h = st.heap[ref.oid]
    if ("k", pk) in h.fields:
        return h.fields[("k", pk)]
    return Sym(z3.Select(h.vals, I.U.lit(pk)))


def dict_get(I, st, ref, k):
    """value stored under k (caller has established membership)"""
    h = st.heap[ref.oid]
    if h.fields.get("$union") is not None:
        ak, av, bk, bv = h.fields["$union"]
        kt = I.term(k)
        r = z3.If(z3.Contains(bk, z3.Unit(kt)), z3.Select(bv, kt), z3.Select(av, kt))
        return Sym(r)
    if h.fields.get("$lastwins") is not None:
        # the value produced by the LAST element y* of S whose key is k:  S = pre ++ [y*] ++ post,
        # key(y*) == k, no element of post has key k
        seq, x, key_t, val_t = h.fields["$lastwins"]
        kt = I.term(k)
        f = _lastwins_nokey(I, h, kt)
        y = I.U.fresh("last_with_key")
        pre, post = I.U.fresh_seq("lw_pre"), I.U.fresh_seq("lw_post")
        st.pc += [seq == z3.Concat(pre, z3.Unit(y), post), _struct_eq(z3.substitute(key_t, (x, y)), kt), f.sfn(post)]
        st.ghost["$lastwins_lookup"] = st.ghost.get("$lastwins_lookup", []) + [(kt, y, pre, post)]
        r = z3.substitute(val_t, (x, y))
        I.U.well_typed(r)
        return Sym(r)
    pk = _pykey(k)
    if pk is not None and ("k", pk) in h.fields and h.ckeys is not None:
        return h.fields[("k", pk)]
    t = z3.simplify(z3.Select(h.vals, I.term(k)))
    return Sym(t)


def getitem(I, st, ov, kv, ctx):
    if isinstance(ov, TupV):
        if isinstance(kv, Conc) and isinstance(kv.py, int):
            try:
                return [(st, ov.items[kv.py])]
            except IndexError:
                return [(st, Raise("IndexError"))]
        raise OutOfReach("tuple index symbolic")
    if isinstance(ov, Ref):
        h = st.heap[ov.oid]
        if h.kind == "dict":
            has = dict_has(I, st, ov, kv)
            out = []
            for (q, b) in I.branch(st, I.truth(has)):
                if b:
                    out.append((q, dict_get(I, q, ov, kv)))
                elif q.heap[ov.oid].fields.get("$default_list"):
                    # collections.defaultdict(list): a missing key is given a new empty list
                    new_list = I.make_list(q, [])
                    dict_store(I, q, ov, kv, new_list)
                    out.append((q, new_list))
                else:
                    out.append((q, Raise("KeyError")))
            return out
        if h.kind in ("list", "dict") and h.cls and I.src.module_of_class(h.cls) is not None \
                and ctx.get("owner") != h.cls:
            f = I.src.find_method(h.cls, "__getitem__")
            if f:
                return I.call(I.bound_method(ov, f), [kv], {}, st, ctx)
        if h.kind == "list":
            its = h.fields.get("$items")
            if isinstance(kv, Conc) and isinstance(kv.py, int):
                if its is not None:
                    try:
                        return [(st, its[kv.py])]
                    except IndexError:
                        return [(st, Raise("IndexError"))]
                i = kv.py
                ln = z3.Length(h.seq)
                idx = z3.IntVal(i) if i >= 0 else ln + i
                ok = (ln > i) if i >= 0 else (ln >= -i)
                out = []
                for (q, b) in I.branch(st, ok):
                    if b:
                        out.append((q, Sym(z3.simplify(h.seq[idx]))))
                    else:
                        out.append((q, Raise("IndexError")))
                return out
        if h.kind == "obj" and h.cls:
            f = I.src.find_method(h.cls, "__getitem__")
            if f:
                return I.call(I.bound_method(ov, f), [kv], {}, st, ctx)
    if isinstance(ov, (Sym, BoolV)) or (isinstance(ov, Conc)):
        hnd = I.lib.get("$getitem_value")
        if hnd is not None:
            r = hnd(I, st, ov, kv, ctx)
            if r is not None:
                return r
    raise OutOfReach("getitem on %r" % (ov,))


def getslice(I, st, ov, sl, ctx):
    hnd = I.lib.get("$getslice")
    if hnd is not None:
        r = hnd(I, st, ov, sl, ctx)
        if r is not None:
            return r
    raise OutOfReach("slice on %r" % (ov,))


def setitem(I, st, ov, kv, v, ctx):
    if isinstance(ov, Ref):
        h = st.heap[ov.oid]
        if h.kind in ("list", "dict") and h.cls and I.src.module_of_class(h.cls) is not None \
                and ctx.get("owner") != h.cls:
            f = I.src.find_method(h.cls, "__setitem__")
            if f:
                return I.call(I.bound_method(ov, f), [kv, v], {}, st, ctx)
        if h.kind == "dict":
            dict_store(I, st, ov, kv, v)
            return [(st, Conc(None))]
        if h.kind == "obj" and h.cls:
            f = I.src.find_method(h.cls, "__setitem__")
            if f:
                return I.call(I.bound_method(ov, f), [kv, v], {}, st, ctx)
        if h.kind == "list":
            hnd = I.lib.get("$list_setitem")
            if hnd is not None:
                return hnd(I, st, ov, kv, v, ctx)
    raise OutOfReach("setitem on %r" % (ov,))


def delitem(I, st, ov, kv, ctx):
    if isinstance(ov, Ref):
        h = st.heap[ov.oid]
        if h.kind == "dict":
            has = dict_has(I, st, ov, kv)
            out = []
            for (q, b) in I.branch(st, I.truth(has)):
                if b:
                    dict_remove(I, q, ov, kv)
                    out.append((q, Conc(None)))
                else:
                    out.append((q, Raise("KeyError")))
            return out
    raise OutOfReach("delitem on %r" % (ov,))


def dict_remove(I, st, ref, k):
    h = st.heap[ref.oid]
    h.fields.pop("$entries", None)
    pk = _pykey(k)
    kt = I.term(k)
    if h.ckeys is not None and pk is not None:
        h.ckeys.remove(pk)
        h.fields.pop(("k", pk), None)
        terms = [I.U.lit(x) for x in h.ckeys]
        h.keys = z3.Empty(vm.SeqV) if not terms else (z3.Unit(terms[0]) if len(terms) == 1
                                                     else z3.Concat(*[z3.Unit(t) for t in terms]))
        return
    h.ckeys = None
    # keys' = keys with the (unique) occurrence of k removed: pre ++ [k] ++ post  ->  pre ++ post
    pre, post = I.U.fresh_seq("kpre"), I.U.fresh_seq("kpost")
    st.pc.append(h.keys == z3.Concat(pre, z3.Unit(kt), post))
    st.pc.append(z3.Not(z3.Contains(pre, z3.Unit(kt))))
    st.pc.append(z3.Not(z3.Contains(post, z3.Unit(kt))))
    h.keys = z3.Concat(pre, post)
    st.ghost["$dict_removed:%d" % ref.oid] = (pre, kt, post)
