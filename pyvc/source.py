"""Front end: the verified text is the code that runs.

Every run re-reads the files under /repo, parses them with ``ast`` and looks functions up by
qualified name.  Nothing is cached on disk.  The sha256 of each function's source segment goes
into the evidence.
"""
import ast
import hashlib
import os

REPO = os.environ.get("PYVC_REPO", "/repo")

MODULE_FILES = {
    "param.parameterized": "param/parameterized.py",
    "param.parameters": "param/parameters.py",
    "param._utils": "param/_utils.py",
    "param.serializer": "param/serializer.py",
    "param.reactive": "param/reactive.py",
    "param.depends": "param/depends.py",
    "numbergen": "numbergen/__init__.py",
}


class Module:
    def __init__(self, name, path):
        self.name = name
        self.path = path
        with open(path) as f:
            self.text = f.read()
        self.tree = ast.parse(self.text)
        self.lines = self.text.splitlines()
        self.classes = {}      # name -> ClassDef
        self.functions = {}    # name -> FunctionDef (module level)
        self.assigns = {}      # module-level simple assignments name -> value AST
        for n in self.tree.body:
            if isinstance(n, ast.ClassDef):
                self.classes[n.name] = n
            elif isinstance(n, (ast.FunctionDef, ast.AsyncFunctionDef)):
                self.functions[n.name] = n
            elif isinstance(n, ast.Assign) and len(n.targets) == 1 and isinstance(n.targets[0], ast.Name):
                self.assigns[n.targets[0].id] = n.value

    def class_methods(self, cname):
        """name -> list of FunctionDef (several when @overload / property setter pairs)."""
        out = {}
        for m in self.classes[cname].body:
            if isinstance(m, (ast.FunctionDef, ast.AsyncFunctionDef)):
                out.setdefault(m.name, []).append(m)
        return out

    def class_bases(self, cname):
        res = []
        for b in self.classes[cname].bases:
            if isinstance(b, ast.Name):
                res.append(b.id)
            elif isinstance(b, ast.Attribute):
                res.append(b.attr)
        return res

    def class_attr(self, cname, attr):
        for m in self.classes[cname].body:
            if isinstance(m, ast.Assign) and len(m.targets) == 1 and isinstance(m.targets[0], ast.Name) \
                    and m.targets[0].id == attr:
                return m.value
        return None


class Sources:
    """All repo modules, parsed once per run."""

    def __init__(self, repo=None):
        self.repo = repo or REPO
        self.modules = {}
        for name, rel in MODULE_FILES.items():
            p = os.path.join(self.repo, rel)
            if os.path.exists(p):
                self.modules[name] = Module(name, p)

    def module_of_class(self, cname):
        for m in self.modules.values():
            if cname in m.classes:
                return m
        return None

    def mro(self, cname):
        """Linearised ancestor list of a repo class (C3 is not needed for the single- and
        simple multiple-inheritance shapes in param; left-to-right depth-first, de-duplicated
        keeping the last occurrence, which coincides with C3 for these hierarchies)."""
        seen = []

        def walk(c):
            m = self.module_of_class(c)
            if m is None:
                return [c]
            res = [c]
            for b in m.class_bases(c):
                res += walk(b)
            return res
        lin = walk(cname)
        out = []
        for i, c in enumerate(lin):
            if c not in lin[i + 1:]:
                out.append(c)
        return out

    def is_subclass(self, c, base):
        return base in self.mro(c)

    def find_method(self, cname, mname, after=None):
        """Resolve ``mname`` along the MRO of ``cname`` (optionally starting after class
        ``after`` for super()).  Returns (defining class, module, FunctionDef) or None.
        Skips @typing.overload stubs and picks the getter for properties unless asked."""
        mro = self.mro(cname)
        if after is not None:
            mro = mro[mro.index(after) + 1:]
        for c in mro:
            m = self.module_of_class(c)
            if m is None:
                continue
            defs = m.class_methods(c).get(mname)
            if not defs:
                continue
            real = [d for d in defs if not _is_overload(d)]
            if real:
                # property getter first, setters are looked up separately
                getters = [d for d in real if not _is_setter(d)]
                return c, m, (getters[0] if getters else real[0])
        return None

    def find_setter(self, cname, pname):
        for c in self.mro(cname):
            m = self.module_of_class(c)
            if m is None:
                continue
            for d in m.class_methods(c).get(pname, []):
                if _is_setter(d):
                    return c, m, d
        return None

    def locate(self, qual):
        """'param.parameters:Number._validate_bounds' or 'param._utils:_is_number'.
        Returns (module, class name or None, FunctionDef) or None when missing."""
        modname, _, path = qual.partition(":")
        m = self.modules.get(modname)
        if m is None:
            return None
        parts = path.split(".")
        if len(parts) == 1:
            f = m.functions.get(parts[0])
            return (m, None, f) if f is not None else None
        cname, fname = parts[0], parts[1]
        if cname in m.functions and cname not in m.classes:
            f = m.functions[cname]
            for inner in parts[1:]:
                f = next((n for n in ast.walk(f) if isinstance(n, (ast.FunctionDef, ast.AsyncFunctionDef))
                          and n.name == inner and n is not f), None)
                if f is None:
                    return None
            return (m, None, f)
        if cname not in m.classes:
            return None
        want_setter = fname.endswith("@setter")
        fname = fname.replace("@setter", "")
        defs = [d for d in m.class_methods(cname).get(fname, []) if not _is_overload(d)]
        if want_setter:
            defs = [d for d in defs if _is_setter(d)]
        else:
            defs = [d for d in defs if not _is_setter(d)] or defs
        if not defs:
            found = self.find_method(cname, fname)
            if found is None:
                return None
            return (found[1], found[0], found[2])
        f = defs[0]
        # nested function:  Class.method.inner
        for inner in parts[2:]:
            f = next((n for n in ast.walk(f) if isinstance(n, (ast.FunctionDef, ast.AsyncFunctionDef))
                      and n.name == inner and n is not f), None)
            if f is None:
                return None
        return (m, cname, f)

    def segment(self, module, node):
        return "\n".join(module.lines[node.lineno - 1:node.end_lineno])

    def sha(self, module, node):
        return hashlib.sha256(self.segment(module, node).encode()).hexdigest()[:16]


def _is_overload(fd):
    for d in fd.decorator_list:
        s = ast.unparse(d)
        if s.endswith("overload"):
            return True
    return False


def _is_setter(fd):
    for d in fd.decorator_list:
        s = ast.unparse(d)
        if s.endswith(".setter"):
            return True
    return False


def decorators(fd):
    return [ast.unparse(d) for d in fd.decorator_list]
