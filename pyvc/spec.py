"""Helpers for writing sidecar contracts: symbolic inputs, well-formedness predicates, folds,
frames."""
import z3

from . import values as vm
from .values import BoolV, ClsV, Conc, FuncV, ModV, Ref, Sym, TupV, V


def fresh(I, hint):
    return Sym(I.U.fresh(hint))


def param_obj(I, st, cls, slots, label="self", lazy=True):
    """A heap object of repo class ``cls`` with the given slots.  ``slots`` maps slot name to a
    Val, or to None for a fresh symbolic value.  Returns (Ref, {slot: term})."""
    r = I.alloc_obj(st, cls, lazy=lazy, label=label)
    h = st.heap[r.oid]
    terms = {}
    for k, v in slots.items():
        if v is None:
            v = Sym(I.U.fresh("%s.%s" % (label, k)))
        h.fields[k] = v
        h.init[k] = v
        terms[k] = I.term(v)
    return r, terms


def method(I, ref_cls, name, selfv):
    found = I.src.find_method(ref_cls, name)
    if found is None:
        return None
    return I.bound_method(selfv, found)


def is_bool(I, t):
    return z3.Or(t == I.U.TRUE, t == I.U.FALSE)


def is_none(I, t):
    return t == I.U.NONE


def elem(I, t, i):
    """i-th element of a symbolic tuple term, registered as a well-typed value."""
    e = vm.titem(t, i)
    I.U.well_typed(e)
    return e


def is_tuple_of_len(I, t, n):
    return z3.And(vm.ty(t) == vm.TAG["tuple"], vm.tlen(t) == n)


class Fold:
    """Recursive spec function "all elements satisfy pred", in two carriers:
    tfn(v, n)  — all items of the tuple/list *value* v with index < n     (EUF + LIA)
    sfn(seq)   — all items of a heap list's Seq(V)
    Defining equations are instantiated by the executor at every loop split (loops.py) and, for
    small prefixes, here (so that fixed-length tuples need no induction)."""

    def __init__(self, I, name, pred, indexed=False):
        self.I = I
        self.name = name
        self.pred = pred
        self.indexed = indexed      # pred(x, i): the predicate may mention the position
        self.tfn = z3.Function(name, V, z3.IntSort(), z3.BoolSort())
        self.sfn = z3.Function(name + "_seq", vm.SeqV, z3.BoolSort())
        I.U.axioms.append(self.sfn(z3.Empty(vm.SeqV)))
        self._unfolded = set()

    def of_value(self, v, unfold=4):
        """fold over all items of tuple/list value term v"""
        key = v.get_id()
        if key not in self._unfolded:
            self._unfolded.add(key)
            ax = self.I.U.axioms
            ax.append(self.tfn(v, 0))
            for k in range(unfold):
                it = vm.titem(v, k)
                self.I.U.well_typed(it)
                ax.append(self.tfn(v, k + 1) == z3.And(self.tfn(v, k), self.pred(it, z3.IntVal(k)) if self.indexed else self.pred(it)))
        return self.tfn(v, vm.tlen(v))

    def of_seq(self, seq):
        return self.sfn(seq)

    def elim_seq(self, seq, x):
        """∀-elimination on the Seq carrier: a member of a sequence all of whose elements satisfy pred
        satisfies pred"""
        return z3.Implies(z3.And(self.sfn(seq), z3.Contains(seq, z3.Unit(x))), self.pred(x))

    def elim(self, v, a, b):
        """∀-elimination: the fold over the first a items of v gives pred at any index b < a
        (an instance of the meaning of the spec function, `tfn(v, a)  <=>  ∀ j < a. pred(item j)`)"""
        it = vm.titem(v, b)
        self.I.U.well_typed(it)
        return z3.Implies(z3.And(self.tfn(v, a), b >= 0, b < a), self.pred(it, b) if self.indexed else self.pred(it))


def fold(I, name, pred, indexed=False):
    folds = I.U.__dict__.setdefault("folds", {})
    if name not in folds:
        folds[name] = Fold(I, name, pred, indexed)
    return folds[name]


class Prefix:
    """The processed prefix of a loop, handed to sidecar invariants."""

    def __init__(self, kind, t=None, n=None, seq=None):
        self.kind = kind
        self.t = t
        self.n = n
        self.seq = seq

    def all(self, fold):
        if self.kind == "tuple":
            return fold.tfn(self.t, self.n)
        return fold.sfn(self.seq)


def heap_unchanged(I, st, ref, fields=None, except_=()):
    """Frame: every field of object ``ref`` still holds its initial value (syntactic identity of
    the stored Val or provable equality of terms)."""
    h = st.heap[ref.oid]
    conj = []
    for f, init in h.init.items():
        if f in except_ or (fields is not None and f not in fields):
            continue
        cur = h.fields.get(f)
        if cur is init:
            continue
        if cur is None:
            conj.append(z3.BoolVal(False))
        else:
            if isinstance(init, BoolV) or isinstance(cur, BoolV):
                a = init.b if isinstance(init, BoolV) else I.truth(init)
                b = cur.b if isinstance(cur, BoolV) else I.truth(cur)
                conj.append(a == b)
            else:
                conj.append(I.term(cur) == I.term(init))
    for f in h.fields:
        if f not in h.init and not str(f).startswith("$") and f not in except_ and (fields is None or f in fields):
            conj.append(z3.BoolVal(False))   # a field that did not exist was created
    return z3.And(conj) if conj else z3.BoolVal(True)


def list_unchanged(I, st, ref, seq0):
    return st.heap[ref.oid].seq == seq0
