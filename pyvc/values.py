"""Value model of pyvc (DESIGN.md §2.3): one uninterpreted sort V for every Python object, with
interpreted *views* as functions and only the axioms a proof needs, instantiated at the terms
present (queries stay quantifier-free).

Python-side wrappers (what the symbolic interpreter manipulates):

    Conc(py)      an immutable concrete Python value (None/bool/int/float/str/bytes)
    Sym(t)        a symbolic value, z3 term of sort V
    BoolV(b)      a Python bool whose value is the z3 Bool ``b`` (results of comparisons etc.)
    TupV(items)   a tuple display of known length (elements are Vals)
    Ref(oid)      reference to a heap object (concrete identity)
    ClsV(name)    a class object (builtin or repo class), by name
    FuncV(...)    a callable: repo function / bound method / builtin / lambda closure
"""
import z3

V = z3.DeclareSort("V")
SeqV = z3.SeqSort(V)

ty = z3.Function("ty", V, z3.IntSort())
kind = z3.Function("kind", V, z3.IntSort())        # 0 finite, 1 nan, 2 +inf, 3 -inf
rv = z3.Function("rv", V, z3.RealSort())
truthy = z3.Function("truthy", V, z3.BoolSort())
tlen = z3.Function("tlen", V, z3.IntSort())          # length of a tuple / immutable list view
titem = z3.Function("titem", V, z3.IntSort(), V)   # its items (EUF + LIA: no sequence theory needed)
is_callable = z3.Function("is_callable", V, z3.BoolSort())
dord = z3.Function("dord", V, z3.IntSort())         # microseconds ordinal of date/datetime
_has_item_eq = {}


def has_item_eq(k):
    """has_item<k>_eq(seq, x): some entry e of the heap list has e[k] == x"""
    if k not in _has_item_eq:
        _has_item_eq[k] = z3.Function("has_item%d_eq" % k, SeqV, V, z3.BoolSort())
    return _has_item_eq[k]


isinst = z3.Function("isinst", V, V, z3.BoolSort())  # isinstance with a symbolic class
pyeq_u = z3.Function("pyeq_u", V, V, z3.BoolSort())  # == on non-numeric, non-identical values
strv = z3.Function("strv", V, z3.StringSort())      # content of str values
slen = z3.Function("slen", V, z3.IntSort())         # len() of str/bytes/other sized values
isgenfunc = z3.Function("isgenfunc", V, z3.BoolSort())

mem_eq = z3.Function("mem_eq", SeqV, V, z3.BoolSort())   # `x in list`: some element is x or == x

FINITE, NAN, PINF, NINF = 0, 1, 2, 3

TYPES = ["NoneType", "bool", "int", "float", "Fraction", "Decimal", "str", "bytes", "tuple",
         "list", "dict", "set", "date", "datetime", "function", "type", "object",
         "Parameter", "Parameterized", "OrderedDict", "ListProxy", "Undefined"]
TAG = {n: i for i, n in enumerate(TYPES)}
# direct builtin subtype edges (child -> parent)
PARENT = {"bool": "int", "datetime": "date", "OrderedDict": "dict", "ListProxy": "list"}
NUMERIC = ["bool", "int", "float", "Fraction", "Decimal"]
# abstract classes → member tags
ABSTRACT = {
    "numbers.Number": NUMERIC,
    "numbers.Real": ["bool", "int", "float", "Fraction"],
    "numbers.Integral": ["bool", "int"],
    "object": TYPES,
    "_dt_types": ["date", "datetime"], "dt_types": ["date", "datetime"],
    "_int_types": ["bool", "int"], "int_types": ["bool", "int"],
    "Sequence": ["str", "bytes", "tuple", "list", "ListProxy"],
}


def subtypes(name):
    """Concrete tags whose values are instances of builtin class ``name``."""
    if name in ABSTRACT:
        return list(ABSTRACT[name])
    res = []
    for t in TYPES:
        c = t
        while c is not None:
            if c == name:
                res.append(t)
                break
            c = PARENT.get(c)
    return res


class Val:
    pass


class Conc(Val):
    __slots__ = ("py",)

    def __init__(self, py):
        self.py = py

    def __repr__(self):
        return "Conc(%r)" % (self.py,)


class Sym(Val):
    __slots__ = ("t",)

    def __init__(self, t):
        self.t = t

    def __repr__(self):
        return "Sym(%s)" % self.t


class BoolV(Val):
    __slots__ = ("b",)

    def __init__(self, b):
        self.b = b

    def __repr__(self):
        return "BoolV(%s)" % self.b


class TupV(Val):
    """Tuple (or frozen list view) of known length."""
    __slots__ = ("items", "_term")

    def __init__(self, items):
        self.items = list(items)
        self._term = None

    def __repr__(self):
        return "TupV(%r)" % (self.items,)


class Ref(Val):
    __slots__ = ("oid",)

    def __init__(self, oid):
        self.oid = oid

    def __repr__(self):
        return "Ref(%d)" % self.oid

    def __eq__(self, o):
        return isinstance(o, Ref) and o.oid == self.oid

    def __hash__(self):
        return hash(("Ref", self.oid))


class ClsV(Val):
    __slots__ = ("name",)

    def __init__(self, name):
        self.name = name

    def __repr__(self):
        return "ClsV(%s)" % self.name


class FuncV(Val):
    """kind: 'repo' (module, cls, FunctionDef, bound self or None, owner class for super()),
    'builtin' (name), 'lambda' (ast.Lambda/FunctionDef + env), 'opaque' (symbolic callable term)."""
    __slots__ = ("kind", "data")

    def __init__(_s, kind, **data):
        _s.kind = kind
        _s.data = data

    def __repr__(self):
        return "FuncV(%s,%s)" % (self.kind, {k: v for k, v in self.data.items() if k in ("name", "qual")})


class StrCat(Val):
    """A str built by concatenation / join, kept as a structured term: list of parts, each a
    Python str (literal text) or a Val (a piece of text produced elsewhere).  Used where the
    *content* of generated text matters (C20); proofs treat it through a spec-level reading."""
    __slots__ = ("parts", "_term")

    def __init__(self, parts):
        flat = []
        for p in parts:
            if isinstance(p, StrCat):
                flat += p.parts
            elif isinstance(p, Conc) and isinstance(p.py, str):
                flat.append(p.py)
            else:
                flat.append(p)
        self.parts = flat
        self._term = None

    def __repr__(self):
        return "StrCat(%r)" % (self.parts,)


class ModV(Val):
    """A module object (dt, inspect, operator, ...) by name."""
    __slots__ = ("name",)

    def __init__(self, name):
        self.name = name

    def __repr__(self):
        return "ModV(%s)" % self.name


class Universe:
    """Interning of constants and the global axiom list of one verification run."""

    def __init__(self):
        self.axioms = []
        self._lits = {}
        self._cls = {}
        self._refs = {}
        self._fresh = 0
        self.NONE = z3.Const("None", V)
        self.TRUE = z3.Const("True", V)
        self.FALSE = z3.Const("False", V)
        self.UNDEF = z3.Const("Undefined", V)
        self.NOTIMPL = z3.Const("NotImplemented", V)
        self._distinct_pool = [self.NONE, self.TRUE, self.FALSE, self.UNDEF, self.NOTIMPL]
        ax = self.axioms
        ax.append(ty(self.NONE) == TAG["NoneType"])
        ax.append(ty(self.TRUE) == TAG["bool"])
        ax.append(ty(self.FALSE) == TAG["bool"])
        ax.append(ty(self.UNDEF) == TAG["Undefined"])
        ax.append(ty(self.NOTIMPL) == TAG["object"])
        ax += [kind(self.TRUE) == FINITE, rv(self.TRUE) == 1, kind(self.FALSE) == FINITE, rv(self.FALSE) == 0]
        ax += [truthy(self.TRUE), z3.Not(truthy(self.FALSE)), z3.Not(truthy(self.NONE)),
               truthy(self.UNDEF), truthy(self.NOTIMPL)]
        ax += [z3.Not(is_callable(c)) for c in (self.NONE, self.TRUE, self.FALSE, self.UNDEF, self.NOTIMPL)]
        self._distinct_dirty = True
        self._str_lits = []
        self._wt_done = set()
        self._wt_keep = []
        self._misc_done = set()

    # -- fresh symbols ---------------------------------------------------------------
    def fresh(self, hint="v"):
        self._fresh += 1
        t = z3.Const("%s!%d" % (hint, self._fresh), V)
        self.well_typed(t)
        return t

    def fresh_seq(self, hint="s"):
        self._fresh += 1
        return z3.Const("%s!%d" % (hint, self._fresh), SeqV)

    def fresh_bool(self, hint="b"):
        self._fresh += 1
        return z3.Const("%s!%d" % (hint, self._fresh), z3.BoolSort())

    def fresh_int(self, hint="i"):
        self._fresh += 1
        return z3.Const("%s!%d" % (hint, self._fresh), z3.IntSort())

    def well_typed(self, t):
        """Type invariants of an arbitrary Python value (input validity predicate: symbolic
        inputs must be *valid Python objects*, otherwise spurious counter-models appear)."""
        ax = self.axioms
        if t.get_id() in self._wt_done:
            return
        self._wt_done.add(t.get_id())
        self._wt_keep.append(t)
        ax.append(z3.And(ty(t) >= 0, ty(t) < len(TYPES)))
        ax.append(z3.And(kind(t) >= 0, kind(t) <= 3))
        ax.append((ty(t) == TAG["NoneType"]) == (t == self.NONE))
        ax.append((ty(t) == TAG["Undefined"]) == (t == self.UNDEF))
        ax.append((ty(t) == TAG["bool"]) == z3.Or(t == self.TRUE, t == self.FALSE))
        # ints are finite integers; only floats (and Decimal, excluded by A-NUM) are non-finite
        ax.append(z3.Implies(z3.Or(ty(t) == TAG["int"], ty(t) == TAG["Fraction"]), kind(t) == FINITE))
        ax.append(z3.Implies(ty(t) == TAG["Decimal"], kind(t) == FINITE))  # A-NUM
        ax.append(z3.Implies(ty(t) == TAG["int"], z3.IsInt(rv(t))))
        ax.append(self.truthy_def(t))
        ax.append(z3.Implies(self.isnum(t), z3.Not(is_callable(t))))
        for nm in ("str", "bytes", "tuple", "list", "dict", "set", "date", "datetime", "NoneType"):
            ax.append(z3.Implies(ty(t) == TAG[nm], z3.Not(is_callable(t))))
        ax.append(z3.Implies(z3.Or(ty(t) == TAG["function"], ty(t) == TAG["type"]), is_callable(t)))
        ax.append(slen(t) >= 0)
        ax.append(tlen(t) >= 0)
        ax.append(z3.Implies(z3.Or(ty(t) == TAG["tuple"], ty(t) == TAG["list"]), slen(t) == tlen(t)))
        ax.append(z3.Implies(ty(t) == TAG["str"], slen(t) == z3.Length(strv(t))))

    def truthy_def(self, t):
        num = self.isnum(t)
        sized = z3.Or([ty(t) == TAG[n] for n in ("str", "bytes", "tuple", "list", "dict", "set",
                                                 "OrderedDict", "ListProxy")])
        return z3.And(
            z3.Implies(num, truthy(t) == z3.Not(z3.And(kind(t) == FINITE, rv(t) == 0))),
            z3.Implies(sized, truthy(t) == (slen(t) > 0)),
            z3.Implies(t == self.NONE, z3.Not(truthy(t))),
            z3.Implies(z3.Or([ty(t) == TAG[n] for n in ("date", "datetime", "function", "type",
                                                        "Parameter", "Undefined")]), truthy(t)),
        )

    # -- type predicates ---------------------------------------------------------------
    def has_type(self, t, names):
        return z3.Or([ty(t) == TAG[n] for n in names]) if names else z3.BoolVal(False)

    def isnum(self, t):
        return self.has_type(t, NUMERIC)

    def isdate(self, t):
        return self.has_type(t, ["date", "datetime"])

    # -- literals ---------------------------------------------------------------------
    def lit(self, py):
        if py is None:
            return self.NONE
        if py is True:
            return self.TRUE
        if py is False:
            return self.FALSE
        if isinstance(py, slice):
            key = ("slice", repr(py))
            if key not in self._lits:
                c = z3.Const("lit_slice_%s" % repr(py), V)
                self._lits[key] = c
                self.axioms.append(ty(c) == TAG["object"])
                self._distinct_pool.append(c)
            return self._lits[key]
        key = (type(py).__name__, repr(py))
        if key in self._lits:
            return self._lits[key]
        name = "lit_%s_%s" % key
        c = z3.Const(name, V)
        self._lits[key] = c
        ax = self.axioms
        if isinstance(py, int):
            ax += [ty(c) == TAG["int"], kind(c) == FINITE, rv(c) == py, truthy(c) == (py != 0),
                   z3.Not(is_callable(c))]
        elif isinstance(py, float):
            ax += [ty(c) == TAG["float"], z3.Not(is_callable(c))]
            if py != py:
                ax += [kind(c) == NAN, truthy(c)]
            elif py in (float("inf"), float("-inf")):
                ax += [kind(c) == (PINF if py > 0 else NINF), truthy(c)]
            else:
                from fractions import Fraction
                fr = Fraction(py)
                ax += [kind(c) == FINITE, rv(c) == z3.Q(fr.numerator, fr.denominator), truthy(c) == (py != 0)]
        elif isinstance(py, str):
            ax += [ty(c) == TAG["str"], strv(c) == z3.StringVal(py), slen(c) == len(py),
                   truthy(c) == (len(py) > 0), z3.Not(is_callable(c))]
            self._str_lits.append(c)
        elif isinstance(py, bytes):
            ax += [ty(c) == TAG["bytes"], slen(c) == len(py), truthy(c) == (len(py) > 0), z3.Not(is_callable(c))]
        else:
            raise TypeError("unsupported literal %r" % (py,))
        self._distinct_pool.append(c)
        self._distinct_dirty = True
        return c

    def cls_const(self, name):
        if name not in self._cls:
            c = z3.Const("cls_%s" % name, V)
            self._cls[name] = c
            self.axioms += [ty(c) == TAG["type"], truthy(c), is_callable(c)]
            self._distinct_pool.append(c)
            self._distinct_dirty = True
        return self._cls[name]

    def ref_const(self, oid, tyname="object"):
        if oid not in self._refs:
            c = z3.Const("ref_%d" % oid, V)
            self._refs[oid] = c
            self.axioms.append(ty(c) == TAG.get(tyname, TAG["object"]))
            self._distinct_pool.append(c)
            self._distinct_dirty = True
        return self._refs[oid]

    def distinct_axiom(self):
        """Distinctness of literals of *different identity*.  Two int literals with different
        values are different objects; so are str literals with different content (interning is
        irrelevant: `is` between str literals is not used by the code under proof)."""
        return z3.Distinct(*self._distinct_pool) if len(self._distinct_pool) > 1 else z3.BoolVal(True)

    def all_axioms(self):
        return list(self.axioms) + [self.distinct_axiom()]

    # -- numeric comparison: exact model of CPython for int/bool/float/Fraction ----------
    def num_lt(self, a, b):
        ka, kb = kind(a), kind(b)
        return z3.And(ka != NAN, kb != NAN,
                      z3.Or(z3.And(ka == FINITE, kb == FINITE, rv(a) < rv(b)),
                            z3.And(ka == NINF, kb != NINF),
                            z3.And(kb == PINF, ka != PINF)))

    def num_le(self, a, b):
        ka, kb = kind(a), kind(b)
        return z3.And(ka != NAN, kb != NAN,
                      z3.Or(z3.And(ka == FINITE, kb == FINITE, rv(a) <= rv(b)),
                            ka == NINF, kb == PINF))

    def num_eq(self, a, b):
        ka, kb = kind(a), kind(b)
        return z3.And(ka != NAN, kb != NAN, ka == kb, z3.Implies(ka == FINITE, rv(a) == rv(b)))

    def py_eq(self, a, b):
        """Python ``a == b`` for terms (total; see A-EQ)."""
        both_num = z3.And(self.isnum(a), self.isnum(b))
        both_date = z3.And(self.isdate(a), self.isdate(b))
        both_str = z3.And(ty(a) == TAG["str"], ty(b) == TAG["str"])
        # None / bool / str / number / date values of different kinds are never equal
        kind_of = lambda x: z3.If(self.isnum(x), 1, z3.If(x == self.NONE, 2, z3.If(ty(x) == TAG["str"], 3,
                            z3.If(self.isdate(x), 4, z3.If(ty(x) == TAG["bytes"], 5, z3.If(ty(x) == TAG["tuple"], 6,
                            z3.If(ty(x) == TAG["list"], 7, 0)))))))
        ka, kb = kind_of(a), kind_of(b)
        return z3.If(both_num, self.num_eq(a, b),
               z3.If(both_str, strv(a) == strv(b),
               z3.If(z3.And(ka != kb, ka != 0, kb != 0), z3.BoolVal(False),
                     z3.If(both_date, z3.And(ty(a) == ty(b), dord(a) == dord(b)),
                           z3.If(a == b, z3.Not(z3.And(self.isnum(a), kind(a) == NAN)),
                                 z3.And(pyeq_u(a, b), pyeq_u(b, a)))))))
