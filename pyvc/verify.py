"""Verification driver: contract + real function → obligations → z3 (cvc5 for unknowns)."""
import hashlib
import os
import subprocess
import tempfile
import time
import traceback

import z3

from . import source
from . import values as vm
from .engine import Interp, OutOfReach, Raise, State


class FunctionContract:
    """Sidecar contract of one real function.

    qual      'param.parameters:Number._validate_bounds'
    prop      property id(s) the contract carries
    setup     callable(I, st) -> (FuncV, args, kwargs, info): builds the symbolic inputs and adds
              the precondition to ``st.pc``
    post      callable(I, info, st, outcome) -> [(clause name, z3 Bool)]; ``outcome`` is a Val
              (normal return) or a Raise
    loops     {(callee qualname, header substring): LoopSpec}
    concretise callable(model, info, clause) -> replay script source or None
    """

    def __init__(self, qual, prop, setup, post, loops=None, concretise=None, configure=None, name=None,
                 expect_paths=None, known=None):
        self.qual = qual
        self.prop = prop
        self.setup = setup
        self.post = post
        self.loops = loops or {}
        self.concretise = concretise
        self.configure = configure
        self.name = name or qual.split(":")[1]
        self.expect_paths = expect_paths
        self.runner = None           # callable(I, st, info, ctx) -> results; replaces the plain call
        self.clause_prefixes = None  # keep only obligations whose clause name starts with one of these
        self.required = False        # True: the function's *name* is part of the spec (missing = refuted)
        self.static_replay = None    # replay script used for every refuted obligation of this contract
        self.static_witness = None


def solve(axioms, pc, goal, timeout_ms=10000, want_model=True):
    """-> (status, backend, seconds, model or None)"""
    s = z3.Solver()
    s.set("timeout", timeout_ms)
    s.add(*axioms)
    s.add(*pc)
    s.add(z3.Not(goal))
    t0 = time.time()
    r = s.check()
    dt = time.time() - t0
    if r == z3.unsat:
        return "proved", "z3", dt, None
    if r == z3.sat:
        return "refuted", "z3", dt, (s.model() if want_model else None)
    # unknown: try cvc5 on the SMT-LIB export
    st2, dt2 = cvc5_check(s, timeout_ms)
    if st2 == "unsat":
        return "proved", "cvc5", dt + dt2, None
    if st2 == "sat":
        return "refuted", "cvc5", dt + dt2, None
    return "undecided", "z3+cvc5", dt + dt2, None


class Prover:
    """One solver per verified function: axioms asserted once, each obligation in a push/pop
    scope (the Python-side cost of re-asserting thousands of axioms per query dominated)."""

    def __init__(self, axioms, timeout_ms):
        self.s = z3.Solver()
        self.s.set("timeout", timeout_ms)
        self.s.add(*axioms)
        self.timeout_ms = timeout_ms

    def prove(self, pc, goal):
        s = self.s
        s.push()
        try:
            s.add(*pc)
            s.add(z3.Not(goal))
            t0 = time.time()
            # staged: a short attempt, then the (cheap) abstraction, then the full budget
            s.set("timeout", min(2000, self.timeout_ms))
            r = s.check()
            s.set("timeout", self.timeout_ms)
            if r == z3.unknown:
                try:
                    from . import abstraction
                    if abstraction.prove_abstract(list(s.assertions()), self.timeout_ms) == "unsat":
                        return "proved", "z3-euf(seq abstracted)", time.time() - t0, None
                except z3.Z3Exception:
                    pass
                r = s.check()
            dt = time.time() - t0
            if r == z3.unsat:
                return "proved", "z3", dt, None
            if r == z3.sat:
                return "refuted", "z3", dt, s.model()
            st2, dt2 = cvc5_check(s, self.timeout_ms)
            if st2 == "unsat":
                return "proved", "cvc5", dt + dt2, None
            if st2 == "sat":
                return "refuted", "cvc5", dt + dt2, None
            return "undecided", "z3+cvc5", dt + dt2, None
        finally:
            s.pop()


def cvc5_check(solver, timeout_ms):
    exe = "/usr/bin/cvc5"
    if not os.path.exists(exe):
        return "unknown", 0.0
    t0 = time.time()
    try:
        txt = solver.to_smt2()
        txt = "(set-logic ALL)\n" + txt
        with tempfile.NamedTemporaryFile("w", suffix=".smt2", delete=False) as f:
            f.write(txt)
            path = f.name
        try:
            p = subprocess.run([exe, "--strings-exp", "--tlimit=%d" % timeout_ms, path],
                               capture_output=True, text=True, timeout=timeout_ms / 1000 + 5)
            out = p.stdout.strip().splitlines()
            res = out[0] if out else "unknown"
        finally:
            os.unlink(path)
    except Exception:
        res = "unknown"
    return (res if res in ("sat", "unsat") else "unknown"), time.time() - t0


class Verdict:
    def __init__(self, name, status, backend="", seconds=0.0, model_text=None, replay=None, note=None, path=None):
        self.name = name
        self.status = status      # proved | refuted | undecided | out_of_reach | missing
        self.backend = backend
        self.seconds = seconds
        self.model_text = model_text
        self.replay = replay      # replay script source (for refuted)
        self.note = note
        self.path = path
        self.witness_class = None

    def to_dict(self):
        return {"name": self.name, "status": self.status, "backend": self.backend,
                "seconds": round(self.seconds, 4), "model": self.model_text, "replay": self.replay,
                "note": self.note, "witness_class": self.witness_class}


def verify_function(contract, sources=None, timeout_ms=10000):
    """-> dict(function=..., verdicts=[...], paths=int, stats=..., assumptions=[...])"""
    sources = sources or source.Sources()
    rep = {"function": contract.qual, "name": contract.name, "prop": contract.prop, "verdicts": [],
           "paths": 0, "sha": None, "assumed_paths": [], "inlined": [], "lib": [], "dropped": [],
           "contract_calls": []}
    loc = sources.locate(contract.qual)
    if loc is None:
        if contract.required:
            v = Verdict(contract.name + "/exists", "refuted", note="required method is not defined")
            v.replay = contract.static_replay
            v.witness_class = contract.static_witness
            rep["verdicts"].append(v.to_dict())
        else:
            rep["verdicts"].append(Verdict(contract.name + "/resolve", "missing",
                                           note="function not found in /repo").to_dict())
        return rep
    module, cname, fd = loc
    rep["sha"] = sources.sha(module, fd)
    rep["file"] = os.path.relpath(module.path, sources.repo)
    rep["lines"] = [fd.lineno, fd.end_lineno]
    I = Interp(sources, timeout_ms=timeout_ms)
    if contract.configure:
        contract.configure(I)
    st = State()
    t0 = time.time()
    try:
        su = contract.setup(I, st)
        if contract.runner is not None:
            fv, args, kwargs, info = None, None, None, su
        else:
            fv, args, kwargs, info = su
        # vacuity: the precondition must be satisfiable
        if not I.feasible(st):
            rep["verdicts"].append(Verdict(contract.name + "/requires-satisfiable", "refuted",
                                           note="contradictory precondition (vacuous contract)").to_dict())
            return rep
        obligations = []
        ctx = {"module": module, "owner": cname, "selfname": None, "qual": None,
               "verifying": (fv.data.get("qual") if hasattr(fv, "data") else None) if fv is not None
               else contract.qual.split(":")[1],
               "loops": contract.loops, "opts": {}, "obligations": obligations}
        if contract.runner is not None:
            results = contract.runner(I, st, info, ctx)
        else:
            results = I.call(fv, args, kwargs, st, ctx)
    except OutOfReach as e:
        rep["verdicts"].append(Verdict(contract.name + "/in-subset", "out_of_reach", note=str(e)).to_dict())
        rep["exec_s"] = time.time() - t0
        return rep
    except RecursionError as e:
        rep["verdicts"].append(Verdict(contract.name + "/in-subset", "out_of_reach", note="recursion limit").to_dict())
        return rep
    rep["exec_s"] = round(time.time() - t0, 3)
    rep["paths"] = len(results)
    rep["inlined"] = sorted(I.stats["inlined"])
    rep["lib"] = sorted(I.stats["lib_calls"])
    rep["dropped"] = sorted(I.stats["dropped"])
    rep["contract_calls"] = sorted(I.stats["contract_calls"])
    kinds = {"return": 0, "raise": 0}
    obs = []
    for (name, q, goal) in obligations:
        obs.append((contract.name + "/" + name, q, goal, None))
    for idx, (q, oc) in enumerate(results):
        if isinstance(oc, Raise):
            kinds["raise"] += 1
            if oc.cls == "$Unmodelled":
                rep["assumed_paths"].append("; ".join(q.notes) or "unmodelled")
                continue
        else:
            kinds["return"] += 1
        try:
            clauses = contract.post(I, info, q, oc)
        except OutOfReach as e:
            rep["verdicts"].append(Verdict(contract.name + "/post[path %d]" % idx, "out_of_reach", note=str(e)).to_dict())
            continue
        how = ("raise:%s@%s" % (oc.cls, oc.origin)) if isinstance(oc, Raise) else "return"
        if contract.clause_prefixes is not None:
            clauses = [(cn, g) for (cn, g) in clauses if any(cn.startswith(p) for p in contract.clause_prefixes)]
        for (cn, goal) in clauses:
            obs.append(("%s/%s[path %d %s]" % (contract.name, cn, idx, how), q, goal, oc))
    rep["path_kinds"] = kinds
    if len(results) == 0:
        rep["verdicts"].append(Verdict(contract.name + "/reachability", "refuted",
                                       note="no feasible path through the function (vacuous)").to_dict())
    prover = Prover(I.U.all_axioms(), timeout_ms)
    for (name, q, goal, oc) in obs:
        if isinstance(goal, bool):
            goal = z3.BoolVal(goal)
        status, backend, dt, model = prover.prove(q.pc, goal)
        if os.environ.get("PYVC_DEBUG"):
            print("  [%s] %s %.2fs %s" % (status, name, dt, backend), flush=True)
            if os.environ.get("PYVC_DEBUG") == "2" and status == "refuted" and model is not None:
                print("      goal:", goal)
                print("      model:", str(model)[:6000], flush=True)
        v = Verdict(name, status, backend, dt)
        if status == "refuted":
            v.model_text = model_summary(model, info) if model is not None else None
            if contract.static_replay is not None:
                v.replay = contract.static_replay
                v.witness_class = contract.static_witness
            elif contract.concretise is not None and model is not None:
                try:
                    cz = contract.concretise(model, info, name, I, q)
                    if isinstance(cz, dict):
                        v.replay = cz.get("script")
                        v.witness_class = cz.get("witness")
                    else:
                        v.replay = cz
                except Exception:
                    v.note = "concretiser failed: " + traceback.format_exc(limit=3)
        rep["verdicts"].append(v.to_dict())
    return rep


def model_summary(model, info):
    out = []
    try:
        syms = info.get("symbols", {}) if isinstance(info, dict) else {}
        for nm, t in syms.items():
            out.append("%s: ty=%s kind=%s rv=%s" % (
                nm, model.eval(vm.ty(t), model_completion=True), model.eval(vm.kind(t), model_completion=True),
                model.eval(vm.rv(t), model_completion=True)))
    except Exception:
        pass
    return "; ".join(out)[:2000]
