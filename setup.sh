#!/bin/bash
# Offline setup: nothing is fetched or built; verifies that the interpreters see what they need.
set -e
cd "$(dirname "$0")"
python3-vt -c "import z3, cvc5, jsonschema; print('z3', z3.get_version_string())"
PYTHONPATH=/repo /venv/bin/python -c "import param, os; assert os.path.realpath(param.__file__).startswith('/repo'), param.__file__; print('param from', param.__file__)"
PYTHONPATH=/repo python3-vt -c "import param; print('param importable under python3-vt')"
python3-vt -m compileall -q pyvc vlib contracts bounded >/dev/null
mkdir -p evidence replays .work
echo setup ok
