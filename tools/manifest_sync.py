"""Keep the factual, generated tail of every MANIFEST level text in step with the contract modules:
the list of functions under contract and the probes.  Run under python3-vt:  python3-vt tools/manifest_sync.py"""
import importlib
import json
import re
import sys

sys.path.insert(0, '/verif')
MARK = " Functions under contract on the current tree (generated from contracts/): "
ADDED = {
    "C16": "Later additions (eighth round): selector_schema / objectselector_schema / listselector_schema for 0-3 arbitrary JSON-literal objects (enum and anyOf per object), list_schema (no item class, literal item classes, safe=True refusal); the serialize hooks of Number/Integer/String/Boolean carried from C15 (the serialized form is the value itself); probe for text schemas and non-finite numbers.",
    "C01": "Later additions: Parameters.self_or_cls and get_param_descriptor (which object / which Parameter an update and a class-level assignment go through), constructors leave unspecified slots Undefined; an unchecked ListSelector accepts every list and admits each unknown object once; class-level assignment and Parameters._update carried. Eighth round: probes for hex colours on non-ASCII digits and for constraints tightened on an ancestor after the lower classes were used; the metaclass __setattr__ contract models the naming of an assigned Parameter object (/repo fix 6bd8429).",
    "C02": "Later additions: Dynamic.__set__ (a generator/callable value is stored only after validation), Parameters._update (exceptional frame of the batch route: flags restored, queued events of the failed call dropped), the C08/C10 link clauses of the setter on the raising paths. Eighth round: Event.__set__ (an Event that refuses a value keeps the state it was in) carried from C05.",
    "C03": "Later additions: Parameters._update (every accepted change of a multi-parameter update is announced by the time the call returns or raises), the public batching managers and trigger (queue order, no event lost), Comparator probes, and the clause that a class-level copy of an inherited Parameter shares the watcher table of the Parameter it was copied from. Eighth round: Parameters._execute_watcher (one invocation; a Skip raised by the callback never reaches the dispatcher) carried from C04.",
    "C04": "Later additions: Parameters.self_or_cls; the quick tier of the C17 bounded layer is carried for batches on copies; the quick tier of the C03 bounded layer is carried for update/batch contexts opened inside watchers, trigger re-assigns exactly the value values() reports (union-dict model), coalescing through the _update_event_type callee contract, the flush probe. Eighth round: Parameters._execute_watcher under contract (mode args), with a scenario probe over plain set / batch / update / trigger.",
    "C06": "Later additions: the quick tier of the C17 bounded layer is carried for watch=True methods on copies, the metaclass dependency table (block contract in ParameterizedMetaclass.__init__: inherited entries kept unless overridden), one iteration of _update_deps, _sync_caller, the dispatcher contracts and Parameters._update.",
    "C07": "Later additions: the dispatch loop of Parameter.__set__ (every watcher of the snapshot is called, carried from C03), one iteration of Parameters._update_deps (old sub-object watchers removed before the new ones are installed, for any number of watchers), _sync_caller, dispatcher contracts.",
    "C08": "Later additions: _update_ref unwatches through the namespace of the object the watcher was registered on (its instance unless None, whatever its truth value), _syncing (the set of names being synced is swapped and restored on every exit), Parameters.update (links handed to the restorer for mapping and keywords alike), resolve_value on lists of any length (every item resolved; recursive call by contract; assumption A-RV), the constructor link clause, and the probe on bind's generated dependency keywords. Eighth round: Parameters._sync_refs for two and three links and one event (delivered <=> depends on the changed parameter and the reference yields a value; a Skip leaves only its own link alone; own nested_refs flag; one update).",
    "C09": "Later additions: Comparator.compare_iterator/compare_mapping (a genuine change of a container value is never suppressed; carried from C03), resolve_value on lists of any length (every item is resolve_value(item); a container handed back as it is must contain only items that resolve to themselves, assumption A-RV).",
    "C10": "Later additions: the constructor link clause of _setup_params (a reference without parameter dependencies is still recorded), _syncing restores on exceptions. Eighth round: probe on a real event loop for pipe(coroutine, reactive argument) over one or two updates and every completion order.",
    "C11": "Later additions: Parameter.__init__ and five constructors (what a declaration leaves unspecified stays Undefined), add_parameter, the re-validation and type-change blocks of __param_inheritance, and the block installing the merged slot values (an inherited mutable container is the Parameter's own copy before _update_state may mutate it). Eighth round: the metaclass __setattr__ contract carried from C13 (a Parameter object refused while its inherited attributes are merged is taken off the class again, /repo fix 6bd8429).",
    "C12": "Later additions: Parameters.self_or_cls (the instance whenever there is one, whatever its truth value), get_param_descriptor, _instantiate_param (deep copy whatever the outer type), the metaclass __setattr__ copy-on-write, the class parameter table, and the slot-installation block of __param_inheritance (no crosstalk with the ancestor's containers). Eighth round: block contract on Parameterized.__init__ (initialized on every exit) carried from C14.",
    "C13": "Later additions: get_param_descriptor (the nearest declaring class of an arbitrary class list), the metaclass __setattr__ slot-copying loop, get_value_generator for Dynamic parameters, the class parameter table and its cache clearing, add_parameter. Eighth round: the metaclass __setattr__ contract models the naming of an assigned Parameter object and demands the roll-back of a Parameter refused by the merge (/repo fix 6bd8429).",
    "C14": "Later additions: the class-level route (metaclass __setattr__: every plain value reaches the descriptor exactly once; get_param_descriptor), edit_constant (every flag restored on every exit, for any number of parameters), Parameters.__getitem__ (instance-level copy keeps constant/readonly), Parameter.__init__ (readonly implies constant), the setter's link clauses. Eighth round: block contract on Parameterized.__init__ (the object is marked initialized on every exit, whichever constructor step fails); Parameters._sync_refs carried from C08 (the only writer of a linked constant goes through edit_constant); probe: constants stay pinned on instances made inside shared_parameters() and on copies.",
    "C15": "Later additions: the four object loops of serialize/deserialize_parameters (every parameter visited once, no value lost), get_value_generator.",
    "C05": "Later additions: Event.__set__ (the event is reset exactly once on every exit, whatever exception type the inherited setter or a watcher raises), the quick tier of the C07 bounded layer is carried for failing watch=True methods (a raising method leaves the dynamic watchers re-registered). Eighth round: Parameters._sync_refs (the delivery of a source value runs inside edit_constant and _syncing) carried from C08; probe: after an update that fails at any of its keys every Event of the call is off and self-resetting.",
    "C17": "Later additions: the _InstancePrivate round trip from an ARBITRARY dispatch state of the original (the copy starts idle), the tail of Parameterized.__setstate__ (every pickled slot restored, watchers re-created with all fields), Parameterized.__getstate__ (fresh containers, nothing shared with the live object).",
    "C18": "Later additions: ghost-handle variants (a stale ListProxy handle), unnamed objects admitted by unchecked Selectors, the Selector validators. Eighth round: ListProxy.update (pairs), insert at positions counted from the end, refused mutations (absent object, unknown key, position out of range) raise, change nothing and announce nothing.",
    "C19": "Later additions: the failing-generator path, _state_push/_state_pop pairing, get_value_generator. Eighth round: Dynamic.__get__ and Dynamic._force through to _produce_value; probe: numbergen generators at the corner values of their parameters.",
    "C20": "Later additions: Comparator, get_value_generator, the class parameter table and clear_cache, and the probe on explicit names that extend an auto-generated name. Eighth round: probe for constructors with keyword-only arguments (known finding C20-b04).",
}
m = json.load(open('/verif/MANIFEST.json'))
known = json.load(open('/verif/known_findings.json'))
for c in m['checks']:
    pid = c['property_id']
    mod = importlib.import_module('contracts.c%s' % pid[1:])
    cs = mod.contracts()
    names = sorted({x.name.split('[')[0].strip() for x in cs})
    probes = [n for n, _ in getattr(mod, 'PROBES', [])] + sorted({x.name.split('[')[0] for x in cs if x.static_replay})
    t = c['level_claimed']['text']
    for mark in (MARK, " Later additions: ", " Later additions (eighth round): ", " Eighth round: "):
        if mark in t:
            t = t[:t.index(mark)]
    t = t.rstrip()
    if pid in ADDED:
        t += " " + ADDED[pid]
    t += MARK + "; ".join(names) + " (%d contracts; scenario probes replayed on every run for %d of them%s)." % (
        len(cs), len({x.name for x in cs if x.static_replay}), ("; module probes: " + ", ".join(n for n, _ in getattr(mod, 'PROBES', []))) if getattr(mod, 'PROBES', None) else "")
    c['level_claimed']['text'] = t
    # level_note: the sentence about known findings is generated from known_findings.json
    note = re.sub(r"\s*Known findings?\b[^.]*(\([^)]*\)[^.]*)*\.", "", c.get('level_note', '')).strip()
    ids = sorted(e['id'] for e in known['findings'] if e['property'] == pid)
    if ids:
        note += " Known findings reported as KNOWN-FINDING on every run (known_findings.json): " + ", ".join(ids) + "."
    c['level_note'] = note
json.dump(m, open('/verif/MANIFEST.json', 'w'), indent=1)
print("MANIFEST synced")
