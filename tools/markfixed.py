import json, sys
k = json.load(open('/verif/known_findings.json'))
commit = sys.argv[1]
ids = sys.argv[2:]
keep = []
for e in k['findings']:
    if e['id'] in ids:
        k['fixed'].append("fixed: property=%s %s %s [was %s: %s]" % (e['property'], commit, (e.get('minimal_input') or '')[:160], e['id'], (e.get('what') or '')[:200]))
    else:
        keep.append(e)
missing = set(ids) - {e['id'] for e in k['findings']}
if missing: print("unknown ids", missing)
k['findings'] = keep
json.dump(k, open('/verif/known_findings.json', 'w'), indent=1)
print(commit, "fixed", len(ids) - len(missing), "entries; remaining findings:", len(keep))
