"""Write the prompts for one round of independent seeded changes: one prompt per property, holding only
the property text, the summaries of the changes already made (so new ones differ) and the procedure.
usage: tools/mkseedprompts.py <round number> <id1> <id2>     (e.g. 5 i j)"""
import glob
import json
import os
import sys

rnd, k1, k2 = sys.argv[1], sys.argv[2], sys.argv[3]
out = '/tmp/seedprompts%s' % rnd
os.makedirs(out, exist_ok=True)
for line in open('/verif/properties.jsonl'):
    p = json.loads(line)
    pid = p['id']
    wt, so = '/tmp/seed%s_%s' % (rnd, pid), '/tmp/seedout%s_%s' % (rnd, pid)
    prev = []
    for mf in sorted(glob.glob('/verif/seeded/%s?/meta.json' % pid)):
        prev.append("- " + (json.load(open(mf)).get('summary') or '')[:520])
    txt = f"""You are helping test a verification framework. You get ONE semantic property of the Python library holoviz/param and a private scratch git worktree of its source at {wt} (a checkout of the library's current HEAD; you may edit files there freely; do NOT look at or touch /repo or /verif — work only in {wt} and write your results to {so}).

The property ({pid} — {p['title']}):

{p['statement']}

What it quantifies over: {p['quantifier']['text']}

Your task: produce TWO independent, realistic changes to the library source (param/*.py or numbergen/__init__.py) — the kind of change a developer could plausibly make while refactoring, optimising or 'fixing' something — each of which BREAKS this property while the package still imports/compiles and the existing test-suite still passes unchanged. Each change must need something specific to manifest: a particular multi-step sequence of operations, an unusual input or boundary value, a fault/exception at a particular point, a particular ordering or interleaving, a particular class hierarchy, or two cooperating sites that each look fine alone. Do NOT produce a change that ordinary use (or the existing tests) would expose at once. The two changes should be in different functions / mechanisms.

For each change k in {{{k1}, {k2}}}:
1. start from a clean tree (`git -C {wt} checkout -- .`), make the change, and save it with `git -C {wt} diff > {so}/{pid}%s.diff` (k = {k1} or {k2});
2. run the whole existing test-suite in the worktree: `cd {wt} && /venv/bin/python -m pytest -q -p no:cacheprovider -x --timeout=900 2>&1 | tail -3` — it must still pass (1185 passed); if it does not, rework the change;
3. write a small stand-alone demonstration program {so}/{pid}%s_demo.py that uses only the public API of param, exits with status 1 and prints what went wrong when the property is violated, exits 0 otherwise. It is run as `PYTHONPATH=<tree> /venv/bin/python demo.py` (IMPORTANT: without PYTHONPATH=<tree> python imports a stale installed copy of param). Verify: with PYTHONPATH={wt} (changed tree) it exits 1; after `git -C {wt} checkout -- .` (unchanged tree) it exits 0;
4. write {so}/{pid}%s_meta.json with keys: "property", "summary" (one sentence: what was changed), "needs" (what specific condition is needed for the violation to manifest), "files" (list), "test_suite" (the pytest summary line you saw), "demo_changed_exit", "demo_clean_exit".

These changes have ALREADY been made by others — produce different ones, in other functions or mechanisms, and preferably needing a different kind of condition to manifest:
{chr(10).join(prev)}

Leave the worktree clean at the end (`git -C {wt} checkout -- .`). No network is available. Your final message: for each of the two changes, the one-sentence summary, what it needs to manifest, and the observed exit codes."""
    open('%s/%s.txt' % (out, pid), 'w').write(txt)
print("prompts in", out)
