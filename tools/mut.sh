#!/bin/bash
# usage: mut.sh <name> <pyfile-relative> <python-expr-producing-new-source-from-s> <props...>
name=$1; file=$2; expr=$3; shift 3
d=/tmp/mut_$name
rm -rf $d; git -C /repo worktree add -f $d HEAD -q >/dev/null 2>&1
python3 - "$d/$file" "$expr" <<'PY'
import sys
p, expr = sys.argv[1], sys.argv[2]
s = open(p).read()
s2 = eval(expr)
assert s2 != s, "mutation did not apply"
open(p, 'w').write(s2)
PY
[ $? -ne 0 ] && { echo "MUTATION FAILED $name"; git -C /repo worktree remove --force $d; exit 1; }
for p in "$@"; do
  out=$(cd /verif && PYVC_REPO=$d ./check $p --tier quick 2>&1 | grep -v conda)
  nv=$(echo "$out" | grep -c "^VIOLATION")
  npv=$(echo "$out" | grep -A1 "^VIOLATION" | grep -c "obligation=")
  echo "[$name] $p: violations=$nv (from proof obligations: $npv) :: $(echo "$out" | tail -1 | cut -c1-150)"
  echo "$out" | grep -A1 "^VIOLATION" | grep "obligation=" | cut -c1-160 | head -3
done
git -C /repo worktree remove --force $d
