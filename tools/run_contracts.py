import sys, time, importlib; sys.path.insert(0,'/verif')
from pyvc import verify, source
mod=importlib.import_module('contracts.'+sys.argv[1])
src=source.Sources()
only=sys.argv[2:]
tot={}
for c in mod.contracts():
    if only and not any(o in c.name for o in only): continue
    t=time.time()
    try:
        rep=verify.verify_function(c, src)
    except Exception as e:
        import traceback; traceback.print_exc(); print('CRASH',c.name); continue
    cnt={}
    for v in rep['verdicts']:
        cnt[v['status']]=cnt.get(v['status'],0)+1; tot[v['status']]=tot.get(v['status'],0)+1
    print('%-44s paths=%-4s %s %.1fs'%(c.name, rep['paths'], cnt, time.time()-t), rep.get('assumed_paths') or '')
    for v in rep['verdicts']:
        if v['status']!='proved': print('    ',v['status'],v['name'],v['note'] or '', (v.get('witness_class') or v['model'] or '')[:300])
print(tot)
