#!/usr/bin/env python3
"""Confirm a seeded change and run the checks against it.

usage: tools/seedcheck.py <seed id e.g. C05a> <diff> <demo.py> <agent meta.json> [--props=C05,C04] [--tier=quick]
       tools/seedcheck.py <seed id>            (re-check a seed kept under /verif/seeded/<id>/)

1. confirmation in a scratch worktree (never /repo): the diff applies, the whole test-suite still
   passes, the demo exits 1 with the change and 0 without it;
2. detection: `git -C /repo apply <diff>`, run `./check <prop>` for the property (and extra ones),
   ALWAYS followed by `git -C /repo checkout -- .`;
3. the seed is kept as /verif/seeded/<id>/ (patch.diff, demo.py, meta.json with what was run).
"""
import json
import os
import re
import shutil
import subprocess
import sys

VERIF = os.path.dirname(os.path.dirname(os.path.abspath(__file__)))


def sh(cmd, **kw):
    return subprocess.run(cmd, shell=True, capture_output=True, text=True, **kw)


def main():
    recheck = len([a for a in sys.argv[1:] if not a.startswith("--")]) == 1
    if recheck:
        # re-run confirmation and detection for a seed already kept under /verif/seeded/<id>/
        sid = sys.argv[1]
        d0 = os.path.join(VERIF, "seeded", sid)
        diff, demo, meta = os.path.join(d0, "patch.diff"), os.path.join(d0, "demo.py"), os.path.join(d0, "meta.json")
        rest = sys.argv[2:]
    else:
        sid, diff, demo, meta = sys.argv[1:5]
        rest = sys.argv[5:]
    props = [sid[:3]]
    tier = "quick"
    scratch = "--scratch" in rest
    for a in rest:
        if a.startswith("--props="):
            props = a.split("=", 1)[1].split(",")
        if a.startswith("--tier="):
            tier = a.split("=", 1)[1]
    agent_meta = json.load(open(meta)) if os.path.exists(meta) else {}
    keep = {k: agent_meta[k] for k in ("remade_on_head", "note", "remade") if k in agent_meta}
    if recheck:
        agent_meta = {"summary": agent_meta.get("summary"), "needs": agent_meta.get("needs_to_manifest"), "files": agent_meta.get("files")}
    wt = "/tmp/seedconfirm_%s" % sid
    sh("git -C /repo worktree remove --force %s" % wt)
    sh("rm -rf %s" % wt)
    r = sh("git -C /repo worktree add -f %s HEAD" % wt)
    res = {"seed": sid, "property": sid[:3]}
    try:
        clean = sh("PYTHONPATH=%s /venv/bin/python %s" % (wt, demo), cwd="/tmp")
        a = sh("git -C %s apply %s" % (wt, os.path.abspath(diff)))
        if a.returncode != 0:
            res["error"] = "diff does not apply: " + a.stderr[-300:]
            print(json.dumps(res))
            return 2
        t = sh("cd %s && /venv/bin/python -m pytest -q -p no:cacheprovider -x --timeout=900 2>&1 | tail -1" % wt)
        res["test_suite_with_change"] = re.sub(r"\x1b\[[0-9;]*m", "", t.stdout.strip())
        changed = sh("PYTHONPATH=%s /venv/bin/python %s" % (wt, demo), cwd="/tmp")
        res["demo_exit_clean"] = clean.returncode
        res["demo_exit_changed"] = changed.returncode
        res["demo_output_changed"] = (changed.stdout + changed.stderr)[-600:]
        res["confirmed"] = ("passed" in res["test_suite_with_change"] and not re.search(r"\d+ (failed|error)", res["test_suite_with_change"])
                            and clean.returncode == 0 and changed.returncode != 0)
        if scratch:
            # detection against the scratch worktree (same machinery, PYVC_REPO points the checks at it):
            # lets several seeds of DIFFERENT properties be checked side by side; /repo is not touched
            res["checks"] = {}
            for p in props:
                c = sh("cd %s && PYVC_REPO=%s ./check %s --tier %s" % (VERIF, wt, p, tier))
                res["checks"][p] = summarise(c, tier)
                res["checks"][p]["tree"] = "scratch worktree (PYVC_REPO)"
    finally:
        sh("git -C /repo worktree remove --force %s" % wt)
        sh("rm -rf %s" % wt)
    if scratch:
        sh("cd %s && git checkout -- evidence/%s.json" % (VERIF, sid[:3]))
        return finish(res, sid, recheck, diff, demo, agent_meta, keep)
    # detection against /repo itself
    res["checks"] = {}
    st = sh("git -C /repo status --porcelain")
    if st.stdout.strip():
        res["error"] = "/repo is not clean"
        print(json.dumps(res))
        return 2
    try:
        a = sh("git -C /repo apply %s" % os.path.abspath(diff))
        if a.returncode != 0:
            res["error"] = "diff does not apply to /repo"
        else:
            for p in props:
                c = sh("cd %s && ./check %s --tier %s" % (VERIF, p, tier))
                res["checks"][p] = summarise(c, tier)
    finally:
        sh("git -C /repo checkout -- .")
        # evidence files were rewritten by the runs on the changed tree: restore the committed ones
        sh("cd %s && git checkout -- evidence" % VERIF)
    return finish(res, sid, recheck, diff, demo, agent_meta, keep)


def summarise(c, tier):
    out = c.stdout
    viol = [l for l in out.splitlines() if l.startswith("VIOLATION")]
    detail = [l.strip() for l in out.splitlines() if l.startswith("  obligation=") or l.startswith("  clause=")]
    return {"tier": tier, "exit": c.returncode, "violations": len(viol),
            "from_proof_obligations": sum(1 for d in detail if d.startswith("obligation=")),
            "from_bounded_layer": sum(1 for d in detail if d.startswith("clause=")),
            "replayed": sum(1 for l in viol if "no-failing-input-found" not in l),
            "first": detail[:3], "summary": out.strip().splitlines()[-1][:200] if out.strip() else c.stderr[-200:]}


def finish(res, sid, recheck, diff, demo, agent_meta, keep):
    res["detected"] = any(v["violations"] > 0 for v in res["checks"].values())
    d = os.path.join(VERIF, "seeded", sid)
    os.makedirs(d, exist_ok=True)
    if not recheck:
        shutil.copy(diff, os.path.join(d, "patch.diff"))
        shutil.copy(demo, os.path.join(d, "demo.py"))
    m = {"breaks_property": sid[:3], "summary": agent_meta.get("summary"), "needs_to_manifest": agent_meta.get("needs"),
         "files": agent_meta.get("files"), "origin": "independent sub-agent given only the property text and a scratch worktree",
         "confirmed_by": {"command": "tools/seedcheck.py (scratch worktree: apply, full pytest suite, demo with/without change)",
                          "test_suite_with_change": res.get("test_suite_with_change"),
                          "demo_exit_with_change": res.get("demo_exit_changed"), "demo_exit_without_change": res.get("demo_exit_clean"),
                          "confirmed": res.get("confirmed")},
         "checks_run": res["checks"], "detected": res["detected"]}
    m.update(keep)
    json.dump(m, open(os.path.join(d, "meta.json"), "w"), indent=1)
    print(json.dumps({k: res[k] for k in ("seed", "confirmed", "detected")}), {p: (v["violations"], v["from_proof_obligations"], v["from_bounded_layer"]) for p, v in res["checks"].items()})
    return 0


if __name__ == "__main__":
    sys.exit(main())
