"""Evidence writer (EVIDENCE.schema.json): what this run actually covered."""
import json
import os

HERE = os.path.dirname(os.path.dirname(os.path.abspath(__file__)))

# trusted base: the assumption catalogue of DESIGN.md §8 (ids are stable)
CATALOGUE = {
    "A-PYSEM": "pyvc's encoding of the Python subset (evaluation order, short-circuit, chained comparison, truthiness, exception propagation through try/finally and with) matches CPython 3.12 — tested by replaying counter-models and by the bounded layer, not proved",
    "A-NUM": "numbers are int/bool/float/Fraction/finite Decimal; float comparisons are exact over reals + NaN/±inf flags (the code under proof only compares)",
    "A-NONUMPY": "numpy/pandas/gmpy are not imported (_dt_types={date,datetime}, _int_types={int})",
    "A-MSG": "code that only builds the text of an exception message or a warning (f-strings, % formatting, message-building statements before a raise) is pure and does not raise; it is dropped by the extraction",
    "A-WARN": "warnings.warn / logging calls do not raise",
    "A-DECO": "_deprecate_positional_args, _deprecated, wraps, _recursive_repr are transparent for keyword calls",
    "A-LIB": "library contracts of builtins (len, isinstance, hasattr on builtin types, tuple/list/dict methods, zip, map, re.match as a pure function, datetime(date) conversion) as stated in pyvc/builtins_lib.py, lib_seq.py, lib_misc.py",
    "A-EQ": "`in` on a list of candidate objects is modelled as identity membership (== on the candidates is total, non-raising and agrees with identity on the objects used as Selector options)",
    "A-CTX": "contextlib.contextmanager protocol (generator resumed normally or by raising at the yield)",
    "A-TERM": "termination is not proved (partial correctness)",
    "A-DISTINCT": "the objects named as distinct inputs of a contract are pairwise different objects (no aliasing between them unless the contract says so)",
}


def write(res):
    prop = res["prop"]
    proof = res["proof"]
    bounded = res["bounded"] or {}
    has_proof = proof is not None and (res["obligations"] > 0)
    man_level = manifest_level(prop)
    cov = {}
    assumptions = []
    if has_proof:
        cov.update({
            "obligations": res["obligations"],
            "discharged": res["discharged"],
            "checker_cmd": "./check %s --tier %s   (pyvc: real /repo source -> VCs -> z3 %s, cvc5 for unknowns)" % (prop, res["tier"], z3_version()),
            "trusted_base": trusted_base(res),
            "functions_under_contract": res["functions"],
            "backends": res["backends"],
            "solver_time_s": res["solver_time_s"],
            "undecided": res["undecided"],
            "out_of_reach": res["out_of_reach"],
            "refuted_known": res["refuted_known"],
            "dropped_by_extraction": sorted({d for f in res["functions"] for d in (f.get("dropped") or [])}),
            "assumed_paths": sorted({d for f in res["functions"] for d in (f.get("assumed_paths") or [])}),
        })
    if bounded.get("status") == "ok":
        cov.update({
            "evaluations": bounded.get("evaluations", 0),
            "distinct_nontrivial": bounded.get("distinct_nontrivial", 0),
            "rule": "BOUNDED stand-in (never counted as proved): " + str(bounded.get("rule")),
            "bound": bounded.get("bound"),
            "exhaustive": bool(bounded.get("exhaustive")),
            "samples": (bounded.get("samples") or [])[:6] or [{"note": "no sample recorded"}],
            "bounded_contract_evaluations": bounded.get("contract_evaluations"),
            "bounded_wall_s": bounded.get("wall_s"),
            "bounded_notes": bounded.get("notes"),
            "bounded_carried_families": bounded.get("carried"),
            "bounded_interpreter": bounded.get("interpreter"),
        })
    if has_proof:
        samples = cov.get("samples", [])
        # a few obligations written out
        k = 0
        for rep in proof["reports"]:
            for v in rep["verdicts"][:2]:
                samples.append({"obligation": v["name"], "status": v["status"], "backend": v["backend"], "seconds": v["seconds"]})
                k += 1
            if k >= 6:
                break
        cov["samples"] = samples
    level = man_level or ("proof" if has_proof else "exploration")
    if level == "proof" and not (has_proof and res["discharged"] == res["obligations"] and not res["out_of_reach"]):
        # downgrade for this run: undecided / out-of-reach obligations are never counted as proved
        level = "other"
    if level == "other":
        cov["explanation"] = explanation(res, has_proof)
    cov["known_findings_reported"] = res["known_hits"]
    if res.get("probes"):
        cov["probes"] = {"what": "concrete scenario scripts accompanying the contracts (the replay scripts of their obligations), run against the real code on every run; bounded, never counted as proved",
                         "run": len(res["probes"]), "reproduced": [p["name"] for p in res["probes"] if p["reproduced"]]}
    assumptions = [("%s: %s" % (k, CATALOGUE[k])) for k in sorted(CATALOGUE)] if has_proof else []
    assumptions.append("bounded layer: oracle written from the property statement; explores only the stated bound")
    if proof is not None:
        assumptions += list(proof.get("assumptions") or [])
    ev = {
        "property_id": prop,
        "tier": res["tier"],
        "seed": res["seed"],
        "level": level,
        "coverage": cov,
        "assumptions": assumptions,
        "wall_s": res["wall_s"],
        "violations": res["violations"],
    }
    d = os.path.join(HERE, "evidence")
    os.makedirs(d, exist_ok=True)
    with open(os.path.join(d, "%s.json" % prop), "w") as f:
        json.dump(ev, f, indent=1, default=repr)
    return ev


def explanation(res, has_proof):
    parts = []
    if has_proof:
        parts.append("deductive part: %d obligations generated from the current /repo source for %d functions under contract, "
                     "%d discharged (unbounded, function by function); %d undecided, %d out of reach"
                     % (res["obligations"], len(res["functions"]), res["discharged"], len(res["undecided"]),
                        len(res["out_of_reach"])))
    else:
        parts.append("no function of this property is under a discharged contract in this run")
    b = res["bounded"] or {}
    if b.get("status") == "ok":
        parts.append("bounded stand-in (run-time contract checking of the real code, NOT a proof): %s cases, bound: %s"
                     % (b.get("evaluations"), b.get("bound")))
    return "; ".join(parts)


def trusted_base(res):
    tb = ["pyvc symbolic executor (this repository, /verif/pyvc) and z3/cvc5"]
    libs = sorted({l for f in res["functions"] for l in (f.get("lib") or [])})
    if libs:
        tb.append("assumed library contracts used: " + ", ".join(libs))
    cc = sorted({l for f in res["functions"] for l in (f.get("contract_calls") or [])})
    if cc:
        tb.append("callee contracts used modularly (each verified by its own obligations unless listed as assumed): " + ", ".join(cc))
    tb += sorted(CATALOGUE)
    return tb


def z3_version():
    try:
        import z3
        return z3.get_version_string()
    except Exception:
        return "?"


def manifest_level(prop):
    try:
        with open(os.path.join(HERE, "MANIFEST.json")) as f:
            m = json.load(f)
        for c in m.get("checks", []):
            if c["property_id"] == prop:
                return c["level_claimed"]["category"]
    except Exception:
        pass
    return None
