"""./check CNN --tier quick|thorough | --replay FILE | --list

Decides one property: (1) regenerates and discharges every obligation of the property's sidecar
contracts from /repo's *current* working tree (pyvc), (2) runs the bounded stand-in layer
(labelled bounded, never counted as proved), (3) matches every violation against the committed
known findings, (4) writes evidence/CNN.json.

Exit codes: 0 held (or only KNOWN-FINDING lines) / 1 VIOLATION / 3 checker error.
`unknown`, timeouts and out-of-reach functions are *undecided*: never a violation.
"""
import argparse
import concurrent.futures as cf
import hashlib
import importlib
import json
import multiprocessing as mp
import os
import re
import subprocess
import sys
import time
import traceback

HERE = os.path.dirname(os.path.dirname(os.path.abspath(__file__)))
REPO = os.environ.get("PYVC_REPO", "/repo")
VENV_PY = "/venv/bin/python"
VT_PY = "python3-vt"
BOUNDED_PY = {"C16": VT_PY}

sys.path.insert(0, HERE)


def load_known():
    p = os.path.join(HERE, "known_findings.json")
    if not os.path.exists(p):
        return {"findings": [], "fixed": []}
    with open(p) as f:
        return json.load(f)


def match_known(known, prop, layer, clause, witness):
    for e in known.get("findings", []):
        if e.get("property") != prop or e.get("layer", "bounded") != layer:
            continue
        cre = e.get("clause_re")
        if cre is not None:
            if not re.fullmatch(cre, clause):
                continue
        elif e.get("clause") is not None and e["clause"] != clause:
            continue
        wre = e.get("witness_re")
        if wre is None or re.fullmatch(wre, witness) or re.search(wre, witness):
            return e
    return None


# ------------------------------------------------------------------------- proof layer ----
def _verify_one(args):
    modname, idx, timeout_ms = args
    sys.path.insert(0, HERE)
    try:
        from pyvc import source, verify
        mod = importlib.import_module(modname)
        c = mod.contracts()[idx]
        t0 = time.time()
        rep = verify.verify_function(c, source.Sources(REPO), timeout_ms=timeout_ms)
        rep["wall_s"] = round(time.time() - t0, 3)
        rep["contract_index"] = idx
        return rep
    except Exception:
        return {"function": "%s[%d]" % (modname, idx), "name": "%s[%d]" % (modname, idx), "crash": traceback.format_exc(),
                "verdicts": [], "contract_index": idx}


def run_proof(prop, tier):
    modname = "contracts.%s" % prop.lower()
    try:
        mod = importlib.import_module(modname)
    except ModuleNotFoundError:
        return None
    n = len(mod.contracts())
    timeout_ms = 10000 if tier == "quick" else 30000
    ctx = mp.get_context("spawn")
    reps = []
    # one contract must never stall the whole check: beyond the budget it is reported out of reach
    budget = 600 if tier == "quick" else 2400
    ex = cf.ProcessPoolExecutor(max_workers=min(16, max(1, n)), mp_context=ctx)
    try:
        futs = [ex.submit(_verify_one, (modname, i, timeout_ms)) for i in range(n)]
        t_end = time.time() + budget
        for i, f in enumerate(futs):
            try:
                reps.append(f.result(timeout=max(1.0, t_end - time.time())))
            except cf.TimeoutError:
                reps.append({"function": "%s[%d]" % (modname, i), "name": "%s[%d]" % (modname, i), "contract_index": i,
                             "verdicts": [{"name": "%s[%d]/time-budget" % (modname, i), "status": "out_of_reach", "backend": None,
                                           "seconds": None, "note": "verification exceeded the wall-clock budget of the check", "model": None}]})
    finally:
        procs = list(getattr(ex, "_processes", {}).values())
        ex.shutdown(wait=False, cancel_futures=True)
        for pr in procs:
            try:
                if pr.is_alive():
                    pr.kill()
            except Exception:
                pass
    return {"module": modname, "reports": reps, "assumptions": getattr(mod, "ASSUMPTIONS", []),
            "level_note": getattr(mod, "LEVEL_NOTE", "")}


# ----------------------------------------------------------------------- bounded layer ----
# Carried bounded families: (origin property, clause regex or None, witness regex or None).  The check
# of a property also runs the QUICK tier of the origin's bounded layer and takes over the violations
# whose clause/witness match — the part of that layer which explores a dimension this property's
# statement speaks about as well (failing watch=True methods for C05, watch=True methods on copies for
# C06, update/batch contexts opened inside watchers and batches on copies for C04).  Violations that match a known finding of
# the ORIGIN are that property's business and are dropped here (its own check reports them).
CARRY = {
    "C03": [("C17", None, r"calls\[(extra|missing)\]")],
    "C05": [("C07", None, r"class=mraise")],
    "C06": [("C17", None, r"calls\[(extra|missing)\]")],
    "C04": [("C03", r"C03/(queued|event)/.*", r"prog=.*(update|batch)"),
            ("C17", None, r"post=(batch|upd|trig)\S* .*calls\[(extra|missing)\]")],
}


def run_bounded(prop, tier, seed):
    res = _run_bounded_one(prop, tier, seed, prop)
    if res is None or res.get("status") != "ok":
        return res
    known = load_known()
    res["carried"] = []
    for (origin, cre, wre) in CARRY.get(prop, []):
        r2 = _run_bounded_one(origin, "quick", seed, "%s.carried-%s" % (prop, origin))
        if r2 is None or r2.get("status") != "ok":
            res["carried"].append({"origin": origin, "status": (r2 or {}).get("status", "missing")})
            continue
        kept = dropped = 0
        for v in r2.get("violations", []):
            if cre is not None and not re.fullmatch(cre, v["clause"]):
                continue
            if wre is not None and not re.search(wre, v["witness"]):
                continue
            if match_known(known, origin, "bounded", v["clause"], v["witness"]) is not None:
                dropped += 1
                continue
            v = dict(v)
            v["origin"] = origin
            res.setdefault("violations", []).append(v)
            kept += 1
        res["carried"].append({"origin": origin, "status": "ok", "cases": r2.get("cases"), "clause_re": cre, "witness_re": wre,
                               "violations_taken_over": kept, "dropped_as_known_findings_of_origin": dropped,
                               "wall_s": r2.get("wall_s")})
    return res


def _run_bounded_one(prop, tier, seed, tag):
    path = os.path.join(HERE, "bounded", prop.lower() + ".py")
    if not os.path.exists(path):
        return None
    work = os.path.join(HERE, ".work")
    os.makedirs(work, exist_ok=True)
    out = os.path.join(work, "%s.bounded.%s.json" % (tag, tier))
    if os.path.exists(out):
        os.unlink(out)
    env = dict(os.environ)
    env["PYTHONPATH"] = "%s:%s" % (REPO, HERE)
    env["PYVC_REPO"] = REPO
    env["PYTHONWARNINGS"] = "ignore"
    py = BOUNDED_PY.get(prop, VENV_PY)
    t0 = time.time()
    # own session: on a time-out the whole process group (worker pools included) is killed, and a
    # memory limit keeps a run-away enumeration on a changed tree from exhausting the machine
    import signal

    def _limits():
        os.setsid()
        try:
            import resource
            cap = 12 * 1024 ** 3
            resource.setrlimit(resource.RLIMIT_AS, (cap, cap))
        except Exception:
            pass
    pr = subprocess.Popen([py, "-m", "bounded.run", prop, "--tier", tier, "--seed", str(seed), "--out", out],
                          cwd=HERE, env=env, stdout=subprocess.PIPE, stderr=subprocess.PIPE, text=True, preexec_fn=_limits)
    try:
        _, err = pr.communicate(timeout=(900 if tier == "quick" else 3600))
        err = (err or "")[-2000:]
    except subprocess.TimeoutExpired:
        try:
            os.killpg(pr.pid, signal.SIGKILL)
        except Exception:
            pr.kill()
        pr.communicate()
        return {"status": "timeout", "wall_s": time.time() - t0}
    finally:
        try:
            os.killpg(pr.pid, signal.SIGKILL)      # stray workers of a finished run
        except Exception:
            pass
    if not os.path.exists(out):
        return {"status": "crash", "traceback": err, "wall_s": time.time() - t0}
    with open(out) as f:
        res = json.load(f)
    res["wall_s"] = round(time.time() - t0, 3)
    res["interpreter"] = py
    return res


# ------------------------------------------------------------------------ probe layer ----
def run_probes(prop):
    """Concrete probes: the stand-alone scenario scripts that accompany the contracts of this
    property (the same scripts that replay a refuted obligation) are run against the real code on
    EVERY run.  They are bounded run-time checks with an oracle written from the property statement
    (labelled `probe`, never counted as proved); they decide changes that move a function out of the
    verifier's reach.  -> list of {name, path, reproduced, output}"""
    modname = "contracts.%s" % prop.lower()
    try:
        mod = importlib.import_module(modname)
    except ModuleNotFoundError:
        return []
    seen, jobs = set(), []
    for c in mod.contracts():
        text = getattr(c, "static_replay", None)
        if not text:
            continue
        h = hashlib.sha256(text.encode()).hexdigest()
        if h in seen:
            continue
        seen.add(h)
        path = write_replay(prop, "probe|" + h, text)
        jobs.append((c.name, path, getattr(c, "static_witness", None) or ""))
    for (pname, text) in getattr(mod, "PROBES", []):
        h = hashlib.sha256(text.encode()).hexdigest()
        if h not in seen:
            seen.add(h)
            jobs.append((pname, write_replay(prop, "probe|" + h, text), pname))
    out = []
    if not jobs:
        return out
    with cf.ThreadPoolExecutor(max_workers=min(8, len(jobs))) as ex:
        for (name, path, wit), (ok, txt) in zip(jobs, ex.map(lambda j: run_replay(j[1], timeout=300), jobs)):
            out.append({"name": name, "path": path, "reproduced": ok, "output": txt, "witness": wit})
    return out


# --------------------------------------------------------------------------- replays ----
def write_replay(prop, key, text):
    d = os.path.join(HERE, "replays", prop)
    os.makedirs(d, exist_ok=True)
    h = hashlib.sha256(key.encode()).hexdigest()[:12]
    p = os.path.join(d, "%s.py" % h)
    with open(p, "w") as f:
        f.write(text)
    return p


def run_replay(path, timeout=120):
    """-> (reproduced: bool|None, output)"""
    env = dict(os.environ)
    env["PYTHONPATH"] = REPO
    env["PYVC_REPO"] = REPO
    env["PYTHONWARNINGS"] = "ignore"
    py = VENV_PY
    try:
        with open(path) as f:
            head = f.read(400)
        if "python3-vt" in head:
            py = VT_PY
        p = subprocess.run([py, path], env=env, capture_output=True, text=True, timeout=timeout, cwd="/tmp")
    except subprocess.TimeoutExpired:
        return None, "replay timed out"
    out = (p.stdout + p.stderr)[-3000:]
    if p.returncode == 1 and "REPRODUCED" in p.stdout and "NOT-REPRODUCED" not in p.stdout:
        return True, out
    if p.returncode == 0:
        return False, out
    return None, out


def obligation_replay_stub(prop, v, fn):
    return ("# replay stub for refuted obligation (no concrete input could be built from the solver model)\n"
            "# property  : %s\n# obligation: %s\n# function  : %s (%s lines %s, sha256/16 %s)\n"
            "# solver    : %s  status: refuted\n# model     : %s\n"
            "import sys\nprint('NOT-REPRODUCED: no-failing-input-found; failed obligation %s')\nsys.exit(0)\n"
            % (prop, v["name"], fn.get("function"), fn.get("file"), fn.get("lines"), fn.get("sha"),
               v.get("backend"), (v.get("model") or "")[:1500].replace("\n", " "), v["name"].replace("'", "")))


# ------------------------------------------------------------------------------ main ----
def decide(prop, tier, seed):
    t0 = time.time()
    known = load_known()
    lines = []
    violations = 0
    known_hits = []
    proof = run_proof(prop, tier)
    bounded = run_bounded(prop, tier, seed)
    probes = run_probes(prop)
    checker_error = []
    ev_cov = {}
    # ---- bounded results first (their replays also serve refuted obligations) ----
    b_viol = []
    if bounded is not None:
        if bounded.get("status") != "ok":
            checker_error.append("bounded layer %s: %s" % (bounded.get("status"), (bounded.get("traceback") or "")[-800:]))
        else:
            for v in bounded.get("violations", []):
                e = match_known(known, prop, "bounded", v["clause"], v["witness"])
                if e is not None:
                    known_hits.append((e, v))
                    continue
                b_viol.append(v)
    # ---- proof obligations ----
    obligations = discharged = 0
    undecided, out_of_reach, refuted_known, refuted_new = [], [], [], []
    functions = []
    backends = {}
    solver_time = 0.0
    if proof is not None:
        for rep in proof["reports"]:
            if rep.get("crash"):
                checker_error.append("contract %s crashed: %s" % (rep["name"], rep["crash"][-1500:]))
                continue
            functions.append({k: rep.get(k) for k in ("name", "function", "file", "lines", "sha", "paths", "path_kinds",
                                                       "inlined", "lib", "dropped", "contract_calls", "assumed_paths",
                                                       "exec_s", "wall_s")})
            for v in rep["verdicts"]:
                st = v["status"]
                solver_time += v.get("seconds") or 0
                if st == "proved":
                    obligations += 1
                    discharged += 1
                    backends[v["backend"]] = backends.get(v["backend"], 0) + 1
                elif st == "refuted":
                    e = match_known(known, prop, "proof", v["name"], v.get("witness_class") or v.get("model") or "")
                    if e is not None:
                        refuted_known.append((e, v, rep))
                    else:
                        obligations += 1
                        refuted_new.append((v, rep))
                elif st == "undecided":
                    obligations += 1
                    undecided.append(v["name"])
                elif st in ("out_of_reach", "missing"):
                    out_of_reach.append("%s: %s" % (v["name"], v.get("note")))
    # ---- report known findings ----
    seen_known = set()
    for (e, v) in known_hits:
        if e["id"] not in seen_known:
            seen_known.add(e["id"])
            lines.append("KNOWN-FINDING: property=%s %s [%s; witness: %s]" % (prop, (e["what"] or "")[:240], e["id"], v["witness"][:160]))
    for (e, v, rep) in refuted_known:
        if e["id"] not in seen_known:
            seen_known.add(e["id"])
            lines.append("KNOWN-FINDING: property=%s %s [%s; obligation: %s]" % (prop, (e["what"] or "")[:240], e["id"], v["name"]))
    # ---- new violations ----
    for v in b_viol:
        text = v.get("replay") or ("# no replay script was produced\nprint('NOT-REPRODUCED')\n")
        path = write_replay(prop, v["clause"] + "|" + v["witness"], text)
        ok, out = run_replay(path)
        violations += 1
        tail = "" if ok else " no-failing-input-found"
        lines.append("VIOLATION property=%s replay=%s%s" % (prop, path, tail))
        lines.append("  clause=%s witness=%s" % (v["clause"], v["witness"][:300]))
    probe_viol = []
    for pr in probes:
        if pr["reproduced"] is True:
            first = [l.strip() for l in pr["output"].splitlines() if l.strip() and not l.startswith("REPRODUCED")][:1]
            wit = (first[0] if first else pr["witness"])[:300]
            e = match_known(known, prop, "probe", "probe/" + pr["name"], wit)
            if e is not None:
                if e["id"] not in seen_known:
                    seen_known.add(e["id"])
                    lines.append("KNOWN-FINDING: property=%s %s [%s; probe: %s]" % (prop, (e["what"] or "")[:240], e["id"], pr["name"]))
                continue
            probe_viol.append(pr)
            violations += 1
            lines.append("VIOLATION property=%s replay=%s" % (prop, pr["path"]))
            lines.append("  clause=probe/%s witness=%s" % (pr["name"], wit))
        elif pr["reproduced"] is None:
            # a probe that neither passed nor reproduced (crash / time-out) decides nothing
            print("PROBE-UNDECIDED: %s: %s" % (pr["name"], pr["output"][-300:].replace("\n", " | ")), file=sys.stderr)
    for (v, rep) in refuted_new:
        reproduced = False
        path = None
        if v.get("replay"):
            path = write_replay(prop, v["name"], v["replay"])
            ok, out = run_replay(path)
            reproduced = bool(ok)
        if not reproduced:
            stub = obligation_replay_stub(prop, v, rep)
            if v.get("replay"):
                stub += "\n# the concretised model did not reproduce on the real code; its script was:\n" + \
                        "\n".join("# " + l for l in v["replay"].splitlines())
            path = write_replay(prop, v["name"] + "|stub", stub)
        violations += 1
        lines.append("VIOLATION property=%s replay=%s%s" % (prop, path, "" if reproduced else " no-failing-input-found"))
        lines.append("  obligation=%s model=%s" % (v["name"], (v.get("model") or "")[:300]))
    return {
        "prop": prop, "tier": tier, "seed": seed, "lines": lines, "violations": violations,
        "proof": proof, "bounded": bounded, "obligations": obligations, "discharged": discharged,
        "undecided": undecided, "out_of_reach": out_of_reach,
        "refuted_known": [{"id": e["id"], "obligation": v["name"]} for (e, v, r) in refuted_known],
        "known_hits": sorted(seen_known), "functions": functions, "backends": backends,
        "solver_time_s": round(solver_time, 3), "checker_error": checker_error, "wall_s": round(time.time() - t0, 3),
        "probes": [{"name": p_["name"], "reproduced": p_["reproduced"]} for p_ in probes],
    }


def main():
    ap = argparse.ArgumentParser()
    ap.add_argument("prop", nargs="?")
    ap.add_argument("--tier", default=os.environ.get("VERIF_TIER", "quick"))
    ap.add_argument("--replay")
    ap.add_argument("--list", action="store_true")
    a = ap.parse_args()
    if a.list:
        for l in open(os.path.join(HERE, "properties.jsonl")):
            d = json.loads(l)
            print(d["id"], d["title"])
        return 0
    prop = a.prop.upper()
    if a.replay:
        ok, out = run_replay(a.replay)
        print(out)
        if ok:
            print("VIOLATION property=%s replay=%s" % (prop, a.replay))
            return 1
        return 0
    seed = int(os.environ.get("VERIF_SEED", "0") or 0)
    tier = a.tier if a.tier in ("quick", "thorough") else "quick"
    from vlib import evidence
    try:
        res = decide(prop, tier, seed)
    except Exception:
        traceback.print_exc()
        return 3
    for l in res["lines"]:
        print(l)
    evidence.write(res)
    if res["checker_error"]:
        for e in res["checker_error"]:
            print("CHECKER-ERROR: " + e, file=sys.stderr)
        if not res["violations"]:
            return 3
    print("%s %s: obligations=%d discharged=%d undecided=%d out_of_reach=%d known=%d bounded_cases=%s violations=%d wall=%.1fs"
          % (prop, tier, res["obligations"], res["discharged"], len(res["undecided"]), len(res["out_of_reach"]),
             len(res["known_hits"]), (res["bounded"] or {}).get("evaluations"), res["violations"], res["wall_s"]))
    return 1 if res["violations"] else 0


if __name__ == "__main__":
    sys.exit(main())
